// Package fuzzc holds the coverage-guided fuzz targets: Go's fuzzing engine chooses the inputs, the monitors are
// the checks' own (lib/props.FuzzTargets). Campaigns (tools/fuzzcampaign.sh) run these for a long time and the
// inputs that reached new coverage are committed under testdata/fuzz/<Target>/; the checks replay that corpus
// as a fixed case list (props.ReplayCorpusSlice), and `go test ./fuzzc` replays it too.
//
// A deviation whose signature is a known finding (known_findings.json) is skipped; anything else fails the target.
package fuzzc

import (
	"os"
	"testing"

	"verif/lib/fw"
	"verif/lib/props"
)

func root() string {
	if r := os.Getenv("VERIF_ROOT"); r != "" {
		return r
	}
	return "/verif"
}

func run(f *testing.F, name string) {
	ft := props.LookupFuzzTarget(name)
	if ft == nil {
		f.Fatalf("no target %s", name)
	}
	known := fw.KnownSignatures(root(), ft.Prop)
	for _, s := range ft.Seed() {
		f.Add(s)
	}
	f.Fuzz(func(t *testing.T, data []byte) {
		c := fw.NewStandaloneCtx(ft.Prop)
		ft.Run(c, data)
		for _, d := range c.TakeDeviations() {
			if known[d.Sig] {
				continue
			}
			t.Fatalf("DEVIATION %s\n%s", d.Sig, d.Detail)
		}
	})
}

func FuzzC03Decode(f *testing.F)    { run(f, "FuzzC03Decode") }
func FuzzC10Cbor(f *testing.F)      { run(f, "FuzzC10Cbor") }
func FuzzC10Json(f *testing.F)      { run(f, "FuzzC10Json") }
func FuzzC10Selector(f *testing.F)  { run(f, "FuzzC10Selector") }
func FuzzC04Roundtrip(f *testing.F) { run(f, "FuzzC04Roundtrip") }
func FuzzC09Typed(f *testing.F)     { run(f, "FuzzC09Typed") }
func FuzzC14Path(f *testing.F)      { run(f, "FuzzC14Path") }
