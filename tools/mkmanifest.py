#!/usr/bin/env python3
"""Regenerates /verif/MANIFEST.json from the table below (kept in one place so the
manifest is always schema-valid). Run after adding or removing a claimed check."""
import json, os, sys
ROOT = os.path.dirname(os.path.dirname(os.path.abspath(__file__)))

# id -> (level, technique, level text, level note, design ref)
CHECKS = {
    "C08": ("exploration", "runtime monitoring: differential oracle — for random type systems over every implemented representation strategy and generated inhabitants, the read-out monitor compares the type-level view and the representation view of nodes built through both builders with a reference model of the strategy relation; codec round trips through the representation builder compared byte-for-byte and value-for-value",
            "Held on the type systems and values observed for the reflection binding (inferred Go types); generated code runs the same monitor inside C13. Sampling of type systems (non-cyclic, depth <= 4) and values.",
            "Trusted: lib/ref/schema (strategy relation written from the IPLD Schema specification), lib/obs. Tuple structs only with trailing absents.", "DESIGN.md §2 C08"),
    "C09": ("exploration", "runtime monitoring: differential oracle — conforming values and random local mutations of them (type level and representation level, directly and through dag-cbor(relaxed)/dag-json) are fed to typed builders call by call and, for lists and maps, once more as one foreign node through a single AssignNode; accept/reject, error-not-panic and the accepted value are compared with a reference conformance decision; a coverage-distilled corpus of DAG-CBOR inputs for twelve fixed type systems is replayed against the same reference",
            "Held on the inputs observed for the reflection binding; generated code runs the same monitor inside C13. Sampling.",
            "Trusted: lib/ref/schema ParseType/ParseRepr.", "DESIGN.md §2 C09"),
    "C13": ("exploration", "runtime monitoring: per batch the generator in the working tree is run on freshly drawn type systems (every struct, map, list and union strategy it supports, optional/nullable fields, complex keys), the output is compiled with go build into a driver linked with the monitors, and the driver feeds the same conforming and mutated inputs, at type and representation level, to the generated prototypes and to bindnode prototypes of the same schema in lock-step: accept/reject, panic, type-level read-out, representation read-out and dag-cbor/dag-json bytes are compared; the C08 view monitor and the C09 conformance monitor run on the generated engine against the reference model as well, as do the C01 typed read-back (incl. whole-value AssignNode from another implementation) and the C12 rejected-key monitors; a probe compiles the packages generated for structs of 63, 64 and 70 fields",
            "Held on the type systems and inputs observed: every generated package compiled, and the two engines agreed on everything compared, apart from two known findings (a tuple struct value with an absent optional before a present one, which has no representation, is improvised differently; the package generated for a struct with 64 or more fields does not compile). Sampling of type systems and inputs.",
            "Trusted: go build as the compile oracle; lib/ref/schema where the engines are judged against the reference and not only each other. Enums, Any and listpairs are outside the generator's feature set.", "DESIGN.md §2 C13"),
    "C19": ("exploration", "runtime monitoring: differential oracle — an independent reflection walk between Go values and typed abstract values (lib/gobind) is compared with what bindnode exposes: read-out of Wrap(&v) at both levels vs the walk of v; walk of Unwrap(built node) vs what was assembled (type and representation builders); Marshal bytes vs the reference encoding of the representation and the walk of the freshly unmarshalled value (dag-cbor, dag-json; typed-nil bind form); integers outside the Go field's range must be refused by builders and Unmarshal; each case ends with a history of repeated/interleaved Wrap/Prototype/Unwrap/Marshal/Unmarshal calls with explicit and inferred schemas over bindings of this and earlier cases of the same process; the clone idiom n.Prototype().NewBuilder().AssignNode(n) with a structural shared-memory check of the built Go value against the source; a custom-converter family (bindnode options through Wrap, builders reused through Reset, Marshal/Unmarshal)",
            "Held on the bindings, values and histories observed (Go types drawn by reflection for random type systems over all documented shapes, a declared library of named types, and inferable types), apart from one known finding (a uint64 member above MaxInt64 inside a kinded union cannot be marshalled). Sampling.",
            "Trusted: lib/gobind walkers, lib/ref/schema, lib/ref/cbor. Nilable-without-pointer only for struct fields (documented); float32 fields get float32-representable values; dag-json skipped for floats and integers above MaxInt64.", "DESIGN.md §2 C19"),
    "C16": ("exploration", "runtime monitoring: model-based monitor of transform sequences — each FocusedTransform result, callback argument, error outcome, set of blocks written and the graph reloaded from the new root are compared with a reference functional update over the abstract graph; the input tree is re-read after every step; WalkTransforming results compared with the reference selector walk's matches on link-free trees; a probe records the walking transform across a link; the walking transform under link controls (visit-once, skipping loader) must keep the input's skeleton; callback errors must surface",
            "Held on the transform sequences observed (existing/new/append/delete targets, through links, with unavailable blocks) apart from one known finding (WalkTransforming inlines linked blocks). Sampling.",
            "Trusted: the reference update in lib/props/c16.go (documented FocusedTransform semantics), lib/ref/sel, lib/ref/cbor.", "DESIGN.md §2 C16"),
    "C07": ("exploration", "runtime monitoring: differential oracle — visits (path, node value, reason) and link loads recorded at the callback and storage boundaries of WalkAdv/WalkMatching are compared with a reference denotational walk of the selector AST over the abstract graph; each selector compiled three ways (builder, spec tree, DAG-JSON text)",
            "Held on the (graph, selector) pairs observed, for all clause kinds incl. recursion limits, edges, stop-at and subset matchers. Sampling; the oracle is a model written for this task (see level_note).",
            "Trusted: lib/ref/sel (specified semantics; repository doc comments where the spec is silent). A stricter-than-specified model would show as a false alarm; every disagreement seen on the unchanged tree was examined (DESIGN §4).", "DESIGN.md §2 C07"),
    "C14": ("exploration", "runtime monitoring: during walks every visited (path, node) is resolved back from the root three ways (Get, Focus, stepwise LookupBySegment with link loading) and compared with the visited node and with a reference resolver over the abstract graph; paths are kept beyond the callback and resolved again after the walk; all positions enumerated from the nodes' own keys/indices; perturbed (partially existing, near-numeric) paths must fail exactly when the reference says so; String/ParsePath round trip; WalkLocal visits; a coverage-distilled corpus of path texts",
            "Held on the graphs, walks and paths observed. Sampling of graphs; per graph all positions (capped at 400) and all visits are checked.",
            "Trusted: the reference resolver in lib/props/c14.go, lib/obs.", "DESIGN.md §2 C14"),
    "C15": ("exploration", "runtime monitoring with a metamorphic oracle: restricted walks (every node budget 0..|U|+2, every link budget 0..|L|+1, start-at every visited path, visit-links-once, loader skip sets) compared with the implementation's own unrestricted visit and load sequences recorded at the callback and storage boundaries; the transforming walk under every link budget against its own unrestricted load sequence; the local walk compared with the harness's enumeration of positions under every node budget and with SkipMe from the callback; the transforming walk's loads under visit-links-once",
            "Held on the (graph, selector) pairs observed; per pair the budget and start-at spaces are enumerated completely (sampled for walks longer than 40-60 visits).",
            "Trusted: nothing beyond the unrestricted walk being deterministic (checked). No preloader.", "DESIGN.md §2 C15"),
    "C20": ("exploration", "sanitizer + result monitor: Go race detector build; goroutines run seeded read-only operations on one pool of shared nodes, selectors, prototypes, type systems, registry, link system and traversal config, in warm mode (sequential reference digests first) and cold mode (first use is concurrent); per-goroutine result digests compared with sequential ones; race logs de-duplicated by innermost library frames; overlap table shows which operation pairs were in flight together; link systems over memstore and over a pre-filled fsstore; a separate process for first-time schema inference under readers and for eight goroutines binding the same not-yet-inferred types at once; a freshly generated type system bound by all goroutines at once; in cold mode the first use of every walk/load/bind/build operation is made by all goroutines together (spinning barrier)",
            "Held on the schedules observed apart from one known finding (first-time schema inference writes the process-wide bindnode type system while readers use it). Absence of a race report is not absence of a race.",
            "Trusted: the race detector. Stream-backed bytes nodes share the caller's reader and are not read concurrently.", "DESIGN.md §2 C20"),
    "C18": ("fault_enumeration", "runtime monitoring with crash and fault injection from outside the process: strace enumerates the file-system syscalls of each write scenario and injects SIGKILL (crash point) or an errno before every one of them; a fresh verifier process classifies the directory afterwards; concurrent reader/writer histories recorded at the client boundary and checked with porcupine (write-once register per key) in the race-detector build; fault-then-crash enumeration on the path a fault opens; random-instant SIGKILL of a child with six concurrently writing goroutines; puts under contexts cancelled at their n-th consultation; keys given two contents by concurrent writers (every read is one of them in full); several Store values on one directory with harness-interleaved streams",
            "Every syscall boundary of every scenario was used as a crash point and as a fault point (and, where a fault opens another path, every syscall of that path as a crash point too) and the store was found atomic and usable afterwards; concurrent histories were linearizable and free of partial or mixed reads and race reports; cancelled writes left keys absent or complete. Exhaustive per scenario; sampling over schedules and kill instants.",
            "Trusted: strace injection as crash/fault model (process death and syscall errors; no power-loss model), porcupine, the race detector.", "DESIGN.md §2 C18"),
    "C17": ("exploration", "runtime monitoring: histories of storage operations (incl. overlapping stream lifetimes) checked online against a write-once map model; containment of the filesystem store observed externally with strace (every path argument of every file syscall inside a history) and with sentinel files around the base directory",
            "Held on the histories observed for memstore, cidlink.Memory and fsstore (default and hex-escaped, three shardings) over a hostile key pool. Sampling of histories.",
            "Trusted: the map model, strace as observer. Identity escaping is not exercised.", "DESIGN.md §2 C17"),
    "C10": ("exploration", "runtime monitoring: panic/process-death monitor (child per batch, case replayed alone to confirm), nesting-depth monitor (recording assembler), allocation monitor (runtime.MemStats.TotalAlloc delta against a budget-relative bound), over random, mutated and structure-aware hostile inputs to the five decoders under many configurations and targets, to the selector compiler (tree and JSON-text entry points) and the walks of what compiles (incl. a recursion-limit sweep and budget-relative length claims), and to ParsePath; plus deterministic replay of an input corpus distilled by coverage-guided campaigns (Go native fuzzing choosing inputs, the same monitors judging them)",
            "Held on the executions observed: no panic, no process death, depth and allocation within the configured bounds. Termination is a per-batch watchdog (inconclusive when it fires), so 'terminates' is bounded progress only.",
            "Trusted: allocation constants calibrated on the unchanged tree (>=4x headroom); the bound is relative to the configured budget.", "DESIGN.md §2 C10"),
    "C04": ("exploration", "runtime monitoring: differential oracle — the encoder's output is read by an independent DAG-JSON reader (encoding/json token stream + reserved-form rules) and by the library decoder, both compared with the abstract value; encodings compared across insertion orders and implementations; failed decodes and failed encodes interleaved; values denoted by a coverage-distilled corpus of DAG-JSON texts get the same monitors",
            "Held on the executions observed apart from two known findings with one cause in the pinned dependency refmt (integral floats are written without '.' and so change kind or stop decoding). Sampling with boundary bias.",
            "Trusted: encoding/json as tokenizer, go-cid for the CID string form, lib/ref/json.", "DESIGN.md §2 C04"),
    "C12": ("exploration", "runtime monitoring: model-based monitor of assembler call sequences — generated legal sequences with the two pinned rejections (repeated key in three call forms; unacceptable kind) injected at random positions, outcome class per call and read-out of Build() checked against a sequential model of the contract; Reset/reuse sequences; scalars delivered as finished nodes through AssignNode; a typed family over random type systems (typed maps incl. recursively assembled struct keys, struct fields, and a second entry offered to unions)",
            "Held on the sequences observed for basicnode, bindnode (struct, typed maps, renamed representation, Any map; type and representation level) and the checked-in generated code. Freshly generated code is exercised by C13.",
            "Trusted: the sequential contract model in lib/props/c12.go and lib/obs. Misuse orders are never generated.", "DESIGN.md §2 C12"),
    "C11": ("exploration", "runtime monitoring: snapshot-and-reread monitor — every tracked node (generic, decoded, loaded, matched, transformed, and typed bindnode nodes with inferred and user-supplied Go types) is read out in full right after production and again after each step of a generated history of later library operations (builder reset/reuse, assign-and-extend incl. builders of the node's own prototype that are then used further, transforms, walks, subset matches, further loads and decodes; a storage that serves every block out of one buffer it reuses); the checked-in generated code is a producer too",
            "Held on the histories observed: no tracked node from any producer changed its read-out, and no accessor disagreed with itself on a second read. Sampling of producers and histories.",
            "Trusted: lib/obs read-out monitor. Callers writing into slices they own are excluded as the property states.", "DESIGN.md §2 C11"),
    "C05": ("exploration", "runtime monitoring: histories of store/compute/load operations checked online against a sequential model (write-once map) with reference links (stdlib digests, hand-built CIDs) over reference block bytes; bursts of concurrent ComputeLink calls; probes with unregistered codecs and hash functions and with values the chosen codec cannot write (error, no link, no block)",
            "Held on the histories observed: every Store/ComputeLink returned the reference link, storage held exactly the reference bytes, every load form returned the stored value and bytes, results handed out earlier did not change later. Sampling of histories and configurations.",
            "Trusted: lib/ref/link, lib/ref/cbor, stdlib crypto; for cbor/json/dag-json the expected bytes come from the codec's own direct Encode.", "DESIGN.md §2 C05"),
    "C06": ("fault_enumeration", "runtime monitoring with fault injection at the storage boundary: per stored block, exhaustive bit flips, truncations, read-error offsets, extensions, substitutions, chunkings, last-bytes-with-EOF reads and extended blocks arriving in pieces; writer/encoder failures (iterators and scalar accessors of a faulty node) on the store side with a recording committer; open and commit errors; loads into a prototype whose builder refuses the block; large blocks faulted at buffer boundaries",
            "For each corpus block every fault of the listed classes was injected into each of Load/LoadRaw/LoadPlusRaw/Fill and the outcome compared with an independent digest of the served bytes; exhaustive per block, sampling over blocks.",
            "Trusted: stdlib digests + lib/ref/link. (0,nil) reads are not part of the fault family (see DESIGN §5).", "DESIGN.md §2 C06"),
    "C01": ("exploration", "runtime monitoring: read-out monitor (every accessor twice, both iterators, every lookup form, wrong-kind probes) over nodes built by randomly drawn legal build programs, compared with the abstract value; DeepEqual/Copy compared with model equality; one builder reused through Reset for two values; typed nodes (bindnode here, generated code inside C13) additionally receive the whole value as one node of another implementation through AssignNode and are rebuilt through their own Prototype() at both levels",
            "Held on the executions observed: every generated value built by several legal call sequences into basicnode (Any and kind prototypes) and bindnode Any-map/list bindings read back as exactly that value with no internal disagreement; typed bindnode nodes of random type systems (and generated code inside C13) answered every lookup form and every kind-inappropriate accessor consistently and without panicking. Sampling with boundary bias, not a proof.",
            "Trusted: lib/obs read-out monitor, lib/model. What typed views contain is decided by C08/C13.", "DESIGN.md §2 C01"),
    "C02": ("exploration", "runtime monitoring: differential oracle (independent canonical DAG-CBOR reference encoder) over generated values, all insertion orders of small maps, head-boundary sweep, interleaved failed encodes",
            "Held on the executions observed: every generated value, in several insertion orders and node implementations, encoded to exactly the reference encoder's bytes; EncodedLength matched; decode read back the key-sorted value. Sampling with boundary bias, not a proof.",
            "Trusted: lib/ref/cbor encoder (written from the spec), go-cid for CID parsing.", "DESIGN.md §2 C02"),
    "C03": ("exploration", "runtime monitoring: differential oracle (independent strict reference decoder) over an exhaustive short-input space plus single-point, multi-point and structure-aware mutations of valid encodings; basicnode and recording-assembler targets; bytes.Reader and plain io.Reader shapes (whole, one byte per call, last bytes with io.EOF); plus deterministic replay of an input corpus distilled by coverage-guided campaigns, judged by the same reference decoder",
            "Held on the executions observed; the sub-space of all byte strings of length 0-2 (quick) / 0-3 (thorough) is enumerated completely, the rest is mutation sampling. One known finding in the pinned dependency refmt (-2^64 decodes as 0).",
            "Trusted: lib/ref/cbor decoder, go-cid for CID syntax; UTF-8 validity and resource limits are outside the oracle.", "DESIGN.md §2 C03"),
}

NOT_YET = "not claimed"

def main():
    props = [json.loads(l) for l in open(os.path.join(ROOT, "properties.jsonl"))]
    checks, na = [], []
    for p in props:
        pid = p["id"]
        if pid in CHECKS:
            level, tech, text, note, ref = CHECKS[pid]
            checks.append({
                "property_id": pid,
                "quick_cmd": "./check %s quick" % pid,
                "thorough_cmd": "./check %s thorough" % pid,
                "evidence_file": "/verif/evidence/%s.json" % pid,
                "replay_cmd_template": "./check %s --replay {path}" % pid,
                "engine": "verifrun",
                "level_claimed": {"category": level, "text": text, "design_ref": ref},
                "level_note": note,
                "technique": tech,
            })
        else:
            na.append({"property_id": pid, "reason": NOT_YET})
    m = {
        "version": 1,
        "setup_cmd": "./setup.sh",
        "hooks": {
            "guard": "verif",
            "enable": "go build -tags verif (the harness module /verif replaces github.com/ipld/go-ipld-prime with /repo, so every build compiles the current working tree)",
            "baseline_off_cmd": "./tools/baseline.sh",
            "source_commits": [],
            "add_only": True,
        },
        "engines": [{
            "name": "verifrun",
            "path": "/verif/cmd/verifrun",
            "serves_properties": sorted(CHECKS.keys()),
            "kind_free_text": "runtime monitoring: parent process spawning one child per batch of generated cases; monitors = read-out monitor, reference models, history checkers, race detector, strace observer/injector",
        }],
        "checks": checks,
        "notes": "Technique family: runtime monitoring and sanitizers. See DESIGN.md. known_findings.json lists genuine defects recorded or fixed.",
        "not_applicable": na,
    }
    json.dump(m, open(os.path.join(ROOT, "MANIFEST.json"), "w"), indent=1)
    print("MANIFEST.json: %d checks, %d not claimed" % (len(checks), len(na)))

if __name__ == "__main__":
    main()
