#!/usr/bin/env python3
"""Regenerates /verif/MANIFEST.json from the table below (kept in one place so the
manifest is always schema-valid). Run after adding or removing a claimed check."""
import json, os, sys
ROOT = os.path.dirname(os.path.dirname(os.path.abspath(__file__)))

# id -> (level, technique, level text, level note, design ref)
CHECKS = {
}

NOT_YET = "check not built yet in this phase (see DESIGN.md section 2 for the intended monitor); not claimed"

def main():
    props = [json.loads(l) for l in open(os.path.join(ROOT, "properties.jsonl"))]
    checks, na = [], []
    for p in props:
        pid = p["id"]
        if pid in CHECKS:
            level, tech, text, note, ref = CHECKS[pid]
            checks.append({
                "property_id": pid,
                "quick_cmd": "./check %s quick" % pid,
                "thorough_cmd": "./check %s thorough" % pid,
                "evidence_file": "/verif/evidence/%s.json" % pid,
                "replay_cmd_template": "./check %s --replay {path}" % pid,
                "engine": "verifrun",
                "level_claimed": {"category": level, "text": text, "design_ref": ref},
                "level_note": note,
                "technique": tech,
            })
        else:
            na.append({"property_id": pid, "reason": NOT_YET})
    m = {
        "version": 1,
        "setup_cmd": "./setup.sh",
        "hooks": {
            "guard": "verif",
            "enable": "go build -tags verif (the harness module /verif replaces github.com/ipld/go-ipld-prime with /repo, so every build compiles the current working tree)",
            "baseline_off_cmd": "./tools/baseline.sh",
            "source_commits": [],
            "add_only": True,
        },
        "engines": [{
            "name": "verifrun",
            "path": "/verif/cmd/verifrun",
            "serves_properties": sorted(CHECKS.keys()),
            "kind_free_text": "runtime monitoring: parent process spawning one child per batch of generated cases; monitors = read-out monitor, reference models, history checkers, race detector, strace observer/injector",
        }],
        "checks": checks,
        "notes": "Technique family: runtime monitoring and sanitizers. See DESIGN.md. known_findings.json lists genuine defects recorded or fixed.",
        "not_applicable": na,
    }
    json.dump(m, open(os.path.join(ROOT, "MANIFEST.json"), "w"), indent=1)
    print("MANIFEST.json: %d checks, %d not claimed" % (len(checks), len(na)))

if __name__ == "__main__":
    main()
