#!/bin/bash
# tools/sweep.sh <tier> <seed...>   run every check (or those in $SWEEP_IDS, e.g. "02 03 20 01", in that order) at the given seeds (logs sweep_<tier>_s<seed>_<ID>.log in cwd).
# Under `vp run --with-repo` the snapshot's go.mod is pointed at the repo snapshot ($VP_RUN_REPO) so that
# patches applied to /repo meanwhile (seed testing) cannot disturb the sweep. Exploration aid only:
# registered checks and committed evidence always come from /verif against /repo.
cd "$(dirname "$0")/.."
. tools/env.sh
if [ -n "${VP_RUN_REPO:-}" ] && [ "$PWD" != /verif ]; then
  go mod edit -replace github.com/ipld/go-ipld-prime="$VP_RUN_REPO"
  export REPO_ROOT="$VP_RUN_REPO"
  echo "sweep: using repo snapshot $VP_RUN_REPO ($(git -C "$VP_RUN_REPO" rev-parse --short HEAD 2>/dev/null))"
fi
tier=$1; shift
for seed in "$@"; do
for i in ${SWEEP_IDS:-01 02 03 04 05 06 07 08 09 10 11 12 13 14 15 16 17 18 19 20}; do
  s=$(date +%s)
  VERIF_SEED=$seed ./check C$i $tier > sweep_${tier}_s${seed}_C$i.log 2>&1
  echo "seed=$seed C$i exit=$? t=$(( $(date +%s)-s ))s viol=$(grep -ac '^VIOLATION' sweep_${tier}_s${seed}_C$i.log) known=$(grep -ac '^KNOWN-FINDING' sweep_${tier}_s${seed}_C$i.log) $(grep -a 'inconclusive=' sweep_${tier}_s${seed}_C$i.log | tail -1 | grep -o 'inconclusive=[0-9]*')"
done; done
