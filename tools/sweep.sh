#!/bin/bash
# usage: sweep.sh <tier> <seed...>
tier=$1; shift
for seed in "$@"; do
for i in 01 02 03 04 05 06 07 08 09 10 11 12 13 14 15 16 17 18 19 20; do
  s=$(date +%s)
  VERIF_SEED=$seed ./check C$i $tier > sweep_${tier}_s${seed}_C$i.log 2>&1
  echo "seed=$seed C$i exit=$? t=$(( $(date +%s)-s ))s viol=$(grep -ac '^VIOLATION' sweep_${tier}_s${seed}_C$i.log) known=$(grep -ac '^KNOWN-FINDING' sweep_${tier}_s${seed}_C$i.log) $(grep -a 'inconclusive=' sweep_${tier}_s${seed}_C$i.log | tail -1 | grep -o 'inconclusive=[0-9]*')"
done; done
