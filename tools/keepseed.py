#!/usr/bin/env python3
"""tools/keepseed.py <ID> <k> <status> <detected_by> [srcroot] [dstk] — copy a confirmed seeded change from /tmp/seed into /verif/seeded/<ID>-<k>/ with meta.json."""
import sys, os, shutil, json, glob
pid, k, status, detected = sys.argv[1:5]
srcroot = sys.argv[5] if len(sys.argv) > 5 else "/tmp/seed"
dstk = sys.argv[6] if len(sys.argv) > 6 else k
src = "%s/%s/%s" % (srcroot, pid, k)
dst = "/verif/seeded/%s-%s" % (pid, dstk)
os.makedirs(dst, exist_ok=True)
for f in glob.glob(src + "/*"):
    if os.path.isfile(f): shutil.copy(f, dst)
notes = open(os.path.join(src, "notes.md")).read() if os.path.exists(os.path.join(src, "notes.md")) else ""
meta = {
    "property": pid,
    "patch": "patch.diff",
    "demonstration": sorted(os.path.basename(f) for f in glob.glob(dst + "/*") if os.path.basename(f) not in ("patch.diff", "meta.json", "notes.md")),
    "needs_to_manifest": "see notes.md (written by the seeding sub-agent)",
    "base_commit": "3e45851 (pristine snapshot)" if srcroot == "/tmp/seed" else ("round 4" if "seed4" in srcroot else "round 3" if "seed3" in srcroot else "round 2") + ": /repo HEAD with the fix commits at the time of seeding (patch applies to the repaired tree)",
    "confirmed": "patch applies to /repo (git apply, --3way where my fix commits touch the same file), harness builds; suite and demonstration confirmed by tools/confirmseed.py in a scratch worktree (see self_confirmed); check result below obtained with tools/seedtest.sh",
    "check_result": status,
    "detected_by": detected,
}
json.dump(meta, open(os.path.join(dst, "meta.json"), "w"), indent=1)
print("kept", dst)
