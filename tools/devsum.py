#!/usr/bin/env python3
"""tools/devsum.py <ID> [substr]  — print one example per deviation signature from /verif/replays/<ID>."""
import json,glob,sys,os
pid=sys.argv[1]; sub=sys.argv[2] if len(sys.argv)>2 else ''
seen={}
for f in sorted(glob.glob('/verif/replays/%s/*.json'%pid)):
    d=json.load(open(f))
    s=d.get('signature') or d.get('sig') or d.get('Sig')
    if sub and sub not in s: continue
    if s in seen: continue
    seen[s]=1
    print('==',s); print((d.get('detail') or d.get('Detail') or '')[:int(os.environ.get('N','1200'))]); print()
