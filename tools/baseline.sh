#!/bin/bash
# Runs the repository's own test suite with the verif build tag OFF and compares
# the outcome with /root/.vp/BASELINE.json (every stable_pass test must pass).
# usage: tools/baseline.sh [repo-dir]
set -u
. "$(dirname "$0")/env.sh"
R="${1:-/repo}"
OUT=$(mktemp /tmp/verif-baseline.XXXXXX.json)
# schema/gen/go's tests build into $TMPDIR/test-go-ipld-prime-gengo: a private TMPDIR keeps concurrent suite runs apart
export TMPDIR=$(mktemp -d /tmp/verif-baseline-tmp.XXXXXX)
trap 'rm -rf "$TMPDIR"' EXIT
(cd "$R" && go test -mod=mod -json -vet=off -count=1 -timeout 25m ./... > "$OUT" 2>/dev/null)
python3 - "$OUT" <<'PY'
import json,sys
passed=set(); failed=set()
for line in open(sys.argv[1],errors='replace'):
    line=line.strip()
    if not line.startswith('{'): continue
    try: ev=json.loads(line)
    except Exception: continue
    a=ev.get('Action'); t=ev.get('Test'); p=ev.get('Package','')
    if t is None or a not in('pass','fail'): continue
    (passed if a=='pass' else failed).add(p+'::'+t)
passed-=failed
b=json.load(open('/root/.vp/BASELINE.json'))
want=set(b['stable_pass'])
missing=sorted(want-passed)
newfail=sorted(failed-set(b.get('always_fail',[])))
print('baseline: passed=%d want=%d missing=%d unexpected_fail=%d'%(len(passed),len(want),len(missing),len(newfail)))
for m in missing[:40]: print('  MISSING',m)
for m in newfail[:40]: print('  FAIL',m)
sys.exit(1 if missing or newfail else 0)
PY
rc=$?
rm -f "$OUT"
exit $rc
