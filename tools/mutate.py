#!/usr/bin/env python3
"""tools/mutate.py — mechanical mutation sweep over the files the properties are anchored in.

This is an exploration aid for *my machinery* (which checks notice which small changes), not a registered
check. For each sampled mutation site (deterministic from --seed):
  1. apply the one-line mutation to a private copy of the repository (a git worktree under the work dir,
     never /repo),
  2. `go build ./...`                                     -> "nocompile" if it fails,
  3. the repository's own suite (tools/baseline.sh <copy>)  -> "suite" if it fails (ordinary tests notice: not interesting),
  4. every quick check mapped to the file's area, run from a private copy of /verif whose go.mod points at
     the mutated copy                                       -> "killed:<IDs>" or "SURVIVED".
Results are appended to <work>/results.jsonl (one JSON object per mutant, with the diff) — survivors are what
I read by hand: either an equivalent / out-of-scope mutant, or a gap to close.

usage: tools/mutate.py --work /tmp/mut --worker K --of N --seed S --count M [--files glob,glob]
"""
import argparse, os, re, sys, json, random, subprocess, shutil, glob, time, hashlib

TC = "/root/go/pkg/mod/golang.org/toolchain@v0.0.1-go1.25.7.linux-amd64/bin"
if not os.path.isdir(TC): TC = "/opt/veriftools/go1.26.8/bin"
ENV = dict(os.environ, GOFLAGS="-mod=mod", GOPROXY="off", GOSUMDB="off", GOTOOLCHAIN="local")
ENV["PATH"] = TC + ":" + ENV["PATH"]

AREAS = [  # (path prefix, checks whose workloads reach it)
    ("codec/dagcbor/", "C02 C03 C05 C06 C10 C11"),
    ("codec/dagjson/", "C04 C05 C06 C10 C11"),
    ("codec/raw/", "C05 C06 C10 C11"),
    ("codec/cbor/", "C03 C05 C06 C10"),
    ("codec/json/", "C04 C05 C06 C10"),
    ("codec/", "C02 C03 C04 C05"),
    ("codecHelpers.go", "C19"),
    ("datamodel/path", "C14 C10 C07 C15"),
    ("datamodel/", "C01 C11 C12 C14 C16 C10"),
    ("node/basicnode/", "C01 C11 C12 C02 C03 C16 C20"),
    ("node/mixins/", "C01 C13"),
    ("node/bindnode/", "C01 C08 C09 C11 C12 C13 C19 C20 C10"),
    ("schema/gen/go/", "C13"),
    ("schema/", "C08 C09 C13 C19"),
    ("linking/", "C05 C06 C11 C16 C20 C17 C10"),
    ("multicodec/", "C05 C06 C20"),
    ("traversal/selector/", "C07 C10 C15 C14 C16"),
    ("traversal/", "C07 C14 C15 C16 C10 C11 C20"),
    ("storage/fsstore/", "C17 C18 C20"),
    ("storage/", "C17 C18 C05"),
]

TARGET_GLOBS = [
    "codec/dagcbor/*.go", "codec/dagjson/*.go", "codec/raw/*.go", "codec/cbor/*.go", "codec/json/*.go", "codec/*.go",
    "codecHelpers.go", "datamodel/*.go", "node/basicnode/*.go", "node/mixins/*.go", "node/bindnode/*.go",
    "schema/*.go", "linking/*.go", "linking/cid/*.go", "multicodec/*.go", "traversal/*.go",
    "traversal/selector/*.go", "traversal/selector/builder/*.go", "traversal/selector/parse/*.go",
    "storage/*.go", "storage/fsstore/*.go", "storage/memstore/*.go", "storage/sharding/*.go",
]

REL = [(" <= ", " < "), (" >= ", " > "), (" < ", " <= "), (" > ", " >= "), (" == ", " != "), (" != ", " == ")]


def sites_for(path, lines):
    """yield (lineno, operator name, new line)"""
    in_block_comment = False
    in_raw = False
    for i, ln in enumerate(lines):
        s = ln.strip()
        if in_block_comment:
            if "*/" in s: in_block_comment = False
            continue
        if s.startswith("/*"):
            if "*/" not in s: in_block_comment = True
            continue
        if ln.count("`") % 2 == 1:
            in_raw = not in_raw
            continue
        if in_raw or not s or s.startswith("//") or s.startswith("import") or s.startswith("package"):
            continue
        code = ln.split("//")[0] if '"' not in ln else ln
        if "panic(" in code or "fmt.Errorf" in code or "fmt.Sprintf" in code or "errors.New" in code:
            continue  # message text, not behaviour the properties speak about
        for a, b in REL:
            idx = code.find(a)
            if idx > 0 and '"' not in code[:idx]:
                yield i, "rel:%s->%s" % (a.strip(), b.strip()), ln[:idx] + b + ln[idx + len(a):]
                break
        for a, b in ((" && ", " || "), (" || ", " && ")):
            idx = code.find(a)
            if idx > 0 and '"' not in code[:idx]:
                yield i, "logic:%s->%s" % (a.strip(), b.strip()), ln[:idx] + b + ln[idx + len(a):]
                break
        m = re.search(r"(?<![\w\"])([+-]) ?1\b(?!\.)", code)
        if m and '"' not in code[:m.start()] and "++" not in code and "--" not in code and "iota" not in code:
            yield i, "arith:drop%s1" % m.group(1), ln[:m.start()] + ln[m.end():]
        m = re.search(r"\btrue\b", code)
        if m and '"' not in code[:m.start()]:
            yield i, "bool:true->false", ln[:m.start()] + "false" + ln[m.end():]
        m = re.search(r"\bfalse\b", code)
        if m and '"' not in code[:m.start()]:
            yield i, "bool:false->true", ln[:m.start()] + "true" + ln[m.end():]
        m = re.match(r"^(\s*)if (.*[^{\s]) \{\s*$", ln)
        if m and ";" not in m.group(2) and ":=" not in m.group(2):
            yield i, "negate-if", "%sif !(%s) {\n" % (m.group(1), m.group(2))
        if re.match(r"^\s+[\w\.\[\]\*\(\)]+ (=|\+=|-=|\|=) [^=].*$", ln) and not s.endswith("{") and not s.endswith(",") and not s.endswith("("):
            yield i, "del-assign", re.match(r"^\s*", ln).group(0) + "\n"
        if re.match(r"^\s+[\w\.]+(\+\+|--)$", ln.rstrip()):
            yield i, "del-incdec", "\n"
        if re.match(r"^\s+[\w\.\[\]]+\([^{}]*\)$", ln.rstrip()) and not s.startswith("return") and not s.startswith("go ") and not s.startswith("defer"):
            yield i, "del-call", re.match(r"^\s*", ln).group(0) + "\n"
        if s == "continue":
            yield i, "continue->break", ln.replace("continue", "break")
        if s == "break":
            yield i, "break->continue", ln.replace("break", "continue")
        m = re.match(r"^(\s*)return (.*\b)err$", ln.rstrip())
        if m and m.group(2).strip() in ("", "nil,", "0,", "false,", '"",'):
            yield i, "return-err->nil", "%sreturn %snil\n" % (m.group(1), m.group(2))


def sh(cmd, cwd, timeout, env=None):
    t0 = time.time()
    try:
        p = subprocess.run(cmd, cwd=cwd, env=env or ENV, shell=isinstance(cmd, str), stdout=subprocess.PIPE,
                           stderr=subprocess.STDOUT, timeout=timeout, errors="replace", start_new_session=True)
        return p.returncode, p.stdout, time.time() - t0
    except subprocess.TimeoutExpired:
        subprocess.run("pkill -KILL -f %s" % cwd, shell=True)
        return 124, "TIMEOUT", time.time() - t0


def checks_for(rel):
    for pre, ids in AREAS:
        if rel.startswith(pre):
            return ids.split()
    return []


def main():
    ap = argparse.ArgumentParser()
    ap.add_argument("--work", default="/tmp/mut")
    ap.add_argument("--worker", type=int, default=0)
    ap.add_argument("--of", type=int, default=1)
    ap.add_argument("--seed", type=int, default=1)
    ap.add_argument("--count", type=int, default=100)
    ap.add_argument("--files", default="")
    ap.add_argument("--list", action="store_true")
    ap.add_argument("--replay", default="")
    ap.add_argument("--replay-results", default="SURVIVED")
    ap.add_argument("--out", default="")
    ap.add_argument("--skip-suite", action="store_true", help="replay only: the suite verdict is already recorded")
    a = ap.parse_args()
    w = os.path.join(a.work, "w%d" % a.worker)
    repo = os.path.join(w, "repo")
    verif = os.path.join(w, "verif")
    os.makedirs(w, exist_ok=True)
    if not os.path.isdir(repo):
        subprocess.check_call(["git", "-C", "/repo", "worktree", "add", "--detach", repo, "HEAD"], stdout=subprocess.DEVNULL)
    subprocess.check_call(["git", "-C", repo, "checkout", "-q", "--", "."])
    subprocess.check_call(["git", "-C", repo, "checkout", "-q", "--detach",
                           subprocess.check_output(["git", "-C", "/repo", "rev-parse", "HEAD"], text=True).strip()])
    subprocess.check_call(["rsync", "-a", "--delete", "--exclude", ".git", "--exclude", "bin", "--exclude", "replays",
                           "--exclude", "seeded", "--exclude", "evidence", "/verif/", verif + "/"])
    os.makedirs(os.path.join(verif, "evidence"), exist_ok=True)
    subprocess.check_call(["go", "mod", "edit", "-replace", "github.com/ipld/go-ipld-prime=" + repo], cwd=verif, env=ENV)
    globs = a.files.split(",") if a.files else TARGET_GLOBS
    files = sorted({f for g in globs for f in glob.glob(os.path.join(repo, g))
                    if not f.endswith("_test.go") and "ipldsch_" not in f and "/gen" not in os.path.basename(f)[:0]})
    allsites = []
    for f in files:
        rel = os.path.relpath(f, repo)
        lines = open(f).readlines()
        for (i, op, new) in sites_for(rel, lines):
            if new != lines[i]:
                allsites.append((rel, i, op, new))
    rng = random.Random(a.seed)
    rng.shuffle(allsites)
    mine = [s for k, s in enumerate(allsites[:a.count]) if k % a.of == a.worker]
    if a.replay:
        # re-run recorded mutants (by default the survivors) against the checks as they are now; a site is found
        # again by its old line text at or near the recorded line (fix commits may have moved it)
        mine = []
        seen = set()
        for l in open(a.replay):
            r = json.loads(l)
            if r["result"] not in a.replay_results.split(",") or (r["file"], r["line"], r["op"]) in seen:
                continue
            seen.add((r["file"], r["line"], r["op"]))
            path = os.path.join(repo, r["file"])
            if not os.path.exists(path):
                continue
            lines = open(path).read().splitlines()
            cands = [i for i in range(len(lines)) if lines[i] == r["old"]]
            if not cands:
                print("GONE", r["file"], r["line"], r["op"], flush=True)
                continue
            i = min(cands, key=lambda i: abs(i - (r["line"] - 1)))
            mine.append((r["file"], i, r["op"], r["new"] + "\n"))
        mine = [s for k, s in enumerate(mine) if k % a.of == a.worker % a.of]
    if a.list:
        print(len(allsites), "sites;", len(mine), "for this worker")
        return
    env = dict(ENV, REPO_ROOT=repo, VERIF_ROOT=verif, TMPDIR=os.path.join(w, "tmp"))
    os.makedirs(env["TMPDIR"], exist_ok=True)
    resfile = a.out or os.path.join(a.work, "results.w%d.jsonl" % a.worker)
    out = open(resfile, "a")
    done = set()
    try:
        for l in open(resfile):
            r = json.loads(l); done.add((r["file"], r["line"], r["op"]))
    except Exception:
        pass
    for (rel, i, op, new) in mine:
        if (rel, i + 1, op) in done: continue
        path = os.path.join(repo, rel)
        orig = open(path).read()
        lines = orig.splitlines(keepends=True)
        old = lines[i]
        lines[i] = new
        open(path, "w").write("".join(lines))
        rec = {"file": rel, "line": i + 1, "op": op, "old": old.rstrip("\n"), "new": new.rstrip("\n"), "seed": a.seed}
        try:
            rc, o, t = sh("go build ./... && go vet ./%s 2>/dev/null; go build ./..." % os.path.dirname(rel), repo, 600)
            if rc != 0:
                rec["result"] = "nocompile"
            else:
                rc, o, t = (0, "", 0) if a.skip_suite else sh(["/verif/tools/baseline.sh", repo], repo, 1500)
                rec["suite_s"] = round(t)
                if rc != 0:
                    rec["result"] = "suite"
                    rec["suite"] = o.strip().splitlines()[:3]
                else:
                    killed, inconc = [], []
                    for cid in checks_for(rel):
                        rc, o, t = sh(["./check", cid, "quick"], verif, 900, env)
                        if re.search(r"^VIOLATION property=", o, re.M):
                            killed.append(cid)
                            sig = re.search(r"signature: *(\S+)", o)
                            rec.setdefault("signatures", {})[cid] = sig.group(1) if sig else ""
                        elif rc not in (0,):
                            inconc.append("%s:rc=%d" % (cid, rc))
                    rec["result"] = "killed" if killed else "SURVIVED"
                    rec["killed_by"] = killed
                    if inconc: rec["nonzero_without_violation"] = inconc
        finally:
            open(path, "w").write(orig)
            shutil.rmtree(env["TMPDIR"], ignore_errors=True); os.makedirs(env["TMPDIR"], exist_ok=True)
        out.write(json.dumps(rec) + "\n"); out.flush()
        print(rec["result"], rel, i + 1, op, rec.get("killed_by", ""), flush=True)


if __name__ == "__main__":
    main()
