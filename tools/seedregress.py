#!/usr/bin/env python3
"""tools/seedregress.py --work /tmp/sreg --worker K --of N [--only C07,C10]

Regression of the whole seed collection against the checks as they are now: every seeded/<ID>-<k>/ patch
(patch.rebased.diff preferred) is applied to a PRIVATE worktree of /repo's HEAD (never /repo itself), and the
quick tier of the check named in meta.json's detected_by (default: the seed's own property) is run from a
private copy of /verif whose go.mod points at that worktree. Prints one line per seed and writes
<work>/regress.w<K>.jsonl. Seeds whose meta says NEUTRALISED or "MISSED by <own check> by construction" are run
against the check that is recorded as catching them.
"""
import argparse, os, re, sys, json, subprocess, glob, shutil, time

TC = "/root/go/pkg/mod/golang.org/toolchain@v0.0.1-go1.25.7.linux-amd64/bin"
if not os.path.isdir(TC): TC = "/opt/veriftools/go1.26.8/bin"
ENV = dict(os.environ, GOFLAGS="-mod=mod", GOPROXY="off", GOSUMDB="off", GOTOOLCHAIN="local")
ENV["PATH"] = TC + ":" + ENV["PATH"]


def sh(cmd, cwd, timeout, env=None):
    try:
        p = subprocess.run(cmd, cwd=cwd, env=env or ENV, shell=isinstance(cmd, str), stdout=subprocess.PIPE,
                           stderr=subprocess.STDOUT, timeout=timeout, errors="replace")
        return p.returncode, p.stdout
    except subprocess.TimeoutExpired:
        return 124, "TIMEOUT"


def main():
    ap = argparse.ArgumentParser()
    ap.add_argument("--work", default="/tmp/sreg")
    ap.add_argument("--worker", type=int, default=0)
    ap.add_argument("--of", type=int, default=1)
    ap.add_argument("--only", default="")
    a = ap.parse_args()
    w = os.path.join(a.work, "w%d" % a.worker)
    repo, verif = os.path.join(w, "repo"), os.path.join(w, "verif")
    os.makedirs(w, exist_ok=True)
    if not os.path.isdir(repo):
        subprocess.check_call(["git", "-C", "/repo", "worktree", "add", "--detach", repo, "HEAD"], stdout=subprocess.DEVNULL)
    subprocess.check_call(["git", "-C", repo, "checkout", "-q", "--detach", subprocess.check_output(["git", "-C", "/repo", "rev-parse", "HEAD"], text=True).strip()])
    subprocess.check_call(["git", "-C", repo, "checkout", "-q", "--", "."])
    subprocess.check_call(["rsync", "-a", "--delete", "--exclude", ".git", "--exclude", "bin", "--exclude", "replays",
                           "--exclude", "seeded", "--exclude", "evidence", "--exclude", "mutation", "/verif/", verif + "/"])
    os.makedirs(os.path.join(verif, "evidence"), exist_ok=True)
    subprocess.check_call(["go", "mod", "edit", "-replace", "github.com/ipld/go-ipld-prime=" + repo], cwd=verif, env=ENV)
    env = dict(ENV, REPO_ROOT=repo, VERIF_ROOT=verif, TMPDIR=os.path.join(w, "tmp"))
    os.makedirs(env["TMPDIR"], exist_ok=True)

    def key(d):
        m = re.match(r".*/(C\d\d)-(\d+)/?$", d)
        return (m.group(1), int(m.group(2)))
    seeds = sorted(glob.glob("/verif/seeded/*/"), key=key)
    if a.only:
        seeds = [s for s in seeds if key(s)[0] in a.only.split(",")]
    seeds = [s for k, s in enumerate(seeds) if k % a.of == a.worker]
    out = open(os.path.join(a.work, "regress.w%d.jsonl" % a.worker), "a")
    for sd in seeds:
        name = os.path.basename(sd.rstrip("/"))
        meta = json.load(open(os.path.join(sd, "meta.json")))
        own = name.split("-")[0]
        res = str(meta.get("check_result", ""))
        det = str(meta.get("detected_by", ""))
        if res.upper().startswith("NEUTRALISED"):
            print(name, "SKIP (neutralised by a fix)", flush=True)
            continue
        checks = re.findall(r"(?:check )?(C\d\d) (?:quick|thorough)", det)
        check = own if (own in checks or not checks) else checks[0]
        if res.upper().startswith("MISSED"):
            m = re.findall(r"DETECTED by \./check (C\d\d)", res + " " + det)
            check = m[0] if m else (checks[0] if checks else own)
        patch = os.path.join(sd, "patch.rebased.diff")
        if not os.path.exists(patch):
            patch = os.path.join(sd, "patch.diff")
        rc, o = sh(["git", "apply", patch], repo, 60)
        if rc != 0:
            rc, o = sh(["git", "apply", "--3way", patch], repo, 60)
            sh(["git", "reset", "-q"], repo, 60)
        rec = {"seed": name, "check": check}
        if rc != 0:
            rec["result"] = "PATCH-DOES-NOT-APPLY"
        else:
            t0 = time.time()
            rc, o = sh(["./check", check, "quick"], verif, 2400, env)
            rec["secs"] = round(time.time() - t0)
            if re.search(r"^VIOLATION property=" + check, o, re.M):
                rec["result"] = "DETECTED"
                m = re.search(r"signature: *(\S+)", o)
                rec["signature"] = m.group(1) if m else ""
            else:
                rec["result"] = "MISSED rc=%d" % rc
        sh(["git", "checkout", "-q", "--", "."], repo, 60)
        sh(["git", "clean", "-fdq"], repo, 60)
        shutil.rmtree(env["TMPDIR"], ignore_errors=True); os.makedirs(env["TMPDIR"], exist_ok=True)
        out.write(json.dumps(rec) + "\n"); out.flush()
        print(name, check, rec["result"], rec.get("signature", ""), flush=True)


if __name__ == "__main__":
    main()
