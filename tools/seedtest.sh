#!/bin/bash
# tools/seedtest.sh <patch.diff> <ID> [tier]  — apply a seeded change to /repo, run the check, undo.
# Prints DETECTED / MISSED. Never leaves /repo modified.
set -u
PATCH="$1"; ID="$2"; TIER="${3:-quick}"
cd /repo
if [ -n "$(git status --porcelain)" ]; then echo "repo dirty, refusing"; exit 2; fi
if ! git apply --check "$PATCH" 2>/dev/null; then
  if ! git apply --3way "$PATCH" >/dev/null 2>&1; then echo "PATCH-DOES-NOT-APPLY $PATCH"; git checkout -- . ; git reset -q --hard HEAD; exit 3; fi
  git reset -q   # unstage what --3way staged
else
  git apply "$PATCH"
fi
cd /verif
OUT=$(mktemp /tmp/seedtest.XXXXXX)
timeout 3000 ./check "$ID" "$TIER" > "$OUT" 2>&1
rc=$?
git -C /repo checkout -- . ; git -C /repo clean -fdq
if grep -aq "^VIOLATION property=$ID" "$OUT"; then
  echo "DETECTED rc=$rc $(grep -a -m1 "signature:" "$OUT")"
else
  echo "MISSED rc=$rc"; tail -3 "$OUT"
fi
grep -ac "^VIOLATION" "$OUT" | sed 's/^/  violation lines: /'
rm -f "$OUT"
