#!/usr/bin/env python3
"""tools/confirmseed.py <seed-dir> [--src <dir-with-patch-and-demo>]

Confirms a seeded change myself, in a scratch git worktree of /repo's HEAD (outside /repo and /verif):
  1. the demonstration PASSES on the unchanged tree,
  2. the patch applies (patch.rebased.diff preferred when present) and the library builds (go build ./... and
     a test build of every package),
  3. the demonstration FAILS with the patch,
  4. the repository's own suite (tools/baseline.sh, 1516 stable tests, no build tag) still passes with the patch.
Writes the outcome into <seed-dir>/meta.json under "self_confirmed" and prints one line. The worktree and
its build output are removed afterwards. Exit 0 only if all four hold.
"""
import sys, os, re, json, subprocess, shutil, tempfile, time

ENV = dict(os.environ)
tc = "/root/go/pkg/mod/golang.org/toolchain@v0.0.1-go1.25.7.linux-amd64/bin"
if not os.path.isdir(tc):
    tc = "/opt/veriftools/go1.26.8/bin"
ENV["PATH"] = tc + ":" + ENV["PATH"]
ENV.update(GOFLAGS="-mod=mod", GOPROXY="off", GOSUMDB="off", GOTOOLCHAIN="local")


def sh(cmd, cwd, timeout=1500):
    try:
        p = subprocess.run(cmd, cwd=cwd, env=ENV, shell=isinstance(cmd, str), stdout=subprocess.PIPE,
                           stderr=subprocess.STDOUT, timeout=timeout, errors="replace")
        return p.returncode, p.stdout
    except subprocess.TimeoutExpired as e:
        return 124, "TIMEOUT\n" + (e.stdout or b"").decode(errors="replace") if isinstance(e.stdout, bytes) else "TIMEOUT"


def main():
    sd = os.path.abspath(sys.argv[1])
    base = "HEAD"
    if "--base" in sys.argv:
        base = sys.argv[sys.argv.index("--base") + 1]
    demo = os.path.join(sd, "demo_test.go")
    if not os.path.exists(demo):
        print("NO-DEMO", sd); return 2
    src = open(demo, errors="replace").read()
    m = re.search(r"go test[^\n`]*?\s(\.[/\w\.]*)\s*$", src, re.M)
    pkg = None
    for mm in re.finditer(r"go test[^\n`]*", src):
        toks = mm.group(0).split()
        cand = [t for t in toks if t.startswith("./") or t == "."]
        if cand:
            pkg = cand[-1]; break
    if pkg is None:
        mm = re.search(r"package directory\s+(\S+)", src)
        pkg = "./" + mm.group(1).strip("/") if mm else None
    if pkg is None:
        print("NO-PKG", sd); return 2
    pkg = pkg.rstrip("/") or "."
    if pkg == ".":
        mm = re.search(r"cd\s+(\S+)\s*&&\s*go test", src)
        if mm and not mm.group(1).startswith("/"):
            pkg = "./" + mm.group(1).strip("/")
    tests = re.findall(r"^func (Test\w+|Example\w*)\(", src, re.M)
    runpat = "^(" + "|".join(tests) + ")$" if tests else "."
    patch = os.path.join(sd, "patch.rebased.diff")
    if not os.path.exists(patch) or base != "HEAD":
        patch = os.path.join(sd, "patch.diff")
    wt = tempfile.mkdtemp(prefix="confirm-", dir="/tmp")
    os.rmdir(wt)
    # demos in schema/gen/go build into $TMPDIR/test-go-ipld-prime-gengo: keep concurrent runs apart
    ENV["TMPDIR"] = tempfile.mkdtemp(prefix="confirm-tmp-", dir="/tmp")
    res = {"at_repo_commit": subprocess.check_output(["git", "-C", "/repo", "rev-parse", "--short", base], text=True).strip(),
           "patch_used": os.path.basename(patch), "demo_pkg": pkg, "demo_run": runpat}
    ok = False
    try:
        rc, out = sh(["git", "-C", "/repo", "worktree", "add", "--detach", wt, base], "/")
        if rc != 0:
            print("WORKTREE-FAILED", out); return 2
        dst = os.path.join(wt, pkg, "zz_seed_demo_test.go")
        shutil.copy(demo, dst)
        cmd = ["go", "test", "-vet=off", "-count=1", "-run", runpat, pkg]
        rc0, out0 = sh(cmd, wt, 900)
        res["demo_without_patch"] = "pass" if rc0 == 0 else "FAIL rc=%d" % rc0
        os.remove(dst)
        rc, out = sh(["git", "apply", patch], wt)
        if rc != 0:
            rc, out = sh(["git", "apply", "--3way", patch], wt)
            sh(["git", "reset", "-q"], wt)
        res["patch_applies"] = rc == 0
        if rc == 0:
            rcb, outb = sh("go build ./... && go test -vet=off -count=1 -run '^$' ./... >/dev/null", wt, 900)
            res["builds"] = rcb == 0
            shutil.copy(demo, dst)
            rc1, out1 = sh(cmd, wt, 900)
            res["demo_with_patch"] = "fail (as required)" if rc1 != 0 else "PASSES"
            res["demo_with_patch_tail"] = "\n".join(out1.strip().splitlines()[-6:])[-600:]
            os.remove(dst)
            rcs, outs = sh(["/verif/tools/baseline.sh", wt], wt, 2400)
            res["suite_with_patch"] = outs.strip().splitlines()[0] if outs.strip() else "no output"
            res["suite_ok"] = rcs == 0
            if rcs != 0:
                res["suite_failures"] = [l.strip() for l in outs.splitlines() if l.strip().startswith("FAIL")][:8]
            ok = rc0 == 0 and rcb == 0 and rc1 != 0 and rcs == 0
        res["confirmed"] = ok
    finally:
        sh(["git", "-C", "/repo", "worktree", "remove", "--force", wt], "/")
        shutil.rmtree(wt, ignore_errors=True)
        shutil.rmtree(ENV["TMPDIR"], ignore_errors=True)
        sh(["git", "-C", "/repo", "worktree", "prune"], "/")
    mp = os.path.join(sd, "meta.json")
    meta = json.load(open(mp)) if os.path.exists(mp) else {}
    if base != "HEAD":
        res["note"] = "confirmed against the pinned tree the seed was written for: its demonstration depends on behaviour that a later fix commit changed, so on the repaired tree the demonstration fails even without the patch (the check's verdict on the rebased patch is in check_result)"
        meta["self_confirmed_on_pinned_tree"] = res
    else:
        meta["self_confirmed"] = res
    json.dump(meta, open(mp, "w"), indent=1)
    print(("CONFIRMED " if ok else "NOT-CONFIRMED ") + os.path.basename(sd), json.dumps({k: v for k, v in res.items() if k != "demo_with_patch_tail"}))
    return 0 if ok else 1


if __name__ == "__main__":
    sys.exit(main())
