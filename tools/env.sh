# sourced by every script: offline Go toolchain able to build /repo (needs go >= 1.25.7)
if [ -d /root/go/pkg/mod/golang.org/toolchain@v0.0.1-go1.25.7.linux-amd64/bin ]; then
  export PATH=/root/go/pkg/mod/golang.org/toolchain@v0.0.1-go1.25.7.linux-amd64/bin:$PATH
elif [ -d /opt/veriftools/go1.26.8/bin ]; then
  export PATH=/opt/veriftools/go1.26.8/bin:$PATH
fi
export GOFLAGS=-mod=mod GOPROXY=off GOSUMDB=off GOTOOLCHAIN=local
export VERIF_ROOT="${VERIF_ROOT:-/verif}"
export REPO_ROOT="${REPO_ROOT:-/repo}"
