#!/usr/bin/env python3
"""Regenerates the seeds table of DESIGN.md section 7 from seeded/*/meta.json (between the two marker lines)."""
import json, glob, os, re
ROOT = os.path.dirname(os.path.dirname(os.path.abspath(__file__)))
rows = []
def key(d):
    m = re.match(r'.*/(C\d\d)-(\d+)/$', d)
    return (m.group(1), int(m.group(2)))
for d in sorted(glob.glob(ROOT + '/seeded/*/'), key=key):
    m = json.load(open(d + 'meta.json'))
    name = os.path.basename(d.rstrip('/'))
    notes = open(d + 'notes.md').read() if os.path.exists(d + 'notes.md') else ''
    title = notes.strip().split('\n')[0].lstrip('# ').strip()
    title = re.sub(r'^C\d\d\s*/\s*(change|seed)\s*\d\s*[—-]+\s*', '', title)
    title = re.sub(r'^Seed(ed)?\s+(change|defect)\s*\d*\s*[—:-]*\s*', '', title, flags=re.I)
    res, det = str(m.get('check_result')), str(m.get('detected_by'))
    if res.upper().startswith('DETECTED'):
        extra = res[len('DETECTED'):].strip(' ()')
        r = 'caught by ' + det.replace('./check ', '')
        if extra:
            r = '**' + extra + '** — ' + r
    elif res.startswith('NEUTRALISED'):
        r = '**neutralised by a fix**: ' + det
    else:
        r = res + '; ' + det
    r = r.replace('|', '/')
    if len(r) > 380:
        r = r[:377] + '…'
    rows.append('| %s | %s | %s |' % (name, title.replace('|', '/')[:160], r))
table = '| seed | change | result |\n|---|---|---|\n' + '\n'.join(rows) + '\n'
p = ROOT + '/DESIGN.md'
s = open(p).read()
a, b = '<!-- seeds-table-begin -->\n', '<!-- seeds-table-end -->\n'
i, j = s.index(a) + len(a), s.index(b)
s = s[:i] + table + s[j:]
open(p, 'w').write(s)
print("%d seeds" % len(rows))
