#!/bin/bash
# tools/fuzzcampaign.sh <fuzztime> <parallel> <Target...>
# Coverage-guided campaign: Go's fuzzing engine chooses inputs, the monitors are the checks' own (fuzzc/fuzz_test.go).
# Inputs that reached new coverage land in <cwd>/fuzzcache/<Target>/ ; failing inputs in fuzzc/testdata/fuzz/<Target>/.
# Under `vp run --with-repo` the snapshot's go.mod is pointed at the repo snapshot. Exploration aid: what it finds is
# imported with tools/fuzzimport.py and then replayed deterministically by the checks.
cd "$(dirname "$0")/.."
. tools/env.sh
if [ -n "${VP_RUN_REPO:-}" ] && [ "$PWD" != /verif ]; then
  go mod edit -replace github.com/ipld/go-ipld-prime="$VP_RUN_REPO"
fi
T="$1"; P="$2"; shift 2
export VERIF_ROOT="$PWD"
mkdir -p fuzzcache
go test -c -fuzz=Fuzz -o fuzzcache/fuzzc.test ./fuzzc || exit 2
cd fuzzc
for t in "$@"; do
  echo "=== $t fuzztime=$T parallel=$P $(date +%T)"
  ../fuzzcache/fuzzc.test -test.run='^$' -test.fuzz="^$t\$" -test.fuzzcachedir="$PWD/../fuzzcache" -test.fuzztime="$T" -test.parallel="$P" 2>&1 | awk 'NR%20==1 || /FAIL|DEVIATION|panic|Failing|testdata|PASS|ok/' 
  echo "=== $t done: $(ls ../fuzzcache/$t 2>/dev/null | wc -l) corpus files; crashers: $(ls testdata/fuzz/$t 2>/dev/null | wc -l)"
done
