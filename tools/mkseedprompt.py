#!/usr/bin/env python3
"""tools/mkseedprompt.py <ID> <outroot> <wtroot> [focus text] — prints the prompt for a seeding sub-agent:
the property's text only (title, statement, quantifier), a worktree path and an output path. Nothing from /verif's checks."""
import sys, json
pid, outroot, wtroot = sys.argv[1:4]
focus = sys.argv[4] if len(sys.argv) > 4 else ""
prop = None
for l in open('/verif/properties.jsonl'):
    p = json.loads(l)
    if p['id'] == pid: prop = p
text = "%s\n\n%s\n\nQuantified over: %s" % (prop['title'], prop['statement'], prop['quantifier']['text'])
t = open('/verif/tools/seed_prompt_template.txt').read()
t = t.replace('__WT__', '%s/%s' % (wtroot, pid)).replace('__OUT__', '%s/%s' % (outroot, pid)).replace('__ID__', pid).replace('__PROP__', text)
if focus:
    t += "\n\nDIVERSITY NOTE: earlier seeding rounds for this property already produced changes in some of the obvious places. To keep this round different, prefer mechanisms such as: " + focus + ". These are suggestions about where to look in the library, not requirements; any change that satisfies the five conditions is welcome.\n"
print(t)
