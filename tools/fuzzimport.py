#!/usr/bin/env python3
"""tools/fuzzimport.py <fuzzcache-dir> [max-per-target] — copy the corpus a campaign distilled
(<fuzzcache>/<Target>/<hash>, Go corpus file format) into /verif/fuzzc/testdata/fuzz/<Target>/, skipping
duplicates and entries larger than 8 KiB; keeps at most max-per-target (default 4000) per target, smallest first."""
import sys, os, shutil
src = sys.argv[1]; cap = int(sys.argv[2]) if len(sys.argv) > 2 else 4000
dst = '/verif/fuzzc/testdata/fuzz'
for t in sorted(os.listdir(src)):
    d = os.path.join(src, t)
    if not os.path.isdir(d) or not t.startswith('Fuzz'): continue
    os.makedirs(os.path.join(dst, t), exist_ok=True)
    have = set(os.listdir(os.path.join(dst, t)))
    files = sorted((os.path.getsize(os.path.join(d, f)), f) for f in os.listdir(d))
    n = 0
    for size, f in files:
        if len(have) >= cap: break
        if f in have or size > 8192: continue
        shutil.copy(os.path.join(d, f), os.path.join(dst, t, f)); have.add(f); n += 1
    print(t, 'imported', n, 'total', len(have))
