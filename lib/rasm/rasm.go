// Package rasm is a harness-owned recording assembler: it accepts whatever a
// decoder (or any other producer) feeds it, never rejects anything itself
// (repeated keys are kept), and records the value, the maximum nesting depth
// and the size hints it was given. Used as a decode target where the check
// must see what the *decoder* enforces rather than what basicnode enforces.
package rasm

import (
	"fmt"
	"math"

	"github.com/ipld/go-ipld-prime/datamodel"
	"github.com/ipld/go-ipld-prime/node/basicnode"

	"verif/lib/model"
)

type Recorder struct {
	Root     model.Val
	Set      bool
	MaxDepth int
	MaxHint  int64
	SumHint  int64
	Calls    int64
}

type asm struct {
	r     *Recorder
	out   *model.Val
	depth int
	done  func()
}

func New() (*Recorder, datamodel.NodeAssembler) {
	r := &Recorder{}
	return r, &asm{r: r, out: &r.Root, done: func() { r.Set = true }}
}

func (a *asm) fin() {
	a.r.Calls++
	if a.done != nil {
		a.done()
	}
}

func (a *asm) hint(h int64) {
	if h > a.r.MaxHint {
		a.r.MaxHint = h
	}
	if h > 0 {
		a.r.SumHint += h
	}
}

func (a *asm) BeginMap(sizeHint int64) (datamodel.MapAssembler, error) {
	a.hint(sizeHint)
	if a.depth+1 > a.r.MaxDepth {
		a.r.MaxDepth = a.depth + 1
	}
	*a.out = model.Val{K: model.KMap, M: []model.Entry{}}
	return &mapAsm{a: a}, nil
}

func (a *asm) BeginList(sizeHint int64) (datamodel.ListAssembler, error) {
	a.hint(sizeHint)
	if a.depth+1 > a.r.MaxDepth {
		a.r.MaxDepth = a.depth + 1
	}
	*a.out = model.Val{K: model.KList, L: []model.Val{}}
	return &listAsm{a: a}, nil
}

func (a *asm) AssignNull() error           { *a.out = model.Null(); a.fin(); return nil }
func (a *asm) AssignBool(v bool) error     { *a.out = model.Bool(v); a.fin(); return nil }
func (a *asm) AssignInt(v int64) error     { *a.out = model.Int(v); a.fin(); return nil }
func (a *asm) AssignFloat(v float64) error { *a.out = model.Float(v); a.fin(); return nil }
func (a *asm) AssignString(v string) error { *a.out = model.String(v); a.fin(); return nil }
func (a *asm) AssignBytes(v []byte) error {
	*a.out = model.Bytes(append([]byte(nil), v...))
	a.fin()
	return nil
}
func (a *asm) AssignLink(v datamodel.Link) error {
	if v == nil {
		return fmt.Errorf("rasm: nil link")
	}
	*a.out = model.Val{K: model.KLink, S: v.Binary()}
	a.fin()
	return nil
}

func (a *asm) AssignNode(n datamodel.Node) error {
	v, err := FromNode(n)
	if err != nil {
		return err
	}
	*a.out = v
	a.fin()
	return nil
}

func (a *asm) Prototype() datamodel.NodePrototype { return basicnode.Prototype.Any }

type mapAsm struct {
	a      *asm
	keySet bool
}

type keyAsm struct {
	datamodel.NodeAssembler // nil: only the two calls below are legal for keys
	m                       *mapAsm
}

func (k keyAsm) AssignString(s string) error {
	k.m.a.out.M = append(k.m.a.out.M, model.Entry{K: s})
	k.m.keySet = true
	return nil
}
func (k keyAsm) AssignNode(n datamodel.Node) error {
	s, err := n.AsString()
	if err != nil {
		return err
	}
	return k.AssignString(s)
}
func (k keyAsm) Prototype() datamodel.NodePrototype { return basicnode.Prototype.String }

func (m *mapAsm) AssembleKey() datamodel.NodeAssembler { return keyAsm{m: m} }
func (m *mapAsm) AssembleValue() datamodel.NodeAssembler {
	i := len(m.a.out.M) - 1
	// the slice may be re-allocated by later appends: address the entry lazily
	return &asm{r: m.a.r, out: &indirect{m: m, i: i}.val().V, depth: m.a.depth + 1}
}

type indirect struct {
	m *mapAsm
	i int
}

func (x indirect) val() *model.Entry { return &x.m.a.out.M[x.i] }

func (m *mapAsm) AssembleEntry(k string) (datamodel.NodeAssembler, error) {
	m.a.out.M = append(m.a.out.M, model.Entry{K: k})
	hold := &model.Val{}
	i := len(m.a.out.M) - 1
	return &asm{r: m.a.r, out: hold, depth: m.a.depth + 1, done: func() { m.a.out.M[i].V = *hold }}, nil
}
func (m *mapAsm) Finish() error                                 { m.a.fin(); return nil }
func (m *mapAsm) KeyPrototype() datamodel.NodePrototype         { return basicnode.Prototype.String }
func (m *mapAsm) ValuePrototype(string) datamodel.NodePrototype { return basicnode.Prototype.Any }

type listAsm struct{ a *asm }

func (l *listAsm) AssembleValue() datamodel.NodeAssembler {
	l.a.out.L = append(l.a.out.L, model.Val{})
	hold := &model.Val{}
	i := len(l.a.out.L) - 1
	return &asm{r: l.a.r, out: hold, depth: l.a.depth + 1, done: func() { l.a.out.L[i] = *hold }}
}
func (l *listAsm) Finish() error                                { l.a.fin(); return nil }
func (l *listAsm) ValuePrototype(int64) datamodel.NodePrototype { return basicnode.Prototype.Any }

// FromNode converts a finished node into a model value with a light read.
func FromNode(n datamodel.Node) (model.Val, error) {
	switch n.Kind() {
	case datamodel.Kind_Null:
		return model.Null(), nil
	case datamodel.Kind_Bool:
		b, err := n.AsBool()
		return model.Bool(b), err
	case datamodel.Kind_Int:
		if un, ok := n.(datamodel.UintNode); ok {
			u, err := un.AsUint()
			if err == nil && u > math.MaxInt64 {
				return model.Uint(u), nil
			}
		}
		i, err := n.AsInt()
		return model.Int(i), err
	case datamodel.Kind_Float:
		f, err := n.AsFloat()
		return model.Float(f), err
	case datamodel.Kind_String:
		s, err := n.AsString()
		return model.String(s), err
	case datamodel.Kind_Bytes:
		b, err := n.AsBytes()
		return model.Bytes(append([]byte(nil), b...)), err
	case datamodel.Kind_Link:
		l, err := n.AsLink()
		if err != nil {
			return model.Val{}, err
		}
		return model.Val{K: model.KLink, S: l.Binary()}, nil
	case datamodel.Kind_List:
		out := model.Val{K: model.KList, L: []model.Val{}}
		it := n.ListIterator()
		for !it.Done() {
			_, v, err := it.Next()
			if err != nil {
				return out, err
			}
			c, err := FromNode(v)
			if err != nil {
				return out, err
			}
			out.L = append(out.L, c)
		}
		return out, nil
	case datamodel.Kind_Map:
		out := model.Val{K: model.KMap, M: []model.Entry{}}
		it := n.MapIterator()
		for !it.Done() {
			k, v, err := it.Next()
			if err != nil {
				return out, err
			}
			ks, err := k.AsString()
			if err != nil {
				return out, err
			}
			c, err := FromNode(v)
			if err != nil {
				return out, err
			}
			out.M = append(out.M, model.Entry{K: ks, V: c})
		}
		return out, nil
	}
	return model.Val{}, fmt.Errorf("rasm: invalid kind")
}
