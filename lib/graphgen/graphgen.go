// Package graphgen generates finite graphs of blocks connected by links for the
// traversal properties, and serves them through a LinkSystem that records
// every load.
package graphgen

import (
	"bytes"
	"crypto/sha256"
	"fmt"
	"io"

	_ "github.com/ipld/go-ipld-prime/codec/dagcbor"
	_ "github.com/ipld/go-ipld-prime/codec/raw"
	"github.com/ipld/go-ipld-prime/datamodel"
	"github.com/ipld/go-ipld-prime/linking"
	cidlink "github.com/ipld/go-ipld-prime/linking/cid"

	"verif/lib/fw"
	"verif/lib/model"
	refcbor "verif/lib/ref/cbor"
)

type Graph struct {
	Blocks map[string][]byte    // binary CID -> block bytes
	Vals   map[string]model.Val // binary CID -> value the block denotes (dag-cbor: canonical key order)
	Order  []string             // creation order (leaves first)
	Root   model.Val            // the root value (canonical key order); also stored as a block
	RootL  string
	Keys   []string // map keys used anywhere
	MaxLen int      // longest list
}

type Opts struct {
	MaxBlocks int
	MaxDepth  int // per block
	MaxWidth  int
	OddKeys   bool // include keys like "" and "a/b"
	RawBlocks bool
	// NumLookalikes: map keys that are different strings but parse to the same integer as another key of the
	// pool ("01", "+1", "-0", "00" next to "0", "1", "2") — slash-free and non-empty, so usable where paths are
	// compared as strings.
	NumLookalikes bool
	// Missing: probability numerator (of 8) that a generated link points to a block that is not stored.
	Missing int
}

var keyPool = []string{"a", "b", "c", "d", "x", "0", "1", "2", "k"}
var numLookalikes = []string{"01", "+1", "-0", "00", "+0", "001", "02", "1 ", "1.0", "0x1"}
var oddKeys = []string{"", "a/b", "..", ".", "-1", "ü", "00", "+1", "-", "caf\xe9", "\xff\xfe", "k\x80v", "\xef\xbf\xbd", "\x00", "a\x00b", "%2F", "a b", "\u2028", "😀"}

func link(codec uint64, block []byte) string {
	d := sha256.Sum256(block)
	return string(model.MakeCID(1, codec, 0x12, d[:]))
}

// Gen builds a graph bottom-up so that links always point to existing (or deliberately missing) blocks.
func Gen(r *fw.RNG, o Opts) *Graph {
	g := &Graph{Blocks: map[string][]byte{}, Vals: map[string]model.Val{}}
	keyset := map[string]bool{}
	n := 1 + r.Intn(o.MaxBlocks)
	for b := 0; b < n; b++ {
		isRoot := b == n-1
		if o.RawBlocks && !isRoot && r.Chance(1, 6) {
			data := r.Bytes(1 + r.Intn(24))
			l := link(0x55, data)
			g.add(l, data, model.Bytes(data))
			continue
		}
		v := g.genVal(r, o, 0, keyset, isRoot)
		v = model.SortKeys(v, model.CBORKeyLess)
		enc := refcbor.Encode(v)
		l := link(0x71, enc)
		g.add(l, enc, v)
		if isRoot {
			g.Root, g.RootL = v, l
		}
	}
	for k := range keyset {
		g.Keys = append(g.Keys, k)
	}
	// deterministic order
	for i := 1; i < len(g.Keys); i++ {
		for j := i; j > 0 && g.Keys[j] < g.Keys[j-1]; j-- {
			g.Keys[j], g.Keys[j-1] = g.Keys[j-1], g.Keys[j]
		}
	}
	return g
}

func (g *Graph) add(l string, block []byte, v model.Val) {
	if _, ok := g.Blocks[l]; !ok {
		g.Order = append(g.Order, l)
	}
	g.Blocks[l] = block
	g.Vals[l] = v
}

func (g *Graph) genVal(r *fw.RNG, o Opts, depth int, keyset map[string]bool, forceContainer bool) model.Val {
	leaf := func() model.Val {
		// links to earlier blocks (shared and repeated), else scalars
		if len(g.Order) > 0 && r.Chance(3, 8) {
			if o.Missing > 0 && r.Chance(o.Missing, 8) {
				return model.Link([]byte(link(0x71, r.Bytes(8)))) // not stored
			}
			return model.Link([]byte(g.Order[r.Intn(len(g.Order))]))
		}
		switch r.Intn(6) {
		case 0:
			return model.Int(int64(r.Intn(100)))
		case 1:
			return model.String(model.GenString(r, false) + "0123456789"[:r.Intn(10)])
		case 2:
			return model.Bytes(r.Bytes(r.Intn(12)))
		case 3:
			return model.Bool(r.Bool())
		case 4:
			return model.Null()
		default:
			return model.Float(float64(r.Intn(100)) + 0.5)
		}
	}
	if depth >= o.MaxDepth || (!forceContainer && depth > 0 && r.Chance(2, 5)) {
		return leaf()
	}
	w := r.Intn(o.MaxWidth + 1)
	if forceContainer && w == 0 {
		w = 1
	}
	if r.Bool() {
		xs := make([]model.Val, w)
		for i := range xs {
			xs[i] = g.genVal(r, o, depth+1, keyset, false)
		}
		if w > g.MaxLen {
			g.MaxLen = w
		}
		return model.Val{K: model.KList, L: xs}
	}
	seen := map[string]bool{}
	var es []model.Entry
	for i := 0; i < w; i++ {
		k := keyPool[r.Intn(len(keyPool))]
		if o.OddKeys && r.Chance(1, 8) {
			k = oddKeys[r.Intn(len(oddKeys))]
		}
		if o.NumLookalikes && r.Chance(1, 5) {
			k = numLookalikes[r.Intn(len(numLookalikes))]
		}
		if seen[k] {
			continue
		}
		seen[k] = true
		keyset[k] = true
		es = append(es, model.Entry{K: k, V: g.genVal(r, o, depth+1, keyset, false)})
	}
	return model.Val{K: model.KMap, M: es}
}

// Links returns the binary CIDs of all stored blocks.
func (g *Graph) Links() []string { return append([]string(nil), g.Order...) }

// LoadLog records the links requested from storage, in order.
type LoadLog struct {
	Loads []string
	// Skip: links for which the loader answers traversal.SkipMe (set by the caller via OnLoad)
	OnLoad func(l string) error
}

// LinkSystem serves the graph and records loads.
func (g *Graph) LinkSystem() (linking.LinkSystem, *LoadLog) {
	log := &LoadLog{}
	lsys := cidlink.DefaultLinkSystem()
	lsys.StorageReadOpener = func(_ linking.LinkContext, l datamodel.Link) (io.Reader, error) {
		log.Loads = append(log.Loads, l.Binary())
		if log.OnLoad != nil {
			if err := log.OnLoad(l.Binary()); err != nil {
				return nil, err
			}
		}
		b, ok := g.Blocks[l.Binary()]
		if !ok {
			return nil, fmt.Errorf("block not found")
		}
		return bytes.NewReader(b), nil
	}
	return lsys, log
}
