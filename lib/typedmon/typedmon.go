// Package typedmon holds the monitors for typed-node engines (bindnode,
// generated code): the view/representation relation (C08), conformance of
// arbitrary inputs (C09) and lock-step comparison of two engines (C13). It is
// imported by the runner and by the generated-code driver that C13 compiles.
package typedmon

import (
	"bytes"
	"errors"
	"fmt"
	"runtime/debug"
	"strings"
	"unicode/utf8"
	refcbor "verif/lib/ref/cbor"
	"verif/lib/schemagen"

	"github.com/ipld/go-ipld-prime/codec/dagcbor"
	"github.com/ipld/go-ipld-prime/codec/dagjson"
	"github.com/ipld/go-ipld-prime/datamodel"
	"github.com/ipld/go-ipld-prime/node/basicnode"
	"github.com/ipld/go-ipld-prime/schema"

	"verif/lib/fnode"
	"verif/lib/fw"
	"verif/lib/model"
	"verif/lib/obs"
	rs "verif/lib/ref/schema"
)

// Reporter receives what the monitors observe (fw.Ctx implements it).
type Reporter interface {
	Deviate(sig, detail string)
	Count(name string, n int64)
}

// Engine yields prototypes by type name.
type Engine interface {
	Name() string
	// Proto returns the type-level prototype for the named type (nil if the engine cannot bind it).
	Proto(typeName string) (typed datamodel.NodePrototype, repr datamodel.NodePrototype)
}

// Outcome of feeding a tree to a builder.
type Outcome struct {
	Accepted bool
	Err      error
	Panic    string
	Node     datamodel.Node
}

// Feed assembles v into a fresh builder of proto by direct assembler calls
// (so that repeated keys can be expressed); fieldOrder permutes map entries
// of the top-level value when non-nil.
// FeedTyped is Feed for type-level input of type t: keys of maps whose key type is not a
// plain string are assembled as typed values through AssembleKey (the key string is the
// key's representation).
func FeedTyped(proto datamodel.NodePrototype, ts *rs.TypeSystem, t *rs.Type, v model.Val) (out Outcome) {
	defer func() {
		if r := recover(); r != nil {
			st := string(debug.Stack())
			if len(st) > 2500 {
				st = st[:2500]
			}
			out = Outcome{Panic: fmt.Sprintf("%v\n%s", r, st)}
		}
	}()
	nb := proto.NewBuilder()
	if err := assembleTyped(nb, ts, t, v); err != nil {
		return Outcome{Err: err}
	}
	return Outcome{Accepted: true, Node: nb.Build()}
}

// HasComplexKeys reports typed maps with non-string key types anywhere below t.
func HasComplexKeys(ts *rs.TypeSystem, t *rs.Type) bool {
	return hasComplexKeys(ts, t, map[string]bool{}, false)
}

// HasStructKeys reports typed maps whose key type is a struct anywhere below t: a type-level input for those
// cannot be written as a plain tree (the key is a map there). Enum keys can: they are the member names.
func HasStructKeys(ts *rs.TypeSystem, t *rs.Type) bool {
	return hasComplexKeys(ts, t, map[string]bool{}, true)
}

func hasComplexKeys(ts *rs.TypeSystem, t *rs.Type, seen map[string]bool, structOnly bool) bool {
	if t == nil || seen[t.Name] {
		return false
	}
	seen[t.Name] = true
	switch t.Kind {
	case "map":
		if k := ts.T(t.KeyType).Kind; k != "string" && !(structOnly && k == "enum") {
			return true
		}
		return hasComplexKeys(ts, ts.T(t.ValueType), seen, structOnly)
	case "list":
		return hasComplexKeys(ts, ts.T(t.ValueType), seen, structOnly)
	case "struct":
		for _, f := range t.Fields {
			if hasComplexKeys(ts, ts.T(f.Type), seen, structOnly) {
				return true
			}
		}
	case "union":
		for _, m := range t.Members {
			if hasComplexKeys(ts, ts.T(m), seen, structOnly) {
				return true
			}
		}
	}
	return false
}

// AssembleTyped assembles type-level input v of type t into na (keys of non-string key types as typed values).
func AssembleTyped(na datamodel.NodeAssembler, ts *rs.TypeSystem, t *rs.Type, v model.Val) error {
	return assembleTyped(na, ts, t, v)
}

func assembleTyped(na datamodel.NodeAssembler, ts *rs.TypeSystem, t *rs.Type, v model.Val) error {
	return assembleTypedR(na, ts, t, v, nil)
}

// AssembleTypedVia is AssembleTyped with a third of the composite children first built on the position's own
// prototype (va.Prototype().NewBuilder()) and then handed over with AssignNode — the "assign an existing node
// of the same implementation" way of making the calls, which typed assemblers serve through shortcuts.
func AssembleTypedVia(na datamodel.NodeAssembler, ts *rs.TypeSystem, t *rs.Type, v model.Val, r *fw.RNG) error {
	return assembleTypedR(na, ts, t, v, r)
}

func assembleTypedR(na datamodel.NodeAssembler, ts *rs.TypeSystem, t *rs.Type, v model.Val, r *fw.RNG) error {
	child := func(va datamodel.NodeAssembler, ft *rs.Type, x model.Val) error {
		if r != nil && (x.K == model.KMap || x.K == model.KList) && r.Chance(1, 3) {
			var p datamodel.NodePrototype
			if ft != nil && ft.Kind == "any" {
				// an Any position takes a node of any implementation; its own prototype is the bindnode
				// binding of a bare Any, which is C01's known finding (builds a node of invalid kind)
				p = basicnode.Prototype.Any
			} else {
				func() {
					defer func() { recover() }() // some assemblers have no Prototype yet ("TODO")
					p = va.Prototype()
				}()
			}
			if p != nil {
				nb := p.NewBuilder()
				if err := assembleTypedR(nb, ts, ft, x, r); err != nil {
					return err
				}
				return va.AssignNode(nb.Build())
			}
		}
		return assembleTypedR(va, ts, ft, x, r)
	}
	if v.K == model.KNull || t == nil {
		return assemble(na, v)
	}
	switch {
	case t.Kind == "map" && v.K == model.KMap:
		kt := ts.T(t.KeyType)
		ma, err := na.BeginMap(int64(len(v.M)))
		if err != nil {
			return err
		}
		for _, e := range v.M {
			if kt.Kind == "string" || kt.Kind == "enum" {
				if err := ma.AssembleKey().AssignString(e.K); err != nil {
					return err
				}
			} else {
				kv, perr := ts.ParseRepr(kt, model.String(e.K))
				if perr != nil {
					return fmt.Errorf("harness: key %q is not a %s: %v", e.K, kt.Name, perr)
				}
				if err := assembleTypedR(ma.AssembleKey(), ts, kt, ts.TypeInput(kt, kv), r); err != nil {
					return err
				}
			}
			if err := child(ma.AssembleValue(), ts.T(t.ValueType), e.V); err != nil {
				return err
			}
		}
		return ma.Finish()
	case t.Kind == "list" && v.K == model.KList:
		la, err := na.BeginList(int64(len(v.L)))
		if err != nil {
			return err
		}
		for _, x := range v.L {
			if err := child(la.AssembleValue(), ts.T(t.ValueType), x); err != nil {
				return err
			}
		}
		return la.Finish()
	case t.Kind == "struct" && v.K == model.KMap:
		ma, err := na.BeginMap(int64(len(v.M)))
		if err != nil {
			return err
		}
		for _, e := range v.M {
			var ft *rs.Type
			for _, f := range t.Fields {
				if f.Name == e.K {
					ft = ts.T(f.Type)
				}
			}
			va, err := ma.AssembleEntry(e.K)
			if err != nil {
				return err
			}
			if err := child(va, ft, e.V); err != nil {
				return err
			}
		}
		return ma.Finish()
	case t.Kind == "union" && v.K == model.KMap && len(v.M) == 1:
		ma, err := na.BeginMap(1)
		if err != nil {
			return err
		}
		va, err := ma.AssembleEntry(v.M[0].K)
		if err != nil {
			return err
		}
		if err := child(va, ts.T(v.M[0].K), v.M[0].V); err != nil {
			return err
		}
		return ma.Finish()
	}
	return assemble(na, v)
}

func Feed(proto datamodel.NodePrototype, v model.Val) (out Outcome) {
	defer func() {
		if r := recover(); r != nil {
			st := string(debug.Stack())
			if len(st) > 2500 {
				st = st[:2500]
			}
			out = Outcome{Panic: fmt.Sprintf("%v\n%s", r, st)}
		}
	}()
	nb := proto.NewBuilder()
	if err := assemble(nb, v); err != nil {
		return Outcome{Err: err}
	}
	return Outcome{Accepted: true, Node: nb.Build()}
}

func assemble(na datamodel.NodeAssembler, v model.Val) error {
	switch v.K {
	case model.KNull:
		return na.AssignNull()
	case model.KBool:
		return na.AssignBool(v.B)
	case model.KInt:
		return na.AssignInt(v.I)
	case model.KUint:
		return na.AssignNode(basicnode.NewUint(v.U))
	case model.KFloat:
		return na.AssignFloat(v.F)
	case model.KString:
		return na.AssignString(v.S)
	case model.KBytes:
		return na.AssignBytes([]byte(v.S))
	case model.KLink:
		return na.AssignLink(fnode.LinkOf(v.S))
	case model.KList:
		la, err := na.BeginList(int64(len(v.L)))
		if err != nil {
			return err
		}
		for _, x := range v.L {
			if err := assemble(la.AssembleValue(), x); err != nil {
				return err
			}
		}
		return la.Finish()
	case model.KMap:
		ma, err := na.BeginMap(int64(len(v.M)))
		if err != nil {
			return err
		}
		for i, e := range v.M {
			var va datamodel.NodeAssembler
			if i%2 == 0 {
				va, err = ma.AssembleEntry(e.K)
				if err != nil {
					return err
				}
			} else {
				if err := ma.AssembleKey().AssignString(e.K); err != nil {
					return err
				}
				va = ma.AssembleValue()
			}
			if err := assemble(va, e.V); err != nil {
				return err
			}
		}
		return ma.Finish()
	}
	return fmt.Errorf("typedmon: cannot assemble %v", v.K)
}

func repr(n datamodel.Node) datamodel.Node {
	if tn, ok := n.(schema.TypedNode); ok {
		return tn.Representation()
	}
	return n
}

func readTyped(n datamodel.Node) obs.Result {
	return obs.ReadOut(n, obs.Options{Typed: true, NoWrongKindProbes: true})
}

func hasFloat(v model.Val) bool {
	f := false
	v.Walk(func(x model.Val) {
		if x.K == model.KFloat {
			f = true
		}
	})
	return f
}

// CheckViews is the C08 monitor for one (engine, type, typed value).
func CheckViews(rep Reporter, eng Engine, ts *rs.TypeSystem, t *rs.Type, tv model.Val, rng *fw.RNG) {
	typed, reprP := eng.Proto(t.Name)
	if typed == nil {
		rep.Count("engine_cannot_bind:"+eng.Name(), 1)
		return
	}
	want, err := ts.ReprOf(t, tv)
	if err != nil {
		rep.Count("value_without_representation", 1)
		return
	}
	ctx := func() string {
		return fmt.Sprintf("engine %s, type %s, value %s", eng.Name(), t.Name, clip(tv.Dump(), 500))
	}
	check := func(how string, o Outcome) datamodel.Node {
		sig := eng.Name() + ":" + t.Kind + reprName(t)
		if o.Panic != "" {
			rep.Deviate("C08:panic:"+how+":"+sig, fmt.Sprintf("%s panicked: %s\n%s", how, o.Panic, ctx()))
			return nil
		}
		if !o.Accepted {
			rep.Deviate("C08:value-rejected:"+how+":"+sig, fmt.Sprintf("%s rejected an inhabitant of the type: %v\n%s", how, o.Err, ctx()))
			return nil
		}
		var tr, rr obs.Result
		func() {
			defer func() {
				if r := recover(); r != nil {
					rep.Deviate("C08:panic:read:"+sig, fmt.Sprintf("reading the node built by %s panicked: %v\n%s", how, r, ctx()))
				}
			}()
			tr = readTyped(o.Node)
			rr = readTyped(repr(o.Node))
		}()
		rep.Count("view_readouts", 2)
		if !model.Equal(tr.Val, tv) {
			rep.Deviate("C08:type-view-differs:"+how+":"+sig, fmt.Sprintf("after %s the type-level view reads %s\nexpected %s\n%s", how, clip(tr.Val.Dump(), 500), clip(tv.Dump(), 500), ctx()))
		} else if len(tr.Issues) > 0 {
			rep.Deviate("C08:type-view-inconsistent:"+tr.Issues[0].Sig+":"+sig, fmt.Sprintf("after %s: %s\n%s", how, tr.FirstIssue(), ctx()))
		}
		if !model.Equal(rr.Val, want) {
			rep.Deviate("C08:representation-differs:"+how+":"+sig, fmt.Sprintf("after %s the representation reads %s\nthe strategy gives %s\n%s", how, clip(rr.Val.Dump(), 500), clip(want.Dump(), 500), ctx()))
		} else if len(rr.Issues) > 0 {
			rep.Deviate("C08:representation-inconsistent:"+rr.Issues[0].Sig+":"+sig, fmt.Sprintf("after %s: %s\n%s", how, rr.FirstIssue(), ctx()))
		}
		return o.Node
	}
	// (1) type-level builder; struct fields in a random order
	in := ts.TypeInput(t, tv)
	if t.Kind == "struct" && rng != nil && len(in.M) > 1 && rng.Bool() {
		p := rng.Perm(len(in.M))
		es := make([]model.Entry, len(in.M))
		for i, j := range p {
			es[i] = in.M[j]
		}
		in = model.Val{K: model.KMap, M: es}
	}
	var n1 datamodel.Node
	if hasComplexKeys(ts, t, map[string]bool{}, false) {
		n1 = check("the type-level builder", FeedTyped(typed, ts, t, in))
	} else {
		n1 = check("the type-level builder", Feed(typed, in))
	}
	rep.Count("built_type_level", 1)
	// (2) representation builder
	var n2 datamodel.Node
	if reprP != nil {
		n2 = check("the representation builder", Feed(reprP, want))
		rep.Count("built_repr_level", 1)
	}
	// (3) codecs through the representation
	src := n1
	if src == nil {
		src = n2
	}
	if src == nil || reprP == nil {
		return
	}
	type codec struct {
		name string
		enc  func(datamodel.Node, *bytes.Buffer) error
		dec  func(datamodel.NodeAssembler, []byte) error
		less func(a, b string) bool
	}
	codecs := []codec{{"dag-cbor", func(n datamodel.Node, b *bytes.Buffer) error { return dagcbor.Encode(n, b) },
		func(na datamodel.NodeAssembler, b []byte) error { return dagcbor.Decode(na, bytes.NewReader(b)) }, model.CBORKeyLess}}
	if !hasFloat(want) {
		codecs = append(codecs, codec{"dag-json", func(n datamodel.Node, b *bytes.Buffer) error { return dagjson.Encode(n, b) },
			func(na datamodel.NodeAssembler, b []byte) error { return dagjson.Decode(na, bytes.NewReader(b)) }, model.BytewiseLess})
	}
	for _, cd := range codecs {
		func() {
			defer func() {
				if r := recover(); r != nil {
					rep.Deviate("C08:panic:codec:"+cd.name+":"+eng.Name(), fmt.Sprintf("%s round trip panicked: %v\n%s", cd.name, r, ctx()))
				}
			}()
			var b1 bytes.Buffer
			if err := cd.enc(repr(src), &b1); err != nil {
				rep.Deviate("C08:representation-unencodable:"+cd.name+":"+eng.Name(), fmt.Sprintf("%s Encode of the representation failed: %v\n%s", cd.name, err, ctx()))
				return
			}
			nb := reprP.NewBuilder()
			if err := cd.dec(nb, b1.Bytes()); err != nil {
				rep.Deviate("C08:own-encoding-rejected:"+cd.name+":"+eng.Name()+":"+t.Kind+reprName(t), fmt.Sprintf("%s Decode through the representation builder rejected the engine's own encoding: %v\nbytes %x\n%s", cd.name, err, clipB(b1.Bytes()), ctx()))
				return
			}
			back := nb.Build()
			var b2 bytes.Buffer
			if err := cd.enc(repr(back), &b2); err != nil || !bytes.Equal(b1.Bytes(), b2.Bytes()) {
				rep.Deviate("C08:reencoding-differs:"+cd.name+":"+eng.Name(), fmt.Sprintf("%s re-encode after decode differs (err=%v):\n first  %x\n second %x\n%s", cd.name, err, clipB(b1.Bytes()), clipB(b2.Bytes()), ctx()))
				return
			}
			rep.Count("codec_roundtrips", 1)
			got := readTyped(back).Val
			wantTV := ts.SortCodecMaps(t, tv, cd.less)
			if !model.Equal(got, wantTV) {
				rep.Deviate("C08:typed-value-after-codec-differs:"+cd.name+":"+eng.Name(), fmt.Sprintf("after %s round trip the typed value reads %s\nexpected %s\n%s", cd.name, clip(got.Dump(), 500), clip(wantTV.Dump(), 500), ctx()))
			}
		}()
	}
}

func reprName(t *rs.Type) string {
	switch t.Kind {
	case "struct":
		return "-" + t.StructRepr
	case "union":
		return "-" + t.UnionRepr
	case "enum":
		return "-" + t.EnumRepr
	}
	return ""
}

// CheckConformance is the C09 monitor: feed an arbitrary tree at the given level; accept/reject must equal the reference.
func CheckConformance(rep Reporter, eng Engine, ts *rs.TypeSystem, t *rs.Type, in model.Val, reprLevel bool, mutation string) (accepted, refAccepts bool) {
	typed, reprP := eng.Proto(t.Name)
	proto := typed
	level := "type-level"
	if reprLevel {
		proto, level = reprP, "representation-level"
	}
	if proto == nil {
		return false, false
	}
	var wantTV model.Val
	var werr error
	if reprLevel {
		wantTV, werr = ts.ParseRepr(t, in)
	} else {
		wantTV, werr = ts.ParseType(t, in)
	}
	refAccepts = werr == nil
	o := Feed(proto, in)
	sig := eng.Name() + ":" + level + ":" + t.Kind + reprName(t)
	ctx := func() string {
		return fmt.Sprintf("engine %s, %s builder of %s, mutation %q, input %s", eng.Name(), level, t.Name, mutation, clip(in.Dump(), 600))
	}
	rep.Count("conformance_feeds", 1)
	if o.Panic != "" {
		rep.Deviate("C09:panic:"+sig, fmt.Sprintf("the builder panicked instead of returning an error: %s\n%s", o.Panic, ctx()))
		return false, refAccepts
	}
	if o.Accepted && werr != nil {
		got := ""
		func() {
			defer func() { recover() }()
			got = clip(readTyped(o.Node).Val.Dump(), 300)
		}()
		rep.Deviate("C09:accepts-nonconforming:"+sig+":"+reasonClass(werr), fmt.Sprintf("accepted a tree that does not conform: %v\nbuilt node reads %s\n%s", werr, got, ctx()))
		return true, false
	}
	if !o.Accepted && werr == nil {
		rep.Deviate("C09:rejects-conforming:"+sig, fmt.Sprintf("rejected a conforming tree: %v\n%s", o.Err, ctx()))
		return false, true
	}
	if o.Accepted {
		rep.Count("conformance_accepted", 1)
		var got model.Val
		func() {
			defer func() {
				if r := recover(); r != nil {
					rep.Deviate("C09:panic:read:"+sig, fmt.Sprintf("reading the accepted node panicked: %v\n%s", r, ctx()))
				}
			}()
			got = readTyped(o.Node).Val
		}()
		if !model.Equal(got, wantTV) {
			rep.Deviate("C09:accepted-value-differs:"+sig, fmt.Sprintf("the accepted input reads back as %s\nthe input denotes %s\n%s", clip(got.Dump(), 400), clip(wantTV.Dump(), 400), ctx()))
		}
	} else {
		rep.Count("conformance_rejected", 1)
	}
	// Second route for the same input: the whole tree held by another implementation and handed to the top-level
	// builder with ONE AssignNode (the library's generic copy, or the engine's own AssignNode, then walks it). What
	// a builder accepts must not depend on the way the data arrives; an element the position cannot hold has to
	// surface as the error of that call. (Written after reading a surviving mutant: datamodel.Copy returning nil
	// when a list element's AssignNode failed.) Type-level trees with struct-keyed maps are not expressible as a
	// plain foreign tree and are left to the first route.
	// A tree whose only fault is a repeated key inside an Any position is left out as well: held by a foreign
	// node it is not a data-model map at all, and an Any position keeps the node it is given (my first version
	// flagged that; the builder is right).
	if o.Accepted == refAccepts && (in.K == model.KList || in.K == model.KMap) && (reprLevel || !hasComplexKeys(ts, t, map[string]bool{}, true)) &&
		!(werr != nil && reasonClass(werr) == "repeated_map_key_inside_Any") {
		var o2 Outcome
		func() {
			defer func() {
				if r := recover(); r != nil {
					o2 = Outcome{Panic: fmt.Sprintf("%v\n%s", r, clip(string(debug.Stack()), 2000))}
				}
			}()
			nb := proto.NewBuilder()
			if err := nb.AssignNode(fnode.New(in)); err != nil {
				o2 = Outcome{Err: err}
				return
			}
			o2 = Outcome{Accepted: true, Node: nb.Build()}
		}()
		rep.Count("conformance_feeds_whole_node", 1)
		switch {
		case o2.Panic != "":
			rep.Deviate("C09:assignnode:panic:"+sig, fmt.Sprintf("AssignNode of the whole tree panicked instead of returning an error: %s\n%s", o2.Panic, ctx()))
		case o2.Accepted && werr != nil:
			got := ""
			func() {
				defer func() { recover() }()
				got = clip(readTyped(o2.Node).Val.Dump(), 300)
			}()
			rep.Deviate("C09:assignnode:accepts-nonconforming:"+sig+":"+reasonClass(werr), fmt.Sprintf("AssignNode of the whole tree accepted what the call-by-call feed refuses: %v\nbuilt node reads %s\n%s", werr, got, ctx()))
		case !o2.Accepted && werr == nil:
			rep.Deviate("C09:assignnode:rejects-conforming:"+sig, fmt.Sprintf("AssignNode of the whole tree rejected a conforming tree: %v\n%s", o2.Err, ctx()))
		case o2.Accepted:
			var got model.Val
			func() {
				defer func() {
					if r := recover(); r != nil {
						rep.Deviate("C09:assignnode:panic:read:"+sig, fmt.Sprintf("reading the node built by AssignNode panicked: %v\n%s", r, ctx()))
					}
				}()
				got = readTyped(o2.Node).Val
			}()
			if !model.Equal(got, wantTV) {
				rep.Deviate("C09:assignnode:accepted-value-differs:"+sig, fmt.Sprintf("the tree handed over with AssignNode reads back as %s\nthe input denotes %s\n%s", clip(got.Dump(), 400), clip(wantTV.Dump(), 400), ctx()))
			}
		}
	}
	return o.Accepted, refAccepts
}

func reasonClass(err error) string {
	s := err.Error()
	// keep the innermost reason, without quoted parts and names
	if i := strings.LastIndex(s, ": "); i >= 0 {
		s = s[i+2:]
	}
	for {
		a := strings.IndexByte(s, '"')
		if a < 0 {
			break
		}
		b := strings.IndexByte(s[a+1:], '"')
		if b < 0 {
			s = s[:a]
			break
		}
		s = s[:a] + s[a+b+2:]
	}
	s = strings.NewReplacer("T0", "", "T1", "", "T2", "", "T3", "", "T4", "", "T5", "", "T6", "", "T7", "", "T8", "", "T9", "").Replace(s)
	var b strings.Builder
	for _, r := range s {
		if r >= 'a' && r <= 'z' || r >= 'A' && r <= 'Z' {
			b.WriteRune(r)
		} else if r == ' ' {
			b.WriteByte('_')
		}
		if b.Len() > 40 {
			break
		}
	}
	return strings.Trim(b.String(), "_")
}

func clip(s string, n int) string {
	if len(s) > n {
		return s[:n] + "…"
	}
	return s
}

func clipB(b []byte) []byte {
	if len(b) > 200 {
		return b[:200]
	}
	return b
}

var _ = errors.New

// Mutation is one local change of a tree.
type Mutation struct {
	Name string
	Val  model.Val
}

// Mutate applies one random local mutation somewhere in v.
func Mutate(r *fw.RNG, v model.Val) Mutation {
	// collect positions (paths) of all nodes
	var paths [][]int
	var rec func(x model.Val, p []int)
	rec = func(x model.Val, p []int) {
		paths = append(paths, append([]int(nil), p...))
		switch x.K {
		case model.KList:
			for i, c := range x.L {
				rec(c, append(p, i))
			}
		case model.KMap:
			for i, e := range x.M {
				rec(e.V, append(p, i))
			}
		}
	}
	rec(v, nil)
	path := paths[r.Intn(len(paths))]
	name := ""
	var apply func(x model.Val, p []int) model.Val
	mutateHere := func(x model.Val) model.Val {
		scalars := []model.Val{model.Int(999), model.String("zz"), model.Bool(true), model.Float(1.5), model.Bytes([]byte{1}), model.Null(), model.List(), model.Map(), model.Int(-1), model.String("")}
		switch x.K {
		case model.KMap:
			es := append([]model.Entry(nil), x.M...)
			switch r.Intn(9) {
			case 0:
				if len(es) > 0 {
					i := r.Intn(len(es))
					name = fmt.Sprintf("drop entry %q", es[i].K)
					return model.Val{K: model.KMap, M: append(es[:i:i], es[i+1:]...)}
				}
			case 1:
				if len(es) > 0 {
					i := r.Intn(len(es))
					name = fmt.Sprintf("duplicate entry %q", es[i].K)
					return model.Val{K: model.KMap, M: append(es, es[i])}
				}
			case 2:
				if len(es) > 0 {
					i := r.Intn(len(es))
					name = fmt.Sprintf("rename key %q", es[i].K)
					es[i].K = es[i].K + "x"
					return model.Val{K: model.KMap, M: es}
				}
			case 3:
				if len(es) > 1 {
					i, j := r.Intn(len(es)), r.Intn(len(es))
					name = fmt.Sprintf("key %q renamed to its sibling %q", es[i].K, es[j].K)
					es[i].K = es[j].K
					return model.Val{K: model.KMap, M: es}
				}
			case 4:
				name = "add unknown entry"
				return model.Val{K: model.KMap, M: append(es, model.E("zz-unknown", scalars[r.Intn(len(scalars))]))}
			case 5:
				if len(es) > 1 {
					name = "reverse entries"
					for a, b := 0, len(es)-1; a < b; a, b = a+1, b-1 {
						es[a], es[b] = es[b], es[a]
					}
					return model.Val{K: model.KMap, M: es}
				}
			case 6:
				if len(es) > 0 {
					i := r.Intn(len(es))
					name = fmt.Sprintf("null the value of %q", es[i].K)
					es[i].V = model.Null()
					return model.Val{K: model.KMap, M: es}
				}
			case 7:
				if len(es) > 0 {
					i := r.Intn(len(es))
					name = fmt.Sprintf("serial/original name swap attempt on %q", es[i].K)
					if strings.HasPrefix(es[i].K, "r_") {
						es[i].K = strings.TrimPrefix(es[i].K, "r_")
					} else {
						es[i].K = "r_" + es[i].K
					}
					return model.Val{K: model.KMap, M: es}
				}
			}
			name = "replace map by scalar"
			return scalars[r.Intn(len(scalars))]
		case model.KList:
			xs := append([]model.Val(nil), x.L...)
			switch r.Intn(6) {
			case 0:
				if len(xs) > 0 {
					i := r.Intn(len(xs))
					name = fmt.Sprintf("drop element %d", i)
					return model.Val{K: model.KList, L: append(xs[:i:i], xs[i+1:]...)}
				}
			case 1:
				name = "append extra element"
				return model.Val{K: model.KList, L: append(xs, scalars[r.Intn(len(scalars))])}
			case 2:
				if len(xs) > 0 {
					i := r.Intn(len(xs))
					name = fmt.Sprintf("duplicate element %d", i)
					return model.Val{K: model.KList, L: append(xs, xs[i])}
				}
			case 3:
				if len(xs) > 1 {
					name = "reverse elements"
					for a, b := 0, len(xs)-1; a < b; a, b = a+1, b-1 {
						xs[a], xs[b] = xs[b], xs[a]
					}
					return model.Val{K: model.KList, L: xs}
				}
			case 4:
				if len(xs) > 0 {
					i := r.Intn(len(xs))
					name = fmt.Sprintf("null element %d", i)
					xs[i] = model.Null()
					return model.Val{K: model.KList, L: xs}
				}
			}
			name = "replace list by scalar"
			return scalars[r.Intn(len(scalars))]
		case model.KString:
			// an enum member written by its other name: the member name where the representation string
			// belongs and vice versa (schemagen's enums: Alpha↔"a", Beta↔"b")
			if other, ok := map[string]string{"a": "Alpha", "b": "Beta", "Alpha": "a", "Beta": "b", "Gamma": "Beta"}[x.S]; ok && r.Bool() {
				name = "enum member by its other name"
				return model.String(other)
			}
			switch r.Intn(7) {
			case 5:
				// characters slipped in right behind a leading word (a union discriminant, an enum name) and in
				// front of the first delimiter: "s:v" -> "sx:v" (round-3 seed C09-8: a stringprefix union that
				// matches its discriminant by prefix)
				if len(x.S) > 0 {
					i := strings.IndexAny(x.S, ":,/-")
					if i <= 0 || r.Chance(1, 4) {
						i = 1 + r.Intn(len(x.S))
					}
					for i < len(x.S) && !utf8.RuneStart(x.S[i]) { // never split a character: the codecs carry text
						i++
					}
					name = "characters inserted inside the string"
					return model.String(x.S[:i] + []string{"x", "1", "ity", " ", "s"}[r.Intn(5)] + x.S[i:])
				}
			case 6:
				if len(x.S) > 1 {
					name = "string without its first character"
					_, n := utf8.DecodeRuneInString(x.S)
					return model.String(x.S[n:])
				}
			case 0:
				name = "string with extra delimiter part"
				return model.String(x.S + []string{":", ",", "--", "/"}[r.Intn(4)] + "q")
			case 1:
				name = "string suffix (unknown enum member / prefix)"
				return model.String(x.S + "Z")
			case 2:
				name = "empty string"
				return model.String("")
			case 3:
				name = "string without its first part"
				if i := strings.IndexAny(x.S, ":,/-"); i >= 0 {
					return model.String(x.S[i+1:])
				}
			}
		case model.KInt:
			if r.Bool() {
				name = "integer out of enum range"
				// far out, and near enough to fit any Go integer kind that holds the enum
				return model.Int([]int64{x.I + 1000, x.I + 3, x.I + 7, -1 - x.I, 100, 120}[r.Intn(6)])
			}
		}
		for {
			s := scalars[r.Intn(len(scalars))]
			if s.K != x.K {
				name = fmt.Sprintf("retype %v as %v", x.K, s.K)
				return s
			}
		}
	}
	apply = func(x model.Val, p []int) model.Val {
		if len(p) == 0 {
			return mutateHere(x)
		}
		switch x.K {
		case model.KList:
			xs := append([]model.Val(nil), x.L...)
			xs[p[0]] = apply(xs[p[0]], p[1:])
			return model.Val{K: model.KList, L: xs}
		case model.KMap:
			es := append([]model.Entry(nil), x.M...)
			es[p[0]].V = apply(es[p[0]].V, p[1:])
			return model.Val{K: model.KMap, M: es}
		}
		return x
	}
	out := apply(v, path)
	return Mutation{Name: fmt.Sprintf("%s at %v", name, path), Val: out}
}

// FeedViaCodec encodes the tree (duplicates and all) and decodes it into a builder of proto.
func FeedViaCodec(proto datamodel.NodePrototype, v model.Val, codec string) (out Outcome, fed model.Val, ok bool) {
	var buf bytes.Buffer
	src := fnode.New(v)
	switch codec {
	case "dag-cbor":
		if err := dagcbor.Encode(src, &buf); err != nil {
			return Outcome{}, v, false
		}
		fed = model.SortKeys(v, model.CBORKeyLess)
	default:
		if err := dagjson.Encode(src, &buf); err != nil {
			return Outcome{}, v, false
		}
		fed = model.SortKeys(v, model.BytewiseLess)
	}
	defer func() {
		if r := recover(); r != nil {
			st := string(debug.Stack())
			if len(st) > 2500 {
				st = st[:2500]
			}
			out, ok = Outcome{Panic: fmt.Sprintf("%v\n%s", r, st)}, true
		}
	}()
	nb := proto.NewBuilder()
	var err error
	if codec == "dag-cbor" {
		err = dagcbor.DecodeOptions{AllowLinks: true, RelaxedDecode: true}.Decode(nb, bytes.NewReader(buf.Bytes()))
	} else {
		err = dagjson.Decode(nb, bytes.NewReader(buf.Bytes()))
	}
	if err != nil {
		return Outcome{Err: err}, fed, true
	}
	return Outcome{Accepted: true, Node: nb.Build()}, fed, true
}

// CheckConformanceViaCodec feeds the tree through a codec into the representation builder.
func CheckConformanceViaCodec(rep Reporter, eng Engine, ts *rs.TypeSystem, t *rs.Type, in model.Val, codec, mutation string) {
	_, reprP := eng.Proto(t.Name)
	if reprP == nil {
		return
	}
	hasReserved := false
	in.Walk(func(x model.Val) {
		if model.IsJSONReserved(x) {
			hasReserved = true
		}
	})
	if codec == "dag-json" && hasReserved {
		return
	}
	o, fed, ok := FeedViaCodec(reprP, in, codec)
	if !ok {
		return
	}
	wantTV, werr := ts.ParseRepr(t, fed)
	sig := eng.Name() + ":" + codec + ":" + t.Kind + reprName(t)
	ctx := func() string {
		return fmt.Sprintf("engine %s, %s into the representation builder of %s, mutation %q, input %s", eng.Name(), codec, t.Name, mutation, clip(fed.Dump(), 600))
	}
	rep.Count("conformance_feeds", 1)
	switch {
	case o.Panic != "":
		rep.Deviate("C09:panic:"+sig, fmt.Sprintf("decoding panicked instead of returning an error: %s\n%s", o.Panic, ctx()))
	case o.Accepted && werr != nil:
		rep.Deviate("C09:accepts-nonconforming:"+sig+":"+reasonClass(werr), fmt.Sprintf("accepted a tree that does not conform: %v\n%s", werr, ctx()))
	case !o.Accepted && werr == nil:
		rep.Deviate("C09:rejects-conforming:"+sig, fmt.Sprintf("rejected a conforming tree: %v\n%s", o.Err, ctx()))
	case o.Accepted:
		rep.Count("conformance_accepted", 1)
		var got model.Val
		func() {
			defer func() { recover() }()
			got = readTyped(o.Node).Val
		}()
		less := model.CBORKeyLess
		if codec == "dag-json" {
			less = model.BytewiseLess
		}
		if want := ts.SortCodecMaps(t, wantTV, less); !model.Equal(got, want) {
			rep.Deviate("C09:accepted-value-differs:"+sig, fmt.Sprintf("the accepted input reads back as %s\nthe input denotes %s\n%s", clip(got.Dump(), 400), clip(want.Dump(), 400), ctx()))
		}
	default:
		rep.Count("conformance_rejected", 1)
	}
}

// ReadTyped reads a typed node (or a representation node) into its value.
func ReadTyped(n datamodel.Node) (v model.Val) {
	defer func() {
		if r := recover(); r != nil {
			v = model.String(fmt.Sprintf("«panic while reading: %v»", r))
		}
	}()
	return readTyped(n).Val
}

// Repr returns the representation node of a typed node.
func Repr(n datamodel.Node) datamodel.Node { return repr(n) }

// CheckWrongKind is the typed-node part of C01: a typed node (and its representation) built from an
// inhabitant is read with every probe on — every lookup form, both iterators, and every kind-inappropriate
// accessor, which must answer with an error and never panic.
func CheckWrongKind(rep Reporter, eng Engine, ts *rs.TypeSystem, t *rs.Type, tv model.Val) {
	CheckTypedReadback(rep, eng, ts, t, tv, nil)
}

// CheckTypedReadback is CheckWrongKind with the build program drawn from rng: composite children are partly
// built on the position's own prototype and handed over with AssignNode (C01: "by any legal way of making the
// calls ... assigning an existing node"), and what is read back is compared with the value.
func CheckTypedReadback(rep Reporter, eng Engine, ts *rs.TypeSystem, t *rs.Type, tv model.Val, rng *fw.RNG) {
	typed, _ := eng.Proto(t.Name)
	if typed == nil {
		return
	}
	in := ts.TypeInput(t, tv)
	var o Outcome
	switch {
	case rng != nil:
		o = func() (out Outcome) {
			defer func() {
				if r := recover(); r != nil {
					out = Outcome{Panic: fmt.Sprintf("%v\n%s", r, clip(string(debug.Stack()), 2000))}
				}
			}()
			nb := typed.NewBuilder()
			if err := AssembleTypedVia(nb, ts, t, in, rng); err != nil {
				return Outcome{Err: err}
			}
			return Outcome{Accepted: true, Node: nb.Build()}
		}()
		if o.Panic != "" {
			rep.Deviate("C01:typed:build-panics:"+eng.Name()+":"+t.Kind+reprName(t), fmt.Sprintf("a legal build program (children partly assigned as nodes built on the position's own prototype) panicked: %s\nengine %s, type %s, value %s", o.Panic, eng.Name(), t.Name, clip(tv.Dump(), 500)))
			return
		}
		if !o.Accepted {
			rep.Deviate("C01:typed:build-fails:"+eng.Name()+":"+t.Kind+reprName(t), fmt.Sprintf("a legal build program (children partly assigned as nodes built on the position's own prototype) failed: %v\nengine %s, type %s, value %s", o.Err, eng.Name(), t.Name, clip(tv.Dump(), 500)))
			return
		}
		if got := ReadTyped(o.Node); !model.Equal(got, tv) {
			rep.Deviate("C01:typed:readback-differs:"+eng.Name()+":"+t.Kind+reprName(t), fmt.Sprintf("%s\nbuilt (children partly assigned as nodes built on the position's own prototype) %s\nreads back %s\nengine %s, type %s", model.FirstDiff(got, tv), clip(tv.Dump(), 500), clip(got.Dump(), 500), eng.Name(), t.Name))
			return
		}
		rep.Count("typed_assignnode_builds", 1)
	case hasComplexKeys(ts, t, map[string]bool{}, false):
		o = FeedTyped(typed, ts, t, in)
	default:
		o = Feed(typed, in)
	}
	if !o.Accepted {
		return // C08's business
	}
	sig := eng.Name() + ":" + t.Kind + reprName(t)
	// The whole value handed over as ONE node of another implementation (basicnode, the harness's own) with a
	// single AssignNode on the top-level builder — "assigning an existing node from any implementation". At
	// representation level every value is a plain tree, so this is always expressible; at type level when no
	// map below has struct keys. (Written after a seeding sub-agent stumbled over generated map builders
	// panicking on exactly this call.)
	if rng != nil {
		type route struct {
			lvl   string
			proto datamodel.NodePrototype
			val   model.Val
			ok    bool
		}
		_, reprP := eng.Proto(t.Name)
		rv, rerr := ts.ReprOf(t, tv)
		routes := []route{{"representation", reprP, rv, rerr == nil && reprP != nil}, {"type-level", typed, in, !hasComplexKeys(ts, t, map[string]bool{}, true)}}
		for _, rt := range routes {
			if !rt.ok {
				continue
			}
			var src datamodel.Node = fnode.New(rt.val)
			impl := "harness node"
			if rng.Bool() {
				if n, err := Feed(basicnode.Prototype.Any, rt.val), error(nil); err == nil && n.Accepted {
					src, impl = n.Node, "basicnode"
				}
			}
			var out Outcome
			func() {
				defer func() {
					if r := recover(); r != nil {
						out = Outcome{Panic: fmt.Sprintf("%v\n%s", r, clip(string(debug.Stack()), 1500))}
					}
				}()
				nb := rt.proto.NewBuilder()
				if err := nb.AssignNode(src); err != nil {
					out = Outcome{Err: err}
					return
				}
				out = Outcome{Accepted: true, Node: nb.Build()}
			}()
			rep.Count("typed_whole_value_assignnode", 1)
			ctx := fmt.Sprintf("engine %s, type %s, %s builder, AssignNode(%s holding %s)", eng.Name(), t.Name, rt.lvl, impl, clip(rt.val.Dump(), 400))
			switch {
			case out.Panic != "":
				rep.Deviate("C01:typed:assignnode-whole-value:panic:"+rt.lvl+":"+sig, "AssignNode of a conforming value held by another implementation panicked: "+out.Panic+"\n"+ctx)
			case !out.Accepted:
				rep.Deviate("C01:typed:assignnode-whole-value:rejected:"+rt.lvl+":"+sig, fmt.Sprintf("AssignNode of a conforming value held by another implementation failed: %v\n%s", out.Err, ctx))
			default:
				if got := ReadTyped(out.Node); !model.Equal(got, tv) {
					rep.Deviate("C01:typed:assignnode-whole-value:readback-differs:"+rt.lvl+":"+sig, fmt.Sprintf("%s\nreads back %s, expected %s\n%s", model.FirstDiff(got, tv), clip(got.Dump(), 400), clip(tv.Dump(), 400), ctx))
				}
			}
		}
	}
	// Node.Prototype() is part of the node API: the prototype a typed node names builds the same value again from
	// the input of ITS OWN level — the type-level node's from the type-level input, the representation node's from
	// the representation.
	if rng != nil {
		rv, rerr := ts.ReprOf(t, tv)
		for _, lvl := range []string{"type-level", "representation"} {
			var out Outcome
			func() {
				defer func() {
					if r := recover(); r != nil {
						out = Outcome{Panic: fmt.Sprint(r)}
					}
				}()
				if lvl == "type-level" {
					p := o.Node.Prototype()
					if hasComplexKeys(ts, t, map[string]bool{}, false) {
						out = FeedTyped(p, ts, t, in)
					} else {
						out = Feed(p, in)
					}
				} else if rerr == nil {
					out = Feed(repr(o.Node).Prototype(), rv)
				} else {
					out = Outcome{Accepted: true, Node: o.Node}
				}
			}()
			rep.Count("typed_node_prototype_rebuilds", 1)
			ctx := fmt.Sprintf("engine %s, type %s, value %s", eng.Name(), t.Name, clip(tv.Dump(), 400))
			switch {
			case out.Panic != "":
				rep.Deviate("C01:typed:node-prototype:panic:"+lvl+":"+sig, fmt.Sprintf("building through the %s node's own Prototype() panicked: %s\n%s", lvl, out.Panic, ctx))
			case !out.Accepted:
				rep.Deviate("C01:typed:node-prototype:rejects-own-level-input:"+lvl+":"+sig, fmt.Sprintf("the builder of the %s node's own Prototype() refused the %s input of the value the node holds: %v\n%s", lvl, lvl, out.Err, ctx))
			default:
				if got := ReadTyped(out.Node); !model.Equal(got, tv) {
					rep.Deviate("C01:typed:node-prototype:readback-differs:"+lvl+":"+sig, fmt.Sprintf("%s\nrebuilt through the %s node's own Prototype(): reads back %s, expected %s\n%s", model.FirstDiff(got, tv), lvl, clip(got.Dump(), 400), clip(tv.Dump(), 400), ctx))
				}
			}
		}
	}
	for _, lvl := range []string{"type-level", "representation"} {
		n := o.Node
		if lvl == "representation" {
			n = repr(o.Node)
		}
		var r obs.Result
		func() {
			defer func() {
				if p := recover(); p != nil {
					rep.Deviate("C01:typed:panic:read:"+lvl+":"+sig, fmt.Sprintf("reading panicked: %v\nengine %s, type %s, value %s", p, eng.Name(), t.Name, clip(tv.Dump(), 500)))
				}
			}()
			r = obs.ReadOut(n, obs.Options{Typed: true})
		}()
		rep.Count("wrongkind_probe_readouts", 1)
		if len(r.Issues) > 0 {
			rep.Deviate("C01:typed:"+r.Issues[0].Sig+":"+lvl+":"+sig, fmt.Sprintf("%s\nengine %s, type %s (%s view), value %s", r.FirstIssue(), eng.Name(), t.Name, lvl, clip(tv.Dump(), 500)))
		}
	}
}

// CheckRejectedKey is the C12 monitor for typed maps of any key type. A repeated key is injected at a
// random position of an otherwise legal assembly of tv: it must be refused with a repeated-key error — by
// the key assembler, or, for keys assembled recursively, by the key's Finish, by the value assembler handed
// out next, or at the map's Finish — and after a refusal that came before Finish the remaining entries go in
// and the node reads as if the refused call had not happened.
func CheckRejectedKey(rep Reporter, eng Engine, ts *rs.TypeSystem, t *rs.Type, tv model.Val, reprLevel bool, rng *fw.RNG) {
	if t.Kind == "union" && (!reprLevel || t.UnionRepr == "keyed") {
		checkUnionSecondEntry(rep, eng, ts, t, tv, reprLevel, rng)
		return
	}
	isStruct := t.Kind == "struct" && (!reprLevel || t.StructRepr == "map")
	if (t.Kind != "map" && !isStruct) || len(tv.M) == 0 {
		return
	}
	typed, reprP := eng.Proto(t.Name)
	proto, level := typed, "type-level"
	in := ts.TypeInput(t, tv)
	var kt, vt *rs.Type
	if !isStruct {
		kt, vt = ts.T(t.KeyType), ts.T(t.ValueType)
	}
	if reprLevel {
		r, err := ts.ReprOf(t, tv)
		if err != nil || reprP == nil {
			return
		}
		proto, level, in, kt, vt = reprP, "representation-level", r, nil, nil
	}
	if proto == nil || len(in.M) == 0 {
		return
	}
	keyForm := "string"
	if kt != nil && kt.Kind != "string" && kt.Kind != "enum" {
		keyForm = "recursive-" + kt.Kind
	}
	if isStruct {
		keyForm = "field"
	}
	// the type of the value under key k (structs: the field's; representation level: untyped assembly)
	valueType := func(k string) *rs.Type {
		if isStruct && !reprLevel {
			for _, f := range t.Fields {
				if f.Name == k {
					return ts.T(f.Type)
				}
			}
		}
		return vt
	}
	sig := eng.Name() + ":" + level + ":" + keyForm
	dupAt := 1 + rng.Intn(len(in.M))
	dup := in.M[rng.Intn(dupAt)]
	ctx := func() string {
		return fmt.Sprintf("engine %s, %s builder of %s, repeated key %q injected before entry %d of %s", eng.Name(), level, t.Name, dup.K, dupAt, clip(in.Dump(), 500))
	}
	putKey := func(ka datamodel.NodeAssembler, k string) error {
		if keyForm == "string" || keyForm == "field" {
			return ka.AssignString(k)
		}
		kv, perr := ts.ParseRepr(kt, model.String(k))
		if perr != nil {
			return fmt.Errorf("harness: key %q is not a %s: %v", k, kt.Name, perr)
		}
		return assembleTyped(ka, ts, kt, ts.TypeInput(kt, kv))
	}
	isRepeated := func(err error) bool {
		var rk datamodel.ErrRepeatedMapKey
		var rkp *datamodel.ErrRepeatedMapKey
		return errors.As(err, &rk) || errors.As(err, &rkp) || strings.Contains(err.Error(), "repeat")
	}
	var node datamodel.Node
	stage := ""
	var failure string
	func() {
		defer func() {
			if r := recover(); r != nil {
				failure = fmt.Sprintf("panic: %v\n%s", r, clip(string(debug.Stack()), 1500))
			}
		}()
		nb := proto.NewBuilder()
		ma, err := nb.BeginMap(int64(len(in.M)))
		if err != nil {
			failure = "BeginMap: " + err.Error()
			return
		}
		put := func(e model.Entry) error {
			if err := putKey(ma.AssembleKey(), e.K); err != nil {
				return err
			}
			return assembleTyped(ma.AssembleValue(), ts, valueType(e.K), e.V)
		}
		for i := 0; i <= len(in.M); i++ {
			if i == dupAt {
				err := putKey(ma.AssembleKey(), dup.K)
				switch {
				case err != nil && isRepeated(err):
					stage = "key"
				case err != nil:
					failure = "the repeated key was refused with another error: " + err.Error()
					return
				default:
					verr := assembleTyped(ma.AssembleValue(), ts, valueType(dup.K), dup.V)
					switch {
					case verr != nil && isRepeated(verr):
						stage = "value"
					case verr != nil:
						failure = "after the repeated key the value was refused with another error: " + verr.Error()
						return
					}
				}
			}
			if i == len(in.M) {
				break
			}
			if err := put(in.M[i]); err != nil {
				failure = fmt.Sprintf("legal entry %d failed (repeated key refused at stage %q): %v", i, stage, err)
				return
			}
		}
		if err := ma.Finish(); err != nil {
			if stage == "" && isRepeated(err) {
				stage = "finish"
				return
			}
			failure = fmt.Sprintf("Finish failed (repeated key refused at stage %q): %v", stage, err)
			return
		}
		node = nb.Build()
	}()
	rep.Count("rejected_key_sequences", 1)
	if failure != "" {
		rep.Deviate("C12:typed-map:sequence-fails:"+sig, failure+"\n"+ctx())
		return
	}
	switch stage {
	case "":
		rep.Deviate("C12:typed-map:repeated-key-accepted:"+sig, "no call reported the repeated key\n"+ctx())
		return
	case "finish":
		rep.Count("rejected_key_at_finish", 1)
		return
	}
	rep.Count("rejected_key_at_"+stage, 1)
	if stage != "key" && (keyForm == "string" || keyForm == "field") {
		// the contract: the assembler yielded by AssembleKey reports the repeat; only keys assembled
		// recursively may be reported later
		rep.Deviate("C12:typed-map:repeated-key-reported-late:"+sig, fmt.Sprintf("the key assembler accepted the repeated key; the error only came from the %s\n%s", stage, ctx()))
		return
	}
	want := tv
	got := ReadTyped(node)
	if reprLevel {
		// the representation builder hands back the typed node
		if !model.Equal(ReadTyped(repr(node)), in) {
			rep.Deviate("C12:typed-map:rejected-key-left-a-trace:"+sig, fmt.Sprintf("after the refusal (at the %s) the finished node's representation reads %s\n%s", stage, clip(ReadTyped(repr(node)).Dump(), 500), ctx()))
		}
		return
	}
	if !model.Equal(got, want) {
		rep.Deviate("C12:typed-map:rejected-key-left-a-trace:"+sig, fmt.Sprintf("after the refusal (at the %s) the finished node reads %s\n%s", stage, clip(got.Dump(), 500), ctx()))
	}
}

// MutatedDecodes is C10's monitor for typed targets: byte-level mutations of VALID representations of
// values of t, decoded with dag-cbor and dag-json into the representation prototype p. Almost-right bytes
// reach deep into the typed assemblers. A panic in the decode is a violation; a node that was accepted must
// be readable in full without a panic. (A process-fatal error — stack exhaustion — ends the child; the
// framework attributes it to the case.)
func MutatedDecodes(rep Reporter, name string, ts *rs.TypeSystem, t *rs.Type, p datamodel.NodePrototype, rng *fw.RNG, cur *string) {
	guard := func(sig string, f func()) (panicked bool) {
		defer func() {
			if r := recover(); r != nil {
				panicked = true
				rep.Deviate(sig+":panic:"+fw.PanicSite(), fmt.Sprintf("panic: %v\n%s\n%s", r, *cur, clip(string(debug.Stack()), 2500)))
			}
		}()
		f()
		return false
	}
	for k := 0; k < 3; k++ {
		tv := schemagen.GenValue(rng, ts, t, 0)
		rv, err := ts.ReprOf(t, tv)
		if err != nil {
			continue
		}
		for _, codec := range []string{"dagcbor", "dagjson"} {
			var enc []byte
			if codec == "dagcbor" {
				enc = refcbor.Encode(rv)
			} else {
				var buf bytes.Buffer
				if dagjson.Encode(fnode.New(rv), &buf) != nil {
					continue
				}
				enc = buf.Bytes()
			}
			for m := 0; m < 6 && len(enc) > 0; m++ {
				in := append([]byte(nil), enc...)
				for j := 0; j < 1+rng.Intn(2) && len(in) > 0; j++ {
					pos := rng.Intn(len(in))
					switch rng.Intn(5) {
					case 0:
						in[pos] ^= 1 << rng.Intn(8)
					case 1:
						in[pos] = byte(rng.U64())
					case 2:
						in = in[:pos]
					case 3:
						in[pos]++ // next head / next length: the commonest almost-right byte
					default:
						in = append(in[:pos:pos], append([]byte{byte(rng.U64())}, in[pos:]...)...)
					}
				}
				*cur = fmt.Sprintf("%s <- %s %x (valid: %x)", name, codec, clipB(in), clipB(enc))
				nb := p.NewBuilder()
				var derr error
				if guard("C10:decode-typed:"+codec+":"+name, func() {
					if codec == "dagcbor" {
						derr = dagcbor.Decode(nb, bytes.NewReader(in))
					} else {
						derr = dagjson.Decode(nb, bytes.NewReader(in))
					}
				}) {
					continue
				}
				rep.Count("typed_mutation_decodes", 1)
				if derr == nil {
					rep.Count("typed_mutation_accepted", 1)
					guard("C10:read-accepted-typed:"+codec+":"+name, func() {
						n := nb.Build()
						obs.ReadOut(n, obs.Options{Typed: true, NoWrongKindProbes: true, Light: true})
						obs.ReadOut(repr(n), obs.Options{Typed: true, NoWrongKindProbes: true, Light: true})
					})
				}
			}
		}
	}
}

// CheckOtherLevelNames: names that belong to the OTHER level must not work at the representation level. For a
// keyed union the member's type name is not a key of the representation unless it is also its discriminant;
// for a map-represented struct the type-level name of a renamed field is not a key. The representation
// builder must refuse them and the representation node must not resolve them.
func CheckOtherLevelNames(rep Reporter, eng Engine, ts *rs.TypeSystem, t *rs.Type, tv model.Val) {
	typed, reprP := eng.Proto(t.Name)
	if typed == nil || reprP == nil {
		return
	}
	rv, err := ts.ReprOf(t, tv)
	if err != nil {
		return
	}
	sig := eng.Name() + ":" + t.Kind + reprName(t)
	ctx := func() string {
		return fmt.Sprintf("engine %s, type %s, value %s", eng.Name(), t.Name, clip(tv.Dump(), 400))
	}
	// the representation node of the valid value
	o := Feed(reprP, rv)
	if !o.Accepted {
		return
	}
	rn := repr(o.Node)
	mustMiss := func(name string) {
		var child datamodel.Node
		var lerr error
		func() {
			defer func() {
				if r := recover(); r != nil {
					lerr = fmt.Errorf("panic: %v", r)
				}
			}()
			child, lerr = rn.LookupByString(name)
		}()
		rep.Count("other_level_name_lookups", 1)
		if lerr == nil && child != nil && !child.IsAbsent() {
			rep.Deviate("C08:representation-resolves-type-level-name:"+sig, fmt.Sprintf("the representation node answers LookupByString(%q), a type-level name that is not a key of the representation %s\n%s", name, clip(rv.Dump(), 300), ctx()))
		}
	}
	switch {
	case t.Kind == "union" && t.UnionRepr == "keyed":
		member := tv.M[0].K
		if t.Discr[member] == member {
			return
		}
		for _, d := range t.Discr {
			if d == member {
				return // the name is some member's discriminant: it IS a key
			}
		}
		mustMiss(member)
		in := model.Map(model.E(member, rv.M[0].V))
		fo := Feed(reprP, in)
		rep.Count("other_level_name_feeds", 1)
		if fo.Panic != "" {
			rep.Deviate("C09:panic:"+eng.Name()+":representation-level:"+t.Kind+reprName(t), fmt.Sprintf("feeding the member's type name as key panicked: %s\n%s", clip(fo.Panic, 800), ctx()))
		} else if fo.Accepted {
			rep.Deviate("C09:accepts-nonconforming:"+eng.Name()+":representation-level:"+t.Kind+reprName(t)+":member_type_name_instead_of_discriminant", fmt.Sprintf("the representation builder accepted %s: %q is the member's type name, its discriminant is %q\n%s", clip(in.Dump(), 300), member, t.Discr[member], ctx()))
		}
	case t.Kind == "struct" && t.StructRepr == "map":
		serials := map[string]bool{}
		for _, f := range t.Fields {
			serials[t.Serial(f.Name)] = true
		}
		for _, f := range t.Fields {
			if s := t.Serial(f.Name); s != f.Name && !serials[f.Name] {
				mustMiss(f.Name)
			}
		}
	}
}

// checkUnionSecondEntry: a union is assembled as a single-entry map (type level: member name; keyed
// representation: discriminant). After the one entry has been accepted, a second entry — the same key again,
// or another member's — must be refused by the key call, the value handed out for it, or Finish (the sequence
// ends at the refusal: what a union assembler is good for afterwards the contract does not say). Whichever member comes first (round-4 seed
// C12-12: the "a member was already assembled" test confusing member index 0 with "none").
func checkUnionSecondEntry(rep Reporter, eng Engine, ts *rs.TypeSystem, t *rs.Type, tv model.Val, reprLevel bool, rng *fw.RNG) {
	typed, reprP := eng.Proto(t.Name)
	proto, level := typed, "type-level"
	in := ts.TypeInput(t, tv)
	keyOf := func(member string) string { return member }
	if reprLevel {
		r, err := ts.ReprOf(t, tv)
		if err != nil || reprP == nil {
			return
		}
		proto, level, in = reprP, "representation-level", r
		keyOf = func(member string) string { return t.Discr[member] }
	}
	if proto == nil || in.K != model.KMap || len(in.M) != 1 {
		return
	}
	second := in.M[0].K
	secondVal := in.M[0].V
	if len(t.Members) > 1 && rng.Bool() {
		// another member, with a value of its own
		for _, m := range t.Members {
			if keyOf(m) != in.M[0].K {
				mv := schemagen.GenValue(rng, ts, ts.T(m), 0)
				v2 := ts.TypeInput(ts.T(m), mv)
				if reprLevel {
					r2, err := ts.ReprOf(ts.T(m), mv)
					if err != nil {
						continue
					}
					v2 = r2
				}
				second, secondVal = keyOf(m), v2
				break
			}
		}
	}
	form := rng.Intn(2)
	sig := eng.Name() + ":" + level
	ctx := func() string {
		return fmt.Sprintf("engine %s, union %s (%s), first entry %q, second entry %q through %s", eng.Name(), t.Name, level, in.M[0].K, second, []string{"AssembleEntry", "AssembleKey().AssignString"}[form])
	}
	var refused bool
	var node datamodel.Node
	var panicked string
	func() {
		defer func() {
			if r := recover(); r != nil {
				panicked = fmt.Sprintf("%v\n%s", r, clip(string(debug.Stack()), 1500))
			}
		}()
		nb := proto.NewBuilder()
		ma, err := nb.BeginMap(1)
		if err != nil {
			refused = true
			return
		}
		va, err := ma.AssembleEntry(in.M[0].K)
		if err != nil {
			refused = true // C09's business: the FIRST entry is legal
			return
		}
		mt := t
		_ = mt
		if err := assemble(va, in.M[0].V); err != nil {
			refused = true
			return
		}
		// the second entry
		var va2 datamodel.NodeAssembler
		if form == 0 {
			va2, err = ma.AssembleEntry(second)
		} else {
			if err = ma.AssembleKey().AssignString(second); err == nil {
				va2 = ma.AssembleValue()
			}
		}
		if err != nil {
			refused = true
			return // the contract pins nothing about a union assembler after it has refused an entry
		} else if err := assemble(va2, secondVal); err != nil {
			refused = true
			return
		}
		if err := ma.Finish(); err != nil {
			refused = true
			return
		}
		if !refused {
			node = nb.Build()
		}
	}()
	rep.Count("union_second_entry_sequences", 1)
	switch {
	case panicked != "":
		rep.Deviate("C12:union:second-entry:panic:"+sig, "a second entry offered to a union assembler panicked: "+panicked+"\n"+ctx())
	case !refused && node != nil:
		rep.Deviate("C12:union:second-entry-accepted:"+sig, fmt.Sprintf("a union assembler accepted a second entry and built %s\n%s", clip(ReadTyped(node).Dump(), 300), ctx()))
	}
}
