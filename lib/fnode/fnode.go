// Package fnode is a harness-owned, read-only implementation of datamodel.Node
// over model.Val. The library has no shortcuts for it, so assigning or copying
// one of these forces the generic code paths. It can also be made to fail at a
// chosen point (for C06's encoder-failure enumeration).
package fnode

import (
	"fmt"

	cid "github.com/ipfs/go-cid"
	"github.com/ipld/go-ipld-prime/datamodel"
	cidlink "github.com/ipld/go-ipld-prime/linking/cid"
	"github.com/ipld/go-ipld-prime/node/basicnode"

	"verif/lib/model"
)

// Fault makes iteration fail after a number of successful Next calls (counted
// over the whole tree). Nil means never.
type Fault struct {
	After int
	n     int
	Fired bool
	// Scalars: the kind-appropriate scalar accessors (AsBool … AsLink, also of map keys) count and fail too —
	// a node whose value lives somewhere else (an ADL, a lazily loaded node) can fail there as well
	Scalars bool
	// Lookups: successful map lookups count and fail too (list lookups always do) — a node backed by storage
	// (a sharded ADL with a missing shard) can fail to produce a child its iterator just listed
	Lookups bool
	// Once: only the access numbered After fails; the ones after it succeed again (a transient failure). Without
	// it every access from that one on fails, which hides a caller that swallows the first error and trips over
	// the second.
	Once bool
}

func (f *Fault) tickScalar() error {
	if f == nil || !f.Scalars {
		return nil
	}
	return f.tick()
}

func (f *Fault) tick() error {
	if f == nil {
		return nil
	}
	if f.n >= f.After && !(f.Once && f.Fired) {
		f.Fired = true
		return fmt.Errorf("fnode: injected iterator failure after %d entries", f.After)
	}
	f.n++
	return nil
}

type Node struct {
	v *model.Val
	f *Fault
}

// Uint nodes implement datamodel.UintNode.
type UNode struct{ Node }

func New(v model.Val) datamodel.Node { return wrap(&v, nil) }

func NewFaulty(v model.Val, f *Fault) datamodel.Node { return wrap(&v, f) }

func wrap(v *model.Val, f *Fault) datamodel.Node {
	if v.K == model.KAbsent {
		return datamodel.Absent
	}
	if v.K == model.KUint {
		return UNode{Node{v, f}}
	}
	return Node{v, f}
}

func LinkOf(cidBytes string) datamodel.Link {
	c, err := cid.Cast([]byte(cidBytes))
	if err != nil {
		panic(fmt.Sprintf("fnode: model link is not a CID: %v", err))
	}
	return cidlink.Link{Cid: c}
}

func (n Node) Kind() datamodel.Kind {
	switch n.v.K {
	case model.KNull:
		return datamodel.Kind_Null
	case model.KBool:
		return datamodel.Kind_Bool
	case model.KInt, model.KUint:
		return datamodel.Kind_Int
	case model.KFloat:
		return datamodel.Kind_Float
	case model.KString:
		return datamodel.Kind_String
	case model.KBytes:
		return datamodel.Kind_Bytes
	case model.KLink:
		return datamodel.Kind_Link
	case model.KList:
		return datamodel.Kind_List
	case model.KMap:
		return datamodel.Kind_Map
	}
	return datamodel.Kind_Invalid
}

func (n Node) wrongKind(method string, appropriate datamodel.KindSet) error {
	return datamodel.ErrWrongKind{TypeName: "fnode", MethodName: method, AppropriateKind: appropriate, ActualKind: n.Kind()}
}

func (n Node) LookupByString(key string) (datamodel.Node, error) {
	if n.v.K != model.KMap {
		return nil, n.wrongKind("LookupByString", datamodel.KindSet_JustMap)
	}
	for i := range n.v.M {
		if n.v.M[i].K == key {
			if n.f != nil && n.f.Lookups {
				if err := n.f.tick(); err != nil {
					return nil, err
				}
			}
			return wrap(&n.v.M[i].V, n.f), nil
		}
	}
	return nil, datamodel.ErrNotExists{Segment: datamodel.PathSegmentOfString(key)}
}

func (n Node) LookupByNode(key datamodel.Node) (datamodel.Node, error) {
	switch n.v.K {
	case model.KMap:
		s, err := key.AsString()
		if err != nil {
			return nil, err
		}
		return n.LookupByString(s)
	case model.KList:
		i, err := key.AsInt()
		if err != nil {
			return nil, err
		}
		return n.LookupByIndex(i)
	}
	return nil, n.wrongKind("LookupByNode", datamodel.KindSet_Recursive)
}

func (n Node) LookupByIndex(idx int64) (datamodel.Node, error) {
	if n.v.K != model.KList {
		return nil, n.wrongKind("LookupByIndex", datamodel.KindSet_JustList)
	}
	if idx < 0 || idx >= int64(len(n.v.L)) {
		return nil, datamodel.ErrNotExists{Segment: datamodel.PathSegmentOfInt(idx)}
	}
	if err := n.f.tick(); err != nil {
		return nil, err
	}
	return wrap(&n.v.L[idx], n.f), nil
}

func (n Node) LookupBySegment(seg datamodel.PathSegment) (datamodel.Node, error) {
	switch n.v.K {
	case model.KMap:
		return n.LookupByString(seg.String())
	case model.KList:
		i, err := seg.Index()
		if err != nil {
			return nil, err
		}
		return n.LookupByIndex(i)
	}
	return nil, n.wrongKind("LookupBySegment", datamodel.KindSet_Recursive)
}

type mapIter struct {
	n Node
	i int
}

func (it *mapIter) Next() (datamodel.Node, datamodel.Node, error) {
	if it.i >= len(it.n.v.M) {
		return nil, nil, datamodel.ErrIteratorOverread{}
	}
	if err := it.n.f.tick(); err != nil {
		return nil, nil, err
	}
	e := &it.n.v.M[it.i]
	it.i++
	return basicnode.NewString(e.K), wrap(&e.V, it.n.f), nil
}
func (it *mapIter) Done() bool { return it.i >= len(it.n.v.M) }

type listIter struct {
	n Node
	i int
}

func (it *listIter) Next() (int64, datamodel.Node, error) {
	if it.i >= len(it.n.v.L) {
		return -1, nil, datamodel.ErrIteratorOverread{}
	}
	if err := it.n.f.tick(); err != nil {
		return -1, nil, err
	}
	v := &it.n.v.L[it.i]
	it.i++
	return int64(it.i - 1), wrap(v, it.n.f), nil
}
func (it *listIter) Done() bool { return it.i >= len(it.n.v.L) }

func (n Node) MapIterator() datamodel.MapIterator {
	if n.v.K != model.KMap {
		return nil
	}
	return &mapIter{n: n}
}

func (n Node) ListIterator() datamodel.ListIterator {
	if n.v.K != model.KList {
		return nil
	}
	return &listIter{n: n}
}

func (n Node) Length() int64 {
	switch n.v.K {
	case model.KMap:
		return int64(len(n.v.M))
	case model.KList:
		return int64(len(n.v.L))
	}
	return -1
}

func (n Node) IsAbsent() bool { return false }
func (n Node) IsNull() bool   { return n.v.K == model.KNull }

func (n Node) AsBool() (bool, error) {
	if n.v.K != model.KBool {
		return false, n.wrongKind("AsBool", datamodel.KindSet_JustBool)
	}
	if err := n.f.tickScalar(); err != nil {
		return false, err
	}
	return n.v.B, nil
}

func (n Node) AsInt() (int64, error) {
	switch n.v.K {
	case model.KInt:
		if err := n.f.tickScalar(); err != nil {
			return 0, err
		}
		return n.v.I, nil
	case model.KUint:
		return 0, fmt.Errorf("unsigned integer out of range of int64 type")
	}
	return 0, n.wrongKind("AsInt", datamodel.KindSet_JustInt)
}

func (n UNode) AsUint() (uint64, error) { return n.v.U, nil }

func (n Node) AsFloat() (float64, error) {
	if n.v.K != model.KFloat {
		return 0, n.wrongKind("AsFloat", datamodel.KindSet_JustFloat)
	}
	if err := n.f.tickScalar(); err != nil {
		return 0, err
	}
	return n.v.F, nil
}

func (n Node) AsString() (string, error) {
	if n.v.K != model.KString {
		return "", n.wrongKind("AsString", datamodel.KindSet_JustString)
	}
	if err := n.f.tickScalar(); err != nil {
		return "", err
	}
	return n.v.S, nil
}

func (n Node) AsBytes() ([]byte, error) {
	if n.v.K != model.KBytes {
		return nil, n.wrongKind("AsBytes", datamodel.KindSet_JustBytes)
	}
	if err := n.f.tickScalar(); err != nil {
		return nil, err
	}
	return []byte(n.v.S), nil
}

func (n Node) AsLink() (datamodel.Link, error) {
	if n.v.K != model.KLink {
		return nil, n.wrongKind("AsLink", datamodel.KindSet_JustLink)
	}
	if err := n.f.tickScalar(); err != nil {
		return nil, err
	}
	return LinkOf(n.v.S), nil
}

func (n Node) Prototype() datamodel.NodePrototype { return basicnode.Prototype.Any }
