package fw

import (
	"bufio"
	"context"
	"encoding/binary"
	"encoding/json"
	"fmt"
	"os"
	"os/exec"
	"path/filepath"
	"sort"
	"strconv"
	"strings"
	"sync"
	"syscall"
	"time"
)

// Parent is the orchestrating side of a check run.
type Parent struct {
	Prop    Prop
	Tier    string
	Seed    uint64
	Root    string // /verif
	WorkDir string // scratch dir for child logs (removed at the end unless violations)
	Self    string // path of this binary
	Jobs    int

	mu           sync.Mutex
	Counters     map[string]int64
	Samples      []any
	Inconclusive []string
	Devs         []Deviation
	SigCounts    map[string]int64
	hashes       map[uint64]struct{}
	Evaluations  int64
	Trivial      int64
	Extra        map[string]any
	plan         Plan
}

func (p *Parent) Plan() Plan { return p.plan }

func (p *Parent) Count(name string, n int64) {
	p.mu.Lock()
	p.Counters[name] += n
	p.mu.Unlock()
}

// Max records the maximum seen for a counter.
func (p *Parent) Max(name string, v int64) {
	p.mu.Lock()
	if v > p.Counters[name] {
		p.Counters[name] = v
	}
	p.mu.Unlock()
}

func (p *Parent) AddDeviation(d Deviation) {
	p.mu.Lock()
	d.Prop = p.Prop.ID()
	d.Seed = p.Seed
	d.Tier = p.Tier
	p.SigCounts[d.Sig]++
	if p.SigCounts[d.Sig] <= 3 {
		p.Devs = append(p.Devs, d)
	}
	p.mu.Unlock()
}

func (p *Parent) AddInconclusive(s string) {
	p.mu.Lock()
	if len(p.Inconclusive) < 100 {
		p.Inconclusive = append(p.Inconclusive, s)
	}
	p.Counters["inconclusive"]++
	p.mu.Unlock()
}

func (p *Parent) AddSample(v any) {
	p.mu.Lock()
	if len(p.Samples) < 8 {
		p.Samples = append(p.Samples, v)
	}
	p.mu.Unlock()
}

func (p *Parent) Seen(hash uint64, nontrivial bool) {
	p.mu.Lock()
	if nontrivial {
		p.hashes[hash] = struct{}{}
	} else {
		p.Trivial++
	}
	p.mu.Unlock()
}

func (p *Parent) AddEvaluations(n int64) {
	p.mu.Lock()
	p.Evaluations += n
	p.mu.Unlock()
}

// ChildBinary returns the worker binary for the plan (race or plain build).
func (p *Parent) ChildBinary(race bool) string {
	if race {
		return p.Self + ".race"
	}
	return p.Self
}

type childResult struct {
	exitErr  error
	timedOut bool
	outFile  string
}

// runChild runs one child with a watchdog. Output goes to a file (keeps the
// goroutine dump of SIGQUIT and the runtime's fatal error text).
func (p *Parent) runChild(bin string, args []string, env []string, timeout time.Duration, outFile string) childResult {
	f, _ := os.Create(outFile)
	defer f.Close()
	ctx, cancel := context.WithCancel(context.Background())
	defer cancel()
	cmd := exec.CommandContext(ctx, bin, args...)
	cmd.Stdout = f
	cmd.Stderr = f
	cmd.Env = append(os.Environ(), env...)
	cmd.SysProcAttr = &syscall.SysProcAttr{Setpgid: true}
	if err := cmd.Start(); err != nil {
		return childResult{exitErr: err, outFile: outFile}
	}
	done := make(chan error, 1)
	go func() { done <- cmd.Wait() }()
	select {
	case err := <-done:
		return childResult{exitErr: err, outFile: outFile}
	case <-time.After(timeout):
		syscall.Kill(-cmd.Process.Pid, syscall.SIGQUIT)
		select {
		case <-done:
		case <-time.After(10 * time.Second):
			syscall.Kill(-cmd.Process.Pid, syscall.SIGKILL)
			<-done
		}
		return childResult{timedOut: true, outFile: outFile}
	}
}

// RunBatches runs the standard batch loop of the plan.
func (p *Parent) RunBatches() {
	plan := p.plan
	bin := p.ChildBinary(plan.Race)
	sem := make(chan struct{}, p.Jobs)
	var wg sync.WaitGroup
	for b := 0; b < plan.Batches; b++ {
		wg.Add(1)
		sem <- struct{}{}
		go func(b int) {
			defer wg.Done()
			defer func() { <-sem }()
			p.runBatch(bin, plan, b)
		}(b)
	}
	wg.Wait()
}

func (p *Parent) workerArgs(b int, only int) []string {
	a := []string{"-worker", "-prop", p.Prop.ID(), "-tier", p.Tier, "-seed", strconv.FormatUint(p.Seed, 10), "-batch", strconv.Itoa(b), "-out", p.WorkDir}
	if only >= 0 {
		a = append(a, "-only", strconv.Itoa(only))
	}
	return a
}

func (p *Parent) runBatch(bin string, plan Plan, b int) {
	to := time.Duration(plan.TimeoutSec) * time.Second
	if to == 0 {
		to = 20 * time.Minute
	}
	var env []string
	if plan.Race {
		env = append(env, "GORACE=halt_on_error=0 log_path="+filepath.Join(p.WorkDir, fmt.Sprintf("race.b%d", b)))
	}
	out := filepath.Join(p.WorkDir, fmt.Sprintf("b%d.out", b))
	res := p.runChild(bin, p.workerArgs(b, -1), env, to, out)
	p.collectDevFile(filepath.Join(p.WorkDir, fmt.Sprintf("b%d.dev.jsonl", b)))
	sumPath := filepath.Join(p.WorkDir, fmt.Sprintf("b%d.json", b))
	if sb, err := os.ReadFile(sumPath); err == nil {
		var s Summary
		if json.Unmarshal(sb, &s) == nil {
			p.mergeSummary(&s, b)
			return
		}
	}
	// The child did not finish its batch.
	idx := readCur(filepath.Join(p.WorkDir, fmt.Sprintf("b%d.cur", b)))
	if res.timedOut {
		p.AddInconclusive(fmt.Sprintf("batch %d: watchdog fired after %v at case %d (see %s)", b, to, idx, out))
		p.AddEvaluations(int64(max(idx, 0)))
		return
	}
	// died: replay the last logged case alone in a fresh child to confirm
	tailTxt := tailOf(out, 4000)
	if idx < 0 {
		p.AddInconclusive(fmt.Sprintf("batch %d: child died before its first case: %s", b, firstLine(tailTxt)))
		return
	}
	p.AddEvaluations(int64(idx))
	out2 := filepath.Join(p.WorkDir, fmt.Sprintf("b%d.only%d.out", b, idx))
	res2 := p.runChild(bin, p.workerArgs(b, idx), env, to, out2)
	p.collectDevFile(filepath.Join(p.WorkDir, fmt.Sprintf("b%d.only%d.dev.jsonl", b, idx)))
	if _, err := os.Stat(filepath.Join(p.WorkDir, fmt.Sprintf("b%d.only%d.json", b, idx))); err == nil && !res2.timedOut {
		p.AddInconclusive(fmt.Sprintf("batch %d: child died at case %d (%s) but the case alone completes; not reproducible", b, idx, fatalLine(tailTxt)))
		return
	}
	if res2.timedOut {
		p.AddInconclusive(fmt.Sprintf("batch %d: case %d alone hit the watchdog", b, idx))
		return
	}
	t2 := tailOf(out2, 6000)
	p.AddDeviation(Deviation{Sig: "process-death:" + fatalLine(t2), Detail: "child process died executing this case (reproduced alone in a fresh child); output tail:\n" + t2, Batch: b, Index: idx})
}

// MergeBatch collects the deviation file and the summary a worker wrote for
// batch b into the parent's work dir (for orchestrators that start workers themselves).
func (p *Parent) MergeBatch(b int) bool {
	p.collectDevFile(filepath.Join(p.WorkDir, fmt.Sprintf("b%d.dev.jsonl", b)))
	if sb, err := os.ReadFile(filepath.Join(p.WorkDir, fmt.Sprintf("b%d.json", b))); err == nil {
		var s Summary
		if json.Unmarshal(sb, &s) == nil {
			p.mergeSummary(&s, b)
			return true
		}
	}
	return false
}

func fatalLine(s string) string {
	for _, l := range strings.Split(s, "\n") {
		if strings.HasPrefix(l, "fatal error:") || strings.HasPrefix(l, "panic:") || strings.HasPrefix(l, "runtime:") || strings.Contains(l, "signal: killed") {
			return clip(strings.TrimSpace(l), 120)
		}
	}
	return clip(firstLine(s), 120)
}

func firstLine(s string) string {
	s = strings.TrimSpace(s)
	if i := strings.IndexByte(s, '\n'); i >= 0 {
		return s[:i]
	}
	return s
}

func tailOf(path string, n int) string {
	b, err := os.ReadFile(path)
	if err != nil {
		return ""
	}
	// prefer the beginning of the fatal error text if there is one
	s := string(b)
	if i := strings.Index(s, "fatal error:"); i >= 0 {
		s = s[i:]
		if len(s) > n {
			s = s[:n]
		}
		return s
	}
	if i := strings.Index(s, "panic:"); i >= 0 {
		s = s[i:]
		if len(s) > n {
			s = s[:n]
		}
		return s
	}
	if len(s) > n {
		s = s[len(s)-n:]
	}
	return s
}

func readCur(path string) int {
	b, err := os.ReadFile(path)
	if err != nil || len(b) < 8 {
		return -1
	}
	return int(binary.LittleEndian.Uint64(b))
}

func (p *Parent) collectDevFile(path string) {
	f, err := os.Open(path)
	if err != nil {
		return
	}
	defer f.Close()
	sc := bufio.NewScanner(f)
	sc.Buffer(make([]byte, 1<<20), 64<<20)
	for sc.Scan() {
		var d Deviation
		if json.Unmarshal(sc.Bytes(), &d) == nil && d.Sig != "" {
			p.mu.Lock()
			p.Devs = append(p.Devs, d)
			p.mu.Unlock()
		}
	}
}

func (p *Parent) mergeSummary(s *Summary, b int) {
	p.mu.Lock()
	defer p.mu.Unlock()
	p.Evaluations += int64(s.CasesDone)
	p.Trivial += s.Trivial
	for k, v := range s.Counters {
		if strings.HasPrefix(k, "max_") {
			if v > p.Counters[k] {
				p.Counters[k] = v
			}
		} else {
			p.Counters[k] += v
		}
	}
	for k, v := range s.SigCounts {
		p.SigCounts[k] += v
	}
	for _, x := range s.Samples {
		if len(p.Samples) < 6 {
			p.Samples = append(p.Samples, x)
		}
	}
	for _, x := range s.Inconclusive {
		if len(p.Inconclusive) < 100 {
			p.Inconclusive = append(p.Inconclusive, x)
		}
	}
	if hb, err := os.ReadFile(filepath.Join(p.WorkDir, fmt.Sprintf("b%d.hashes", b))); err == nil {
		for i := 0; i+8 <= len(hb); i += 8 {
			p.hashes[binary.LittleEndian.Uint64(hb[i:])] = struct{}{}
		}
	}
}

// ---- known findings -------------------------------------------------------

type Finding struct {
	Status    string `json:"status"` // known | fixed
	Property  string `json:"property"`
	Signature string `json:"signature"`
	What      string `json:"what"`
	Witness   any    `json:"witness,omitempty"`
	Commit    string `json:"commit,omitempty"`
}

type findingsFile struct {
	Findings []Finding `json:"findings"`
}

func loadFindings(root string) []Finding {
	b, err := os.ReadFile(filepath.Join(root, "known_findings.json"))
	if err != nil {
		return nil
	}
	var f findingsFile
	json.Unmarshal(b, &f)
	return f.Findings
}

// KnownSignatures returns the signatures listed as known findings for a property.
func KnownSignatures(root, prop string) map[string]bool {
	out := map[string]bool{}
	for _, f := range loadFindings(root) {
		if f.Status == "known" && f.Property == prop {
			out[f.Signature] = true
		}
	}
	return out
}

// ---- main parent entry ----------------------------------------------------

type ParentArgs struct {
	Prop string
	Tier string
	Seed uint64
	Root string
	Self string
	Jobs int
}

func RunParent(a ParentArgs) int {
	prop := Lookup(a.Prop)
	if prop == nil {
		fmt.Fprintf(os.Stderr, "unknown property %s (have %v)\n", a.Prop, IDs())
		return 2
	}
	start := time.Now()
	work, err := os.MkdirTemp("", "verif-"+a.Prop+"-")
	if err != nil {
		fmt.Fprintln(os.Stderr, err)
		return 2
	}
	p := &Parent{Prop: prop, Tier: a.Tier, Seed: a.Seed, Root: a.Root, WorkDir: work, Self: a.Self, Jobs: a.Jobs,
		Counters: map[string]int64{}, SigCounts: map[string]int64{}, hashes: map[uint64]struct{}{}, Extra: map[string]any{}}
	p.plan = prop.Plan(a.Tier)
	if o, ok := prop.(Orchestrator); ok {
		if err := o.Orchestrate(p); err != nil {
			fmt.Fprintf(os.Stderr, "harness fault: %v\n", err)
			os.RemoveAll(work)
			return 2
		}
	} else {
		p.RunBatches()
	}
	rc := p.finish(start)
	if rc == 0 {
		os.RemoveAll(work)
	} else {
		fmt.Fprintf(os.Stderr, "child logs kept in %s\n", work)
	}
	return rc
}

func (p *Parent) finish(start time.Time) int {
	id := p.Prop.ID()
	findings := loadFindings(p.Root)
	known := map[string]Finding{}
	for _, f := range findings {
		if f.Status == "known" && f.Property == id {
			known[f.Signature] = f
		}
	}
	// classify
	sort.SliceStable(p.Devs, func(i, j int) bool {
		if p.Devs[i].Sig != p.Devs[j].Sig {
			return p.Devs[i].Sig < p.Devs[j].Sig
		}
		if p.Devs[i].Batch != p.Devs[j].Batch {
			return p.Devs[i].Batch < p.Devs[j].Batch
		}
		return p.Devs[i].Index < p.Devs[j].Index
	})
	violSigs := map[string]int{}
	knownHit := map[string]int64{}
	var violations int64
	os.MkdirAll(filepath.Join(p.Root, "replays", id), 0o755)
	// replay files of earlier runs of this tier and seed are stale now
	if old, _ := filepath.Glob(filepath.Join(p.Root, "replays", id, fmt.Sprintf("%s-s%d-*", p.Tier, p.Seed))); len(old) > 0 {
		for _, f := range old {
			os.Remove(f)
		}
	}
	for _, d := range p.Devs {
		if p.SigCounts[d.Sig] == 0 {
			p.SigCounts[d.Sig] = 1
		}
	}
	for _, d := range p.Devs {
		if f, ok := known[d.Sig]; ok {
			if knownHit[d.Sig] == 0 {
				fmt.Printf("KNOWN-FINDING: property=%s %s — %s\n", id, d.Sig, f.What)
			}
			knownHit[d.Sig] = p.SigCounts[d.Sig]
			continue
		}
		violSigs[d.Sig]++
		if violSigs[d.Sig] > 2 {
			continue
		}
		d.Prop = id
		name := fmt.Sprintf("%s-s%d-%s-b%d-i%d-%s.json", p.Tier, p.Seed, sanitize(d.Sig), d.Batch, d.Index, strconv.FormatInt(int64(violSigs[d.Sig]), 10))
		path := filepath.Join(p.Root, "replays", id, name)
		b, _ := json.MarshalIndent(d, "", " ")
		os.WriteFile(path, b, 0o644)
		fmt.Printf("VIOLATION property=%s replay=%s\n", id, path)
		fmt.Printf("  signature: %s\n  detail: %s\n", d.Sig, clip(d.Detail, 600))
	}
	for sig, n := range p.SigCounts {
		if _, ok := known[sig]; !ok {
			violations += n
		}
	}
	if len(violSigs) == 0 {
		violations = 0
	}
	for _, s := range p.Inconclusive {
		fmt.Fprintf(os.Stderr, "INCONCLUSIVE %s: %s\n", id, s)
	}
	// evidence
	cov := map[string]any{
		"evaluations":         p.Evaluations,
		"distinct_nontrivial": int64(len(p.hashes)) + p.Counters["distinct_by_construction"],
		"trivial_or_repeat":   p.Trivial,
		"rule":                p.plan.Rule,
		"samples":             p.Samples,
		"exhaustive":          p.plan.Exhaustive,
		"inconclusive":        p.Counters["inconclusive"],
		"inconclusive_notes":  p.Inconclusive,
		"known_findings_hit":  knownHit,
		"monitors":            p.Counters,
		"batches":             p.plan.Batches,
		"race_build":          p.plan.Race,
	}
	for k, v := range p.Extra {
		cov[k] = v
	}
	if p.Samples == nil {
		cov["samples"] = []any{}
	}
	sigs := map[string]int64{}
	for k, v := range p.SigCounts {
		sigs[k] = v
	}
	cov["deviation_signatures"] = sigs
	ev := map[string]any{
		"property_id": id,
		"tier":        p.Tier,
		"seed":        p.Seed,
		"level":       p.plan.Level,
		"coverage":    cov,
		"assumptions": p.plan.Assumptions,
		"wall_s":      time.Since(start).Seconds(),
		"violations":  violations,
	}
	if ev["assumptions"] == nil {
		ev["assumptions"] = []string{}
	}
	os.MkdirAll(filepath.Join(p.Root, "evidence"), 0o755)
	eb, _ := json.MarshalIndent(ev, "", " ")
	os.WriteFile(filepath.Join(p.Root, "evidence", id+".json"), eb, 0o644)

	fmt.Printf("%s %s seed=%d: evaluations=%d distinct_nontrivial=%d inconclusive=%d known=%d violations=%d wall=%.1fs\n",
		id, p.Tier, p.Seed, p.Evaluations, int64(len(p.hashes))+p.Counters["distinct_by_construction"], p.Counters["inconclusive"], len(knownHit), violations, time.Since(start).Seconds())
	// print the monitor counters so the log shows what was observed
	var keys []string
	for k := range p.Counters {
		keys = append(keys, k)
	}
	sort.Strings(keys)
	var sb strings.Builder
	for _, k := range keys {
		fmt.Fprintf(&sb, " %s=%d", k, p.Counters[k])
	}
	fmt.Printf("  observed:%s\n", sb.String())
	if len(violSigs) > 0 {
		return 1
	}
	// A run that observed nothing is a harness fault, not a pass.
	if p.Evaluations == 0 {
		fmt.Fprintf(os.Stderr, "harness fault: no case was executed\n")
		return 2
	}
	for _, k := range p.plan.MinEvents {
		if p.Counters[k] == 0 {
			fmt.Fprintf(os.Stderr, "harness fault: monitor %q observed nothing\n", k)
			return 2
		}
	}
	return 0
}

func sanitize(s string) string {
	var b strings.Builder
	for _, r := range s {
		switch {
		case r >= 'a' && r <= 'z', r >= 'A' && r <= 'Z', r >= '0' && r <= '9', r == '-', r == '_', r == '.':
			b.WriteRune(r)
		default:
			b.WriteByte('_')
		}
		if b.Len() > 60 {
			break
		}
	}
	return b.String()
}

// RunReplay re-executes the case named by a replay file in this process.
func RunReplay(path string) int {
	b, err := os.ReadFile(path)
	if err != nil {
		fmt.Fprintln(os.Stderr, err)
		return 2
	}
	var d Deviation
	if err := json.Unmarshal(b, &d); err != nil {
		fmt.Fprintln(os.Stderr, err)
		return 2
	}
	if d.Index < 0 {
		fmt.Fprintln(os.Stderr, "this replay file describes a batch-level or orchestrated observation; re-run the check with VERIF_SEED=", d.Seed)
		return 2
	}
	rc := RunWorker(WorkerArgs{Prop: d.Prop, Tier: d.Tier, Seed: d.Seed, Batch: d.Batch, Only: d.Index, Replay: true})
	if rc == 1 {
		fmt.Printf("VIOLATION property=%s replay=%s\n", d.Prop, path)
	}
	return rc
}
