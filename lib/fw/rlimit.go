package fw

import "syscall"

// setMemLimit bounds the address space of a child so that an allocation
// blow-up ends one child, not the whole run (the sandbox has no memory limit).
func setMemLimit(bytes uint64) {
	var rl syscall.Rlimit
	rl.Cur, rl.Max = bytes, bytes
	syscall.Setrlimit(syscall.RLIMIT_AS, &rl)
}

// SetMemLimit is the exported form for helper processes.
func SetMemLimit(bytes uint64) { setMemLimit(bytes) }
