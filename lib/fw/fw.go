// Package fw is the process structure shared by all checks: a parent that
// spawns one child process per batch of cases, collects what the monitors in
// the children observed, classifies deviations against the committed
// known-findings file, and writes the evidence file.
package fw

import (
	"encoding/binary"
	"encoding/json"
	"fmt"
	"os"
	"path/filepath"
	"runtime"
	"runtime/debug"
	"sort"
	"strconv"
	"strings"
	"sync"
)

// Plan says how a tier of a property is sized. Sizes are in cases, never seconds.
type Plan struct {
	Batches     int
	Cases       int    // cases per batch
	Race        bool   // run children from the -race build
	TimeoutSec  int    // watchdog per batch; firing is inconclusive
	MemMB       int    // RLIMIT_AS for non-race children (0 = 6144)
	Level       string // exploration | fault_enumeration
	Rule        string
	Exhaustive  bool
	Assumptions []string
	// MinEvents: counters that must be non-zero over the whole run; a run in
	// which one of them stayed at zero observed nothing for that monitor and
	// exits 2 (harness fault), never "held".
	MinEvents []string
}

// Prop is one property's machinery.
type Prop interface {
	ID() string
	Plan(tier string) Plan
	// RunCase generates case i of batch b from rng (deterministically) and
	// executes it against the real code with the monitors attached.
	RunCase(c *Ctx, rng *RNG, batch, i int)
}

// Orchestrator is implemented by properties whose parent side does more than
// running batches (crash-point enumeration under strace, code generation).
type Orchestrator interface {
	Orchestrate(p *Parent) error
}

// BatchInit is implemented by properties that need per-child setup.
type BatchInit interface {
	InitBatch(c *Ctx, batch int)
}

// CorpusReplayer is implemented by properties that replay a committed input corpus (distilled by the
// coverage-guided campaigns) after their generated cases: entry k of a batch is case index Plan.Cases+k, so
// crash attribution (b<i>.cur) and --replay work for corpus entries exactly as for generated cases.
type CorpusReplayer interface {
	CorpusLen(c *Ctx, batch int) int
	RunCorpusEntry(c *Ctx, batch, k int)
}

// BatchFinish is implemented by properties that check something at the end of a batch.
type BatchFinish interface {
	FinishBatch(c *Ctx, batch int)
}

var registry = map[string]Prop{}

// Aux programs are small helper processes a property needs (scenario children, verifiers).
var auxRegistry = map[string]func(args []string) int{}

func RegisterAux(name string, f func(args []string) int) { auxRegistry[name] = f }

func RunAux(name string, args []string) int {
	f := auxRegistry[name]
	if f == nil {
		fmt.Fprintf(os.Stderr, "unknown aux program %q\n", name)
		return 2
	}
	return f(args)
}

func Register(p Prop) { registry[p.ID()] = p }
func Lookup(id string) Prop {
	return registry[id]
}
func IDs() []string {
	var ids []string
	for k := range registry {
		ids = append(ids, k)
	}
	sort.Strings(ids)
	return ids
}

// Deviation is one observed departure from the oracle.
type Deviation struct {
	Prop   string          `json:"property"`
	Sig    string          `json:"signature"`
	Detail string          `json:"detail"`
	Seed   uint64          `json:"seed"`
	Tier   string          `json:"tier"`
	Batch  int             `json:"batch"`
	Index  int             `json:"index"`
	Case   json.RawMessage `json:"case,omitempty"`
}

// Summary is what one child reports at the end of its batch.
type Summary struct {
	Batch        int              `json:"batch"`
	CasesDone    int              `json:"cases_done"`
	Counters     map[string]int64 `json:"counters"`
	Samples      []any            `json:"samples"`
	Inconclusive []string         `json:"inconclusive"`
	SigCounts    map[string]int64 `json:"sig_counts"`
	Trivial      int64            `json:"trivial"`
}

// Ctx is the worker-side handle given to RunCase.
type Ctx struct {
	PropID string
	Tier   string
	Seed   uint64
	Batch  int
	Index  int
	OutDir string
	Replay bool

	mu        sync.Mutex
	counters  map[string]int64
	samples   []any
	hashes    map[uint64]struct{}
	trivial   int64
	inconc    []string
	sigCounts map[string]int64
	devFile   *os.File
	curFile   *os.File
	caseDesc  func() any
	muted     bool // deviations of prefix cases during a replay are not reported
	maxSample int
	keepDevs  bool // standalone contexts (fuzz targets, corpus tools) keep deviations in memory
	devs      []Deviation
}

// NewStandaloneCtx returns a context that is not attached to a batch child: counters work, deviations are
// kept in memory and handed out by TakeDeviations. Used by the coverage-guided fuzz targets (fuzzc), which
// run the same per-input monitors as the checks.
func NewStandaloneCtx(prop string) *Ctx {
	return &Ctx{PropID: prop, Tier: "fuzz", counters: map[string]int64{}, hashes: map[uint64]struct{}{}, sigCounts: map[string]int64{}, keepDevs: true}
}

// TakeDeviations returns and clears the deviations a standalone context collected.
func (c *Ctx) TakeDeviations() []Deviation {
	c.mu.Lock()
	defer c.mu.Unlock()
	d := c.devs
	c.devs = nil
	for k := range c.sigCounts {
		delete(c.sigCounts, k)
	}
	return d
}

// Counter reads a counter (standalone contexts).
func (c *Ctx) Counter(name string) int64 {
	c.mu.Lock()
	defer c.mu.Unlock()
	return c.counters[name]
}

func (c *Ctx) Count(name string, n int64) {
	c.mu.Lock()
	c.counters[name] += n
	c.mu.Unlock()
}

// Max records the maximum seen for a counter.
func (c *Ctx) Max(name string, v int64) {
	c.mu.Lock()
	if v > c.counters[name] {
		c.counters[name] = v
	}
	c.mu.Unlock()
}

// Seen records the canonical hash of a case and whether it is non-trivial by
// the property's stated rule. Only distinct non-trivial cases are counted.
func (c *Ctx) Seen(hash uint64, nontrivial bool) {
	c.mu.Lock()
	if nontrivial {
		c.hashes[hash] = struct{}{}
	} else {
		c.trivial++
	}
	c.mu.Unlock()
}

// SetCase registers a lazy description of the current case; it is serialised
// only if a deviation is reported or a sample is taken.
func (c *Ctx) SetCase(desc func() any) {
	c.caseDesc = desc
	if os.Getenv("VERIF_PRINT_CASE") != "" {
		if b, err := json.Marshal(desc()); err == nil {
			fmt.Fprintf(os.Stderr, "CASE batch=%d index=%d %s\n", c.Batch, c.Index, clip(string(b), 4000))
		}
	}
}

func (c *Ctx) Sample(v any) {
	c.mu.Lock()
	if len(c.samples) < c.maxSample {
		c.samples = append(c.samples, v)
	}
	c.mu.Unlock()
}

// WantSample reports whether another sample would be kept.
func (c *Ctx) WantSample() bool {
	c.mu.Lock()
	defer c.mu.Unlock()
	return len(c.samples) < c.maxSample
}

func (c *Ctx) Inconclusive(reason string) {
	c.mu.Lock()
	if len(c.inconc) < 50 {
		c.inconc = append(c.inconc, fmt.Sprintf("batch %d case %d: %s", c.Batch, c.Index, reason))
	}
	c.counters["inconclusive"]++
	c.mu.Unlock()
}

// Deviate reports an observed violation of the oracle. sig is a short stable
// class (used for the known-findings lookup), detail says what was seen.
func (c *Ctx) Deviate(sig, detail string) {
	c.mu.Lock()
	defer c.mu.Unlock()
	if c.muted {
		return
	}
	c.sigCounts[sig]++
	if c.sigCounts[sig] > 3 && !c.Replay {
		return
	}
	d := Deviation{Prop: c.PropID, Sig: sig, Detail: clip(detail, 6000), Seed: c.Seed, Tier: c.Tier, Batch: c.Batch, Index: c.Index}
	if c.caseDesc != nil {
		func() {
			defer func() { recover() }()
			if b, err := json.Marshal(c.caseDesc()); err == nil {
				if len(b) > 200000 {
					b, _ = json.Marshal(map[string]any{"truncated": string(b[:200000])})
				}
				d.Case = b
			}
		}()
	}
	if c.keepDevs {
		c.devs = append(c.devs, d)
	}
	b, _ := json.Marshal(d)
	if c.devFile != nil {
		c.devFile.Write(append(b, '\n'))
	}
	if c.Replay {
		fmt.Printf("DEVIATION %s\n", b)
	}
}

func clip(s string, n int) string {
	if len(s) > n {
		return s[:n] + "…[clipped]"
	}
	return s
}

// Guard runs f under recover and reports a panic as a deviation with the
// given signature prefix; returns true if f panicked.
func (c *Ctx) Guard(sigPrefix string, f func()) (panicked bool) {
	defer func() {
		if r := recover(); r != nil {
			panicked = true
			c.Deviate(sigPrefix+":panic:"+PanicSite(), fmt.Sprintf("panic: %v\n%s", r, clip(string(debug.Stack()), 3000)))
		}
	}()
	f()
	return false
}

// PanicSite returns the innermost go-ipld-prime (or dependency) frame of the
// current panic stack, file:function without line numbers, for signatures.
func PanicSite() string {
	pcs := make([]uintptr, 64)
	n := runtime.Callers(3, pcs)
	frames := runtime.CallersFrames(pcs[:n])
	for {
		f, more := frames.Next()
		fn := f.Function
		if fn != "" && !strings.HasPrefix(fn, "runtime.") && !strings.HasPrefix(fn, "verif/lib/fw") {
			if i := strings.LastIndex(fn, "/"); i >= 0 {
				fn = fn[i+1:]
			}
			return fn
		}
		if !more {
			break
		}
	}
	return "unknown"
}

// ---- worker entry ---------------------------------------------------------

// PrefixReplayer is implemented by properties whose cases are steps of one history per process:
// replaying case i alone then means running cases 0..i (only i reports).
type PrefixReplayer interface{ ReplayNeedsPrefix() bool }

type WorkerArgs struct {
	Prop   string
	Tier   string
	Seed   uint64
	Batch  int
	Only   int // -1 = all
	OutDir string
	Replay bool
}

func caseSeed(prop, tier string, seed uint64, batch, i int) uint64 {
	return Mix(seed, HashString(prop), HashString(tier), uint64(batch), uint64(i))
}

// RunWorker executes one batch in this process.
func RunWorker(a WorkerArgs) int {
	p := Lookup(a.Prop)
	if p == nil {
		fmt.Fprintf(os.Stderr, "unknown property %s\n", a.Prop)
		return 2
	}
	plan := p.Plan(a.Tier)
	if !plan.Race {
		mem := plan.MemMB
		if mem == 0 {
			mem = 6144
		}
		setMemLimit(uint64(mem) << 20)
	}
	c := &Ctx{PropID: a.Prop, Tier: a.Tier, Seed: a.Seed, Batch: a.Batch, OutDir: a.OutDir, Replay: a.Replay,
		counters: map[string]int64{}, hashes: map[uint64]struct{}{}, sigCounts: map[string]int64{}, maxSample: 2}
	if a.Batch == 0 {
		c.maxSample = 4
	}
	if !a.Replay {
		os.MkdirAll(a.OutDir, 0o755)
		suffix := ""
		if a.Only >= 0 {
			suffix = fmt.Sprintf(".only%d", a.Only)
		}
		var err error
		c.devFile, err = os.OpenFile(filepath.Join(a.OutDir, fmt.Sprintf("b%d%s.dev.jsonl", a.Batch, suffix)), os.O_CREATE|os.O_WRONLY|os.O_TRUNC, 0o644)
		if err != nil {
			fmt.Fprintln(os.Stderr, err)
			return 2
		}
		c.curFile, _ = os.OpenFile(filepath.Join(a.OutDir, fmt.Sprintf("b%d%s.cur", a.Batch, suffix)), os.O_CREATE|os.O_WRONLY|os.O_TRUNC, 0o644)
	}
	if bi, ok := p.(BatchInit); ok {
		bi.InitBatch(c, a.Batch)
	}
	if v := os.Getenv("VERIF_CASES_OVERRIDE"); v != "" {
		if n, err := strconv.Atoi(v); err == nil && n > 0 {
			plan.Cases = n
		}
	}
	lo, hi := 0, plan.Cases
	cr, _ := p.(CorpusReplayer)
	if cr != nil {
		hi += cr.CorpusLen(c, a.Batch)
	}
	if a.Only >= 0 {
		lo, hi = a.Only, a.Only+1
		if pr, ok := p.(PrefixReplayer); ok && pr.ReplayNeedsPrefix() {
			lo = 0 // the case's outcome may depend on process state left by the cases before it
		}
	}
	var cur [8]byte
	done := 0
	for i := lo; i < hi; i++ {
		c.Index = i
		c.caseDesc = nil
		c.muted = a.Only >= 0 && i < a.Only
		if c.curFile != nil {
			binary.LittleEndian.PutUint64(cur[:], uint64(i))
			c.curFile.WriteAt(cur[:], 0)
		}
		rng := NewRNG(caseSeed(a.Prop, a.Tier, a.Seed, a.Batch, i))
		if i >= plan.Cases && cr != nil {
			c.Guard("uncaught-corpus", func() { cr.RunCorpusEntry(c, a.Batch, i-plan.Cases) })
		} else {
			c.Guard("uncaught", func() { p.RunCase(c, rng, a.Batch, i) })
		}
		done++
	}
	if a.Only < 0 {
		if bf, ok := p.(BatchFinish); ok {
			c.Index = -1
			c.caseDesc = nil
			c.Guard("uncaught-finish", func() { bf.FinishBatch(c, a.Batch) })
		}
	}
	if a.Replay {
		n := int64(0)
		for _, v := range c.sigCounts {
			n += v
		}
		if n > 0 {
			return 1
		}
		fmt.Println("replay: no deviation observed")
		return 0
	}
	// summary + hashes
	sum := Summary{Batch: a.Batch, CasesDone: done, Counters: c.counters, Samples: c.samples, Inconclusive: c.inconc, SigCounts: c.sigCounts, Trivial: c.trivial}
	if a.Only >= 0 {
		b, _ := json.Marshal(sum)
		os.WriteFile(filepath.Join(a.OutDir, fmt.Sprintf("b%d.only%d.json", a.Batch, a.Only)), b, 0o644)
		return 0
	}
	hb := make([]byte, 0, 8*len(c.hashes))
	for h := range c.hashes {
		hb = binary.LittleEndian.AppendUint64(hb, h)
	}
	os.WriteFile(filepath.Join(a.OutDir, fmt.Sprintf("b%d.hashes", a.Batch)), hb, 0o644)
	b, err := json.Marshal(sum)
	if err != nil {
		// samples not serialisable: drop them rather than lose the summary
		sum.Samples = []any{fmt.Sprintf("unserialisable samples: %v", err)}
		b, _ = json.Marshal(sum)
	}
	tmp := filepath.Join(a.OutDir, fmt.Sprintf("b%d.json.tmp", a.Batch))
	os.WriteFile(tmp, b, 0o644)
	os.Rename(tmp, filepath.Join(a.OutDir, fmt.Sprintf("b%d.json", a.Batch)))
	return 0
}
