package fw

// RNG is a splitmix64 generator. All case lists are functions of
// (property, tier, seed, batch, case index) through it; nothing depends on time.
type RNG struct{ s uint64 }

func NewRNG(seed uint64) *RNG { return &RNG{s: seed} }

func Mix(xs ...uint64) uint64 {
	h := uint64(0x9e3779b97f4a7c15)
	for _, x := range xs {
		h ^= x + 0x9e3779b97f4a7c15 + (h << 6) + (h >> 2)
		h = mix64(h)
	}
	return h
}

func mix64(z uint64) uint64 {
	z = (z ^ (z >> 30)) * 0xbf58476d1ce4e5b9
	z = (z ^ (z >> 27)) * 0x94d049bb133111eb
	return z ^ (z >> 31)
}

func HashString(s string) uint64 {
	h := uint64(14695981039346656037)
	for i := 0; i < len(s); i++ {
		h ^= uint64(s[i])
		h *= 1099511628211
	}
	return mix64(h)
}

func (r *RNG) U64() uint64 {
	r.s += 0x9e3779b97f4a7c15
	return mix64(r.s)
}

// Intn returns a value in [0,n). n must be > 0.
func (r *RNG) Intn(n int) int {
	if n <= 0 {
		return 0
	}
	return int(r.U64() % uint64(n))
}

func (r *RNG) Bool() bool { return r.U64()&1 == 1 }

// Chance returns true with probability num/den.
func (r *RNG) Chance(num, den int) bool { return r.Intn(den) < num }

func (r *RNG) Bytes(n int) []byte {
	b := make([]byte, n)
	for i := 0; i < n; i += 8 {
		v := r.U64()
		for j := 0; j < 8 && i+j < n; j++ {
			b[i+j] = byte(v >> (8 * j))
		}
	}
	return b
}

// Fork derives an independent generator.
func (r *RNG) Fork() *RNG { return NewRNG(r.U64()) }

// Perm returns a permutation of 0..n-1.
func (r *RNG) Perm(n int) []int {
	p := make([]int, n)
	for i := range p {
		p[i] = i
	}
	for i := n - 1; i > 0; i-- {
		j := r.Intn(i + 1)
		p[i], p[j] = p[j], p[i]
	}
	return p
}

// Shuffle permutes n items through swap (Fisher–Yates).
func (r *RNG) Shuffle(n int, swap func(i, j int)) {
	for i := n - 1; i > 0; i-- {
		swap(i, r.Intn(i+1))
	}
}
