package props

import (
	"fmt"

	"verif/lib/fw"
	"verif/lib/model"
	rs "verif/lib/ref/schema"
	"verif/lib/schemagen"
	"verif/lib/typedmon"
)

// C09 — typed builders accept exactly the data that conforms.
type c09 struct{}

func init() { fw.Register(c09{}) }

func (c09) ID() string { return "C09" }

func (c09) Plan(tier string) fw.Plan {
	p := fw.Plan{
		Batches: 16, Cases: 160, TimeoutSec: 900, Level: "exploration",
		Rule:        "one case = one random type system (as in C08) bound with bindnode; per composite type 6 conforming values, each fed unmutated and under 6 random local mutations (drop / duplicate / rename / rename-to-sibling / serial-vs-original-name / reverse / null an entry or element; add unknown entry; extra or missing tuple element; second union entry; unknown or out-of-range enum member; extra stringjoin part; retype at any position) at type level and at representation level, (a) directly as assembler call sequences (so repeated keys reach the builder) and (b) encoded as dag-cbor (decoded in relaxed mode, which keeps duplicates) and dag-json and decoded into the representation builder. Oracle: reference conformance (lib/ref/schema ParseType/ParseRepr); accept/reject must agree, rejection must be an error (a panic is a violation), and an accepted input must read back as the typed value the input denotes. Generated code runs the same monitor inside C13. Non-trivial: mutated input; distinct by (type, input) hash.",
		Assumptions: []string{"lib/ref/schema decides conformance", "floats are kept out of the dag-json leg (C04's known finding)"},
		MinEvents:   []string{"type_systems", "conformance_feeds", "conformance_accepted", "conformance_rejected", "mutations_fed", "fed_via_dag-cbor", "fed_via_dag-json", "reference_accepts_mutation", "reference_rejects_mutation"},
	}
	if tier == "thorough" {
		p.Batches, p.Cases, p.TimeoutSec = 64, 320, 3300
	}
	return p
}

func (c09) RunCase(c *fw.Ctx, rng *fw.RNG, batch, i int) {
	ntypes := 8 + rng.Intn(7)
	if deepCase(c, i) {
		ntypes = 18 + rng.Intn(10)
	}
	ts := schemagen.Gen(rng, schemagen.Opts{Types: ntypes})
	lib, err := schemagen.ToLibrary(ts)
	if err != nil {
		c.Inconclusive("generated type system rejected by the library: " + err.Error())
		return
	}
	c.Count("type_systems", 1)
	eng := newBindEngine(lib)
	if rng.Chance(1, 3) {
		eng = newShapedBindEngine(lib, ts, rng)
		c.Count("type_systems_with_user_go_types", 1)
	}
	var cur string
	c.SetCase(func() any {
		return map[string]any{"type_system": schemagen.Describe(ts), "engine": eng.Name(), "go_types": eng.goTypes(), "current": cur}
	})
	for _, t := range ts.Types {
		if t.Name[0] != 'T' {
			continue
		}
		if typed, _ := eng.Proto(t.Name); typed == nil {
			continue
		}
		for k := 0; k < 6; k++ {
			tv := schemagen.GenValue(rng, ts, t, 0)
			rv, err := ts.ReprOf(t, tv)
			if err != nil {
				continue
			}
			inputs := []struct {
				repr bool
				v    model.Val
			}{{false, ts.TypeInput(t, tv)}, {true, rv}}
			for _, in := range inputs {
				cur = fmt.Sprintf("%s repr=%v %s", t.Name, in.repr, clipS(in.v.Dump(), 300))
				if !hasComplexKeyInput(ts, t) || in.repr {
					typedmon.CheckConformance(c, eng, ts, t, in.v, in.repr, "none")
				}
				for m := 0; m < 6; m++ {
					mut := typedmon.Mutate(rng, in.v)
					if !in.repr && hasComplexKeyInput(ts, t) {
						continue // type-level input with typed keys cannot be expressed as a plain tree
					}
					cur = fmt.Sprintf("%s repr=%v %s ← %s", t.Name, in.repr, clipS(mut.Val.Dump(), 300), mut.Name)
					c.Count("mutations_fed", 1)
					c.Seen(fw.Mix(fw.HashString(t.Name+schemagen.Describe(ts)), mut.Val.Hash()), true)
					_, refOK := typedmon.CheckConformance(c, eng, ts, t, mut.Val, in.repr, mut.Name)
					if refOK {
						c.Count("reference_accepts_mutation", 1)
					} else {
						c.Count("reference_rejects_mutation", 1)
					}
					if c.WantSample() && !refOK && mut.Val.Stats().Nodes < 14 {
						c.Sample(map[string]any{"type": t.Name, "kind": typeKindName(t), "level_repr": in.repr, "mutation": mut.Name, "input": mut.Val.Dump()})
					}
					if in.repr && m%2 == 0 {
						for _, codec := range []string{"dag-cbor", "dag-json"} {
							if codec == "dag-json" && c09HasFloat(mut.Val) {
								continue
							}
							typedmon.CheckConformanceViaCodec(c, eng, ts, t, mut.Val, codec, mut.Name)
							c.Count("fed_via_"+codec, 1)
						}
					}
				}
			}
		}
	}
}

func c09HasFloat(v model.Val) bool {
	f := false
	v.Walk(func(x model.Val) {
		if x.K == model.KFloat {
			f = true
		}
	})
	return f
}

// type-level inputs of maps with STRUCT keys cannot be written as plain trees; enum keys (member names) can
func hasComplexKeyInput(ts *rs.TypeSystem, t *rs.Type) bool { return typedmon.HasStructKeys(ts, t) }
