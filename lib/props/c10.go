package props

import (
	"bytes"
	"encoding/binary"
	"encoding/hex"
	stdjson "encoding/json"
	"fmt"
	"github.com/ipld/go-ipld-prime/node/bindnode"
	"github.com/ipld/go-ipld-prime/schema"
	"os/exec"
	"reflect"
	"runtime"
	"strings"
	"time"
	rs "verif/lib/ref/schema"
	"verif/lib/schemagen"
	"verif/lib/typedmon"

	"github.com/ipld/go-ipld-prime/codec/cbor"
	"github.com/ipld/go-ipld-prime/codec/dagcbor"
	"github.com/ipld/go-ipld-prime/codec/dagjson"
	"github.com/ipld/go-ipld-prime/codec/json"
	"github.com/ipld/go-ipld-prime/codec/raw"
	"github.com/ipld/go-ipld-prime/datamodel"
	"github.com/ipld/go-ipld-prime/node/basicnode"
	"github.com/ipld/go-ipld-prime/node/gendemo"

	"verif/lib/fnode"
	"verif/lib/fw"
	"verif/lib/model"
	"verif/lib/rasm"
	refcbor "verif/lib/ref/cbor"
)

// C10 — parsers of untrusted data are total and bounded.
type c10 struct{}

func init() {
	fw.Register(c10{})
	fw.RegisterAux("c10probe", c10GrowthProbe)
	fw.RegisterAux("c10time", c10TimeProbe)
}

func fwSetMemLimit(b uint64) { fw.SetMemLimit(b) }

// Orchestrate runs the batches, then the selector-growth probe in its own process.
func (c10) Orchestrate(p *fw.Parent) error {
	p.RunBatches()
	cmd := exec.Command(p.ChildBinary(false), "-aux", "c10probe")
	done := make(chan struct{})
	var out []byte
	var err error
	go func() { out, err = cmd.CombinedOutput(); close(done) }()
	timedOut := false
	select {
	case <-done:
	case <-time.After(120 * time.Second):
		cmd.Process.Kill()
		<-done
		timedOut = true
	}
	p.Count("selector_growth_probe_runs", 1)
	// the growth family: allocation for twice the depth may grow at most 12-fold
	lastStarted := ""
	for _, line := range strings.Split(string(out), "\n") {
		var r struct {
			Selector, Phase string
			A8, A16         uint64
		}
		if stdjson.Unmarshal([]byte(line), &r) != nil || r.Selector == "" {
			continue
		}
		if r.Phase == "start" {
			lastStarted = r.Selector
			continue
		}
		lastStarted = ""
		p.Count("selector_growth_family_walks", 2)
		if r.A8 > 0 {
			p.Max("max_alloc_growth_x10_for_twice_the_depth", int64(r.A16*10/(r.A8+1)))
		}
		if r.A16 > 12*r.A8+(1<<20) {
			p.AddDeviation(fw.Deviation{Sig: "C10:recursive-selector-cost-grows-exponentially-with-depth", Index: -1,
				Detail: fmt.Sprintf("walking %s over a one-child list chain allocates %d bytes at depth 8 and %d bytes at depth 16 (%.0f-fold for twice the depth; linear is 2)", r.Selector, r.A8, r.A16, float64(r.A16)/float64(r.A8+1))})
		}
	}
	if (timedOut || err != nil) && lastStarted != "" {
		p.AddDeviation(fw.Deviation{Sig: "C10:recursive-selector-cost-grows-exponentially-with-depth", Index: -1,
			Detail: "the growth probe died or was killed while walking " + lastStarted + " over a one-child list chain of depth 8/16 under a 1.5 GiB address-space limit"})
		return nil
	}
	if timedOut || err != nil {
		why := "killed by the 120 s watchdog"
		if !timedOut {
			why = "died: " + fatalFirst(string(out))
		}
		p.AddDeviation(fw.Deviation{Sig: "C10:multi-edge-recursion-exponential-growth", Index: -1,
			Detail: "walking R(none){|[., a{@}, a{@}, a{@}]} over a 16-deep one-child list under a 1.5 GiB address-space limit " + why})
	}
	// decode-time probe (own process): "terminates" restated as bounded progress relative to the same
	// decoder on a canonical input of the same size — see c10TimeProbe
	tcmd := exec.Command(p.ChildBinary(false), "-aux", "c10time")
	tdone := make(chan struct{})
	var tout []byte
	go func() { tout, _ = tcmd.CombinedOutput(); close(tdone) }()
	select {
	case <-tdone:
	case <-time.After(300 * time.Second):
		tcmd.Process.Kill()
		<-tdone
		p.AddInconclusive("decode-time probe: killed by its 300 s watchdog (its own deadlines should have ended it long before)")
		return nil
	}
	for _, line := range strings.Split(string(tout), "\n") {
		var r struct {
			Decoder, Shape        string
			N                     int
			Seconds, Base, Factor float64
			Exceeded              bool
		}
		if stdjson.Unmarshal([]byte(line), &r) != nil || r.Decoder == "" {
			continue
		}
		p.Count("decode_time_probes", 1)
		p.Count("decode_time_factor_x10:"+r.Decoder+":"+r.Shape, int64(r.Factor*10))
		if r.Exceeded {
			p.AddDeviation(fw.Deviation{Sig: "C10:decode-time-not-bounded:" + r.Decoder + ":" + r.Shape, Index: -1,
				Detail: fmt.Sprintf("%s decoding a %d-entry map with keys in %s order (well inside the default allocation budget) did not finish within %.1f s = 60 × the %.3f s the same decoder needs for the same entries in canonical order, + 2 s", r.Decoder, r.N, r.Shape, r.Seconds, r.Base)})
		}
	}
	return nil
}

func fatalFirst(s string) string {
	for _, l := range strings.Split(s, "\n") {
		if strings.HasPrefix(l, "fatal error") || strings.HasPrefix(l, "panic") || strings.HasPrefix(l, "runtime:") {
			return l
		}
	}
	return clipS(s, 200)
}

func (c10) ID() string { return "C10" }

func (c10) Plan(tier string) fw.Plan {
	p := fw.Plan{
		Batches: 16, Cases: 9000, TimeoutSec: 1500, MemMB: 8192, Level: "exploration",
		Rule:        "three interleaved case families. (A) decoders: the five decoders (dag-cbor, cbor, dag-json, json, raw) × inputs (uniform random bytes; single/multi-point mutations of valid encodings; structure-aware hostile inputs: maximal and wrapping declared lengths in every length position, nesting at MaxDepth−1/0/+1 incl. link/bytes values between levels for dag-json, many tiny items, huge tags) × configurations (MaxDepth ∈ {1,2,16,default}, AllocationBudget ∈ {1,64,4096,default}, MaxCollectionPrealloc ∈ {1,16,1024,2^20}, strict/relaxed, links on/off, stop-at-end on/off; dag-json ParseLinks/ParseBytes/MaxDepth) × targets (basicnode Any, recording assembler, bindnode and generated typed prototypes). Monitors: panic/process death; nesting depth seen by a recording assembler ≤ MaxDepth; bytes allocated (runtime.MemStats.TotalAlloc delta, sampled cases) ≤ 256·budget + 1024·len(input) + 1 MiB for dag-cbor into basicnode and ≤ 4096·len(input) + 1 MiB for the JSON decoders. (B) selector compilation of random trees, mutated valid specs and well-shaped specs with extreme integers and degenerate recursion; every selector that compiles is walked (WalkAdv, WalkMatching, WalkTransforming) over random graphs through a link system serving arbitrary bytes for arbitrary links incl. links whose declared digest length exceeds the hash output. (C) datamodel.ParsePath on arbitrary strings. Termination: per-batch watchdog (inconclusive when it fires). Non-trivial: structured (non-uniform-random) input; distinct by input hash.",
		Assumptions: []string{"allocation constants are calibrated on the unchanged tree with ≥4× headroom; the monitor polices growth with the configured budget, not constants"},
		MinEvents:   []string{"decodes:dagcbor", "decodes:dagjson", "decodes:cbor", "decodes:json", "decodes:raw", "depth_checks", "alloc_checks", "selector_compiles", "selectors_compiled_ok", "walks", "parsepath_calls"},
	}
	if tier == "thorough" {
		p.Batches, p.Cases, p.TimeoutSec = 64, 24000, 3300
	}
	return p
}

type c10cfg struct {
	name     string
	budget   int64 // effective budget for the allocation bound (0 = no bound checked)
	prealloc int64 // effective MaxCollectionPrealloc (dag-cbor)
	depth    int64
	kind     string // dagcbor | cbor | dagjson | json | raw
	dec      func(na datamodel.NodeAssembler, in []byte) error
}

func c10DrawCfg(rng *fw.RNG) c10cfg {
	switch rng.Intn(10) {
	case 0:
		return c10cfg{name: "cbor.Decode", kind: "cbor", budget: 10 << 20, depth: 1024, dec: func(na datamodel.NodeAssembler, in []byte) error { return cbor.Decode(na, bytes.NewReader(in)) }}
	case 1:
		return c10cfg{name: "json.Decode", kind: "json", depth: 1024, dec: func(na datamodel.NodeAssembler, in []byte) error { return json.Decode(na, bytes.NewReader(in)) }}
	case 2:
		return c10cfg{name: "raw.Decode", kind: "raw", dec: func(na datamodel.NodeAssembler, in []byte) error { return raw.Decode(na, bytes.NewReader(in)) }}
	case 3, 4, 5:
		o := dagjson.DecodeOptions{ParseLinks: rng.Bool(), ParseBytes: rng.Bool(), DontParseBeyondEnd: rng.Chance(1, 4)}
		d := []int64{0, 1, 2, 16}[rng.Intn(4)]
		o.MaxDepth = d
		eff := d
		if eff == 0 {
			eff = 1024
		}
		if rng.Chance(1, 4) {
			return c10cfg{name: "dagjson.Decode", kind: "dagjson", depth: 1024, dec: func(na datamodel.NodeAssembler, in []byte) error { return dagjson.Decode(na, bytes.NewReader(in)) }}
		}
		return c10cfg{name: fmt.Sprintf("dagjson%+v", o), kind: "dagjson", depth: eff, dec: func(na datamodel.NodeAssembler, in []byte) error { return o.Decode(na, bytes.NewReader(in)) }}
	default:
		o := dagcbor.DecodeOptions{AllowLinks: rng.Chance(3, 4), RelaxedDecode: rng.Chance(1, 3), DontParseBeyondEnd: rng.Chance(1, 4)}
		o.AllocationBudget = []int64{0, 1, 64, 4096}[rng.Intn(4)]
		o.MaxCollectionPrealloc = []int64{0, 1, 16, 1024, 1 << 20}[rng.Intn(5)]
		o.MaxDepth = []int64{0, 1, 2, 16}[rng.Intn(4)]
		b, d := o.AllocationBudget, o.MaxDepth
		if b == 0 {
			b = 10 << 20
		}
		if d == 0 {
			d = 1024
		}
		if rng.Chance(1, 6) {
			return c10cfg{name: "dagcbor.Decode", kind: "dagcbor", budget: 10 << 20, depth: 1024, dec: func(na datamodel.NodeAssembler, in []byte) error { return dagcbor.Decode(na, bytes.NewReader(in)) }}
		}
		pa := o.MaxCollectionPrealloc
		if pa == 0 {
			pa = 1024
		}
		return c10cfg{name: fmt.Sprintf("dagcbor%+v", o), kind: "dagcbor", budget: b, prealloc: pa, depth: d, dec: func(na datamodel.NodeAssembler, in []byte) error { return o.Decode(na, bytes.NewReader(in)) }}
	}
}

func be64(major byte, n uint64) []byte {
	return binary.BigEndian.AppendUint64([]byte{major<<5 | 27}, n)
}

// c10HostileCBOR builds structure-aware hostile CBOR.
func c10HostileCBOR(rng *fw.RNG, thorough bool) ([]byte, string) {
	bigs := []uint64{1<<64 - 1, 1 << 63, 1<<63 - 1, 1 << 62, 1 << 61, 1<<61 + 7, 1 << 60, 1<<32 - 1, 1 << 32, 1 << 31, 1 << 24, 1 << 20, 1<<16 + 1, 0x2000000000000001}
	big := bigs[rng.Intn(len(bigs))]
	switch rng.Intn(9) {
	case 0: // one header claiming a huge length, in each length position
		major := []byte{2, 3, 4, 5}[rng.Intn(4)]
		return append(be64(major, big), rng.Bytes(rng.Intn(8))...), fmt.Sprintf("major %d claims %d", major, big)
	case 1: // nested headers with huge claims (each level claims, then one element follows)
		depth := 1 + rng.Intn(40)
		major := []byte{4, 5}[rng.Intn(2)]
		var b []byte
		for i := 0; i < depth; i++ {
			b = append(b, be64(major, big)...)
			if major == 5 {
				b = append(b, 0x61, byte('a'+i%26))
			}
		}
		return append(b, 0x00), fmt.Sprintf("%d nested major-%d headers each claiming %d", depth, major, big)
	case 2: // nesting depth around the limit
		d := []int{0, 1, 2, 3, 15, 16, 17, 1023, 1024, 1025, 2000}[rng.Intn(11)]
		if rng.Bool() {
			return append(bytes.Repeat([]byte{0x81}, d), 0x00), fmt.Sprintf("%d nested one-element lists", d)
		}
		var b []byte
		for i := 0; i < d; i++ {
			b = append(b, 0xa1, 0x61, 'k')
		}
		return append(b, 0x00), fmt.Sprintf("%d nested one-entry maps", d)
	case 3: // many tiny items
		n := 1 << (8 + rng.Intn(9))
		if thorough && rng.Chance(1, 8) {
			n = 1 << 21
		}
		item := [][]byte{{0x00}, {0xa0}, {0x80}, {0x60}, {0xf6}}[rng.Intn(5)]
		b := binary.BigEndian.AppendUint32([]byte{0x9a}, uint32(n))
		return append(b, bytes.Repeat(item, n)...), fmt.Sprintf("list of %d items %x", n, item)
	case 4: // huge tags
		return append(be64(6, big), 0x00), "huge tag"
	case 5: // string claims slightly more than present
		n := rng.Intn(64)
		b := append([]byte{0x78, byte(n + 1 + rng.Intn(8))}, rng.Bytes(n)...)
		return b, "string claiming more than present"
	case 6: // map with many entries and long keys
		n := 1 << (4 + rng.Intn(8))
		b := binary.BigEndian.AppendUint32([]byte{0xba}, uint32(n))
		for i := 0; i < n; i++ {
			k := fmt.Sprintf("%08d", i)
			b = append(b, 0x68)
			b = append(b, k...)
			b = append(b, 0x00)
		}
		return b, fmt.Sprintf("map of %d entries", n)
	case 7: // large strings
		n := 1 << (10 + rng.Intn(8))
		if thorough && rng.Chance(1, 16) {
			n = 33 << 20
		}
		b := binary.BigEndian.AppendUint32([]byte{0x7a}, uint32(n))
		return append(b, bytes.Repeat([]byte{'s'}, n)...), fmt.Sprintf("string of %d bytes", n)
	default: // header claims in a prealloc-sensitive range followed by few items
		n := []uint64{1023, 1024, 1025, 1 << 20, 1<<20 + 1, 1 << 22}[rng.Intn(6)]
		major := []byte{4, 5}[rng.Intn(2)]
		b := binary.BigEndian.AppendUint32([]byte{major<<5 | 26}, uint32(n))
		return append(b, 0x00, 0x00), fmt.Sprintf("major %d claims %d, two items follow", major, n)
	}
}

// c10BudgetRelativeCBOR: nested collections whose declared lengths are chosen RELATIVE TO THE CONFIGURED
// BUDGET — each level claims a share of what a correct decoder has left (half, a third, all but one, or the
// preallocation cap) — nested as deep as the depth limit allows, after which the input simply ends. A decoder
// that compares a claim with the remaining budget but does not deduct it, or that preallocates per level what
// it should have charged once, stays inside the bound for any single header and leaves it only here
// (round-3 seed C10-9).
func c10BudgetRelativeCBOR(rng *fw.RNG, cfg c10cfg) ([]byte, string) {
	levels := 2 + rng.Intn(30)
	if rng.Chance(1, 3) {
		levels = int(cfg.depth) - rng.Intn(2)
	}
	if levels > 1100 {
		levels = 1100
	}
	if levels < 1 {
		levels = 1
	}
	major := []byte{4, 5}[rng.Intn(2)]
	mixed := rng.Chance(1, 3)
	remaining := cfg.budget
	var b []byte
	share := []int64{2, 3, 1}[rng.Intn(3)]
	for i := 0; i < levels; i++ {
		claim := remaining / share
		if share == 1 {
			claim = remaining - 1
		}
		if rng.Chance(1, 4) {
			claim = cfg.prealloc
		}
		if claim < 1 {
			claim = 1
		}
		mj := major
		if mixed && i%2 == 1 {
			mj = 9 - major
		}
		b = append(b, be64(mj, uint64(claim))[0]&0xe0|26)
		b = binary.BigEndian.AppendUint32(b, uint32(claim))
		if mj == 5 {
			b = append(b, 0x61, byte('a'+i%26))
		}
		if remaining > claim {
			remaining -= claim
		}
	}
	if rng.Bool() {
		b = append(b, 0x00)
	}
	return b, fmt.Sprintf("%d nested major-%d headers each claiming 1/%d of the remaining budget %d (prealloc cap %d), then the input ends", levels, major, share, cfg.budget, cfg.prealloc)
}

func c10HostileJSON(rng *fw.RNG) ([]byte, string) {
	d := []int{0, 1, 2, 3, 15, 16, 17, 1023, 1024, 1025, 3000}[rng.Intn(11)]
	switch rng.Intn(7) {
	case 0:
		return []byte(strings.Repeat("[", d) + "0" + strings.Repeat("]", d)), fmt.Sprintf("%d nested lists", d)
	case 1:
		return []byte(strings.Repeat(`{"k":`, d) + "0" + strings.Repeat("}", d)), fmt.Sprintf("%d nested maps", d)
	case 2: // links between levels
		var sb strings.Builder
		for i := 0; i < d; i++ {
			sb.WriteString(`[{"/":"bafkqaaa"},`)
		}
		sb.WriteString("0")
		sb.WriteString(strings.Repeat("]", d))
		return []byte(sb.String()), fmt.Sprintf("%d nested lists each preceded by a link", d)
	case 3: // bytes between levels in maps
		var sb strings.Builder
		for i := 0; i < d; i++ {
			sb.WriteString(`{"a":{"/":{"bytes":"AAEC"}},"z":`)
		}
		sb.WriteString("0")
		sb.WriteString(strings.Repeat("}", d))
		return []byte(sb.String()), fmt.Sprintf("%d nested maps each carrying a bytes entry", d)
	case 4: // N links then deep nesting
		n := rng.Intn(2000)
		return []byte("[" + strings.Repeat(`{"/":"bafkqaaa"},`, n) + strings.Repeat("[", d) + strings.Repeat("]", d) + "]"), fmt.Sprintf("%d links then %d nested lists", n, d)
	case 5: // unterminated deep nesting
		return []byte(strings.Repeat("[", d*3+1)), fmt.Sprintf("%d unterminated lists", d*3+1)
	default:
		n := 1 << (6 + rng.Intn(10))
		return []byte("[" + strings.Repeat("0,", n) + "0]"), fmt.Sprintf("list of %d numbers", n)
	}
}

var c10GenOpts = model.GenOpts{MaxDepth: 4, MaxWidth: 5, Uint: true, NonUTF8: true, Links: true}

func (c10) RunCase(c *fw.Ctx, rng *fw.RNG, batch, i int) {
	switch i % 4 {
	case 0, 1:
		c10Decoder(c, rng, i)
	case 2:
		c10Selector(c, rng)
	default:
		switch {
		case i%8 == 3:
			c10Path(c, rng)
		case i%16 == 7:
			c10TypedMutations(c, rng)
		default:
			c10Decoder(c, rng, i)
		}
	}
}

// c10TypedMutations: byte-level mutations of VALID representations of typed values, decoded into the typed
// (representation) builders — random type systems bound with bindnode (inferred and user-supplied Go types)
// and the declared Go type library with its narrow and unsigned integers. Hostile bytes that are almost
// right reach deep into the typed assemblers, where uniform random input dies at the first token.
// Monitors: no panic in the decode; a node that was accepted can be read in full without a panic.
func c10TypedMutations(c *fw.Ctx, rng *fw.RNG) {
	type target struct {
		name string
		ts   *rs.TypeSystem
		t    *rs.Type
		p    datamodel.NodePrototype // representation prototype
	}
	var targets []target
	if rng.Chance(1, 3) {
		if err := c19Init(); err != nil {
			return
		}
		name := c19DeclaredNames[rng.Intn(len(c19DeclaredNames))]
		g := c19DeclaredGo[name]
		var tp schema.TypedPrototype
		if c.Guard("C10:typed-mutations:bind", func() {
			tp = bindnode.Prototype(reflect.Zero(reflect.PointerTo(g)).Interface(), c19DeclaredLib.TypeByName(name))
		}) {
			return
		}
		targets = append(targets, target{"declared:" + name, c19Declared, c19Declared.T(name), tp.Representation()})
	} else {
		ts := schemagen.Gen(rng, schemagen.Opts{Types: 4 + rng.Intn(5)})
		lib, err := schemagen.ToLibrary(ts)
		if err != nil {
			return
		}
		eng := newBindEngine(lib)
		if rng.Bool() {
			eng = newShapedBindEngine(lib, ts, rng)
		}
		for _, t := range ts.Types {
			if t.Name[0] != 'T' {
				continue
			}
			if _, rp := eng.Proto(t.Name); rp != nil {
				targets = append(targets, target{eng.Name() + ":" + typeKindName(t), ts, t, rp})
			}
		}
	}
	var cur string
	c.SetCase(func() any { return map[string]any{"family": "typed-mutations", "current": cur} })
	for _, tg := range targets {
		typedmon.MutatedDecodes(c, tg.name, tg.ts, tg.t, tg.p, rng, &cur)
	}
}

func c10Decoder(c *fw.Ctx, rng *fw.RNG, i int) {
	cfg := c10DrawCfg(rng)
	thorough := c.Tier == "thorough"
	var in []byte
	var desc string
	structured := true
	isJSON := cfg.kind == "dagjson" || cfg.kind == "json"
	switch rng.Intn(6) {
	case 0:
		in, desc, structured = rng.Bytes(rng.Intn(64)), "uniform random", false
	case 1, 2:
		v := model.Gen(rng, c10GenOpts)
		if isJSON {
			var buf bytes.Buffer
			v = model.Gen(rng, model.GenOpts{MaxDepth: 4, MaxWidth: 5, Links: true})
			dagjson.Encode(fnode.New(v), &buf)
			in = buf.Bytes()
		} else {
			in = refcbor.Encode(v)
		}
		desc = "mutated valid encoding"
		for k := 0; k < 1+rng.Intn(3) && len(in) > 0; k++ {
			pos := rng.Intn(len(in))
			switch rng.Intn(4) {
			case 0:
				in[pos] ^= 1 << rng.Intn(8)
			case 1:
				in[pos] = byte(rng.U64())
			case 2:
				in = in[:pos]
			default:
				in = append(in[:pos:pos], append([]byte{byte(rng.U64())}, in[pos:]...)...)
			}
		}
	default:
		if isJSON {
			in, desc = c10HostileJSON(rng)
		} else if cfg.kind == "dagcbor" && cfg.prealloc > 0 && rng.Chance(1, 3) {
			in, desc = c10BudgetRelativeCBOR(rng, cfg)
		} else {
			in, desc = c10HostileCBOR(rng, thorough)
		}
	}
	c.SetCase(func() any {
		h := in
		if len(h) > 4096 {
			h = h[:4096]
		}
		return map[string]any{"family": "decoder", "config": cfg.name, "input": desc, "input_len": len(in), "input_hex_prefix": hex.EncodeToString(h)}
	})
	c.Seen(fw.HashString(string(in)+cfg.name), structured)
	if c.WantSample() && structured && len(in) < 80 {
		c.Sample(map[string]any{"config": cfg.name, "input": desc, "input_hex": hex.EncodeToString(in)})
	}
	c.Count("decodes:"+cfg.kind, 1)

	// target 1: recording assembler -> depth monitor
	rec, na := rasm.New()
	var err error
	if c.Guard("C10:decode:"+cfg.kind+":recorder", func() { err = cfg.dec(na, in) }) {
		return
	}
	if cfg.depth > 0 {
		c.Count("depth_checks", 1)
		c.Max("max_depth_seen", int64(rec.MaxDepth))
		if int64(rec.MaxDepth) > cfg.depth {
			c.Deviate("C10:depth-limit-exceeded:"+cfg.kind, fmt.Sprintf("%s built nesting depth %d with MaxDepth %d (err=%v); input: %s", cfg.name, rec.MaxDepth, cfg.depth, err, desc))
		}
	}
	if err == nil {
		c.Count("decode_ok", 1)
	} else {
		c.Count("decode_err", 1)
	}
	// target 2: basicnode, with the allocation monitor on a sample
	measure := structured && (i%3 == 0 || len(in) > 4096)
	var before, after runtime.MemStats
	nb := basicnode.Prototype.Any.NewBuilder()
	if measure {
		runtime.ReadMemStats(&before)
	}
	if c.Guard("C10:decode:"+cfg.kind+":basicnode", func() { err = cfg.dec(nb, in) }) {
		return
	}
	if measure {
		runtime.ReadMemStats(&after)
		delta := int64(after.TotalAlloc - before.TotalAlloc)
		c.Count("alloc_checks", 1)
		var bound int64
		switch cfg.kind {
		case "dagcbor", "cbor":
			bound = 256*cfg.budget + 1024*int64(len(in)) + 1<<20
			if cfg.budget > 0 {
				c.Max("max_alloc_per_budget_unit_x1000", delta*1000/(cfg.budget+4*int64(len(in))+4096))
			}
		case "dagjson", "json":
			bound = 4096*int64(len(in)) + 1<<20
			c.Max("max_alloc_per_input_byte_json", delta/int64(len(in)+256))
		default:
			bound = 64*int64(len(in)) + 1<<20
		}
		if delta > bound {
			c.Deviate("C10:allocation-bound-exceeded:"+cfg.kind, fmt.Sprintf("%s allocated %d bytes decoding a %d-byte input (bound %d = f(budget %d, input length)); err=%v; input: %s", cfg.name, delta, len(in), bound, cfg.budget, err, desc))
		}
	}
	// typed targets (panic monitor only)
	if i%5 == 0 {
		c12Init()
		for _, t := range []struct {
			name  string
			proto datamodel.NodePrototype
		}{
			{"gendemo.Msg3", gendemo.Type.Msg3}, {"gendemo.Msg3.Repr", gendemo.Type.Msg3__Repr},
			{"gendemo.Map", gendemo.Type.Map__String__Msg3}, {"gendemo.Map.Repr", gendemo.Type.Map__String__Msg3__Repr},
			{"gendemo.UnionKinded", gendemo.Type.UnionKinded}, {"gendemo.UnionKinded.Repr", gendemo.Type.UnionKinded__Repr},
			{c12Targets[5].name, c12Targets[5].proto}, {c12Targets[7].name, c12Targets[7].proto}, {c12Targets[8].name, c12Targets[8].proto},
			{c12Targets[9].name, c12Targets[9].proto}, {c12Targets[10].name, c12Targets[10].proto}, {c12Targets[11].name, c12Targets[11].proto},
		} {
			tb := t.proto.NewBuilder()
			c.Guard("C10:decode:"+cfg.kind+":"+t.name, func() { cfg.dec(tb, in) })
			c.Count("typed_target_decodes", 1)
		}
	}
}

func c10Path(c *fw.Ctx, rng *fw.RNG) {
	var s string
	switch rng.Intn(5) {
	case 0:
		s = string(rng.Bytes(rng.Intn(40)))
	case 1:
		s = strings.Repeat("/", rng.Intn(2000))
	case 2:
		s = strings.Repeat("a/", rng.Intn(5000))
	case 3:
		s = model.GenString(rng, true) + "/" + model.GenString(rng, true) + "//" + model.GenString(rng, true)
	default:
		s = fmt.Sprintf("%d/%d/-%d/%s", rng.U64(), rng.Intn(10), rng.U64(), "99999999999999999999999")
	}
	c.SetCase(func() any {
		return map[string]any{"family": "path", "input_hex": hex.EncodeToString([]byte(clipS(s, 2000)))}
	})
	c.Seen(fw.HashString("path"+s), len(s) > 0)
	c.Guard("C10:ParsePath", func() {
		p := datamodel.ParsePath(s)
		_ = p.String()
		for _, seg := range p.Segments() {
			seg.Index()
			_ = seg.String()
		}
		p.Len()
		c.Count("parsepath_calls", 1)
	})
}

// c10TimeProbe: decode time must not depend super-linearly on the ARRANGEMENT of an input that fits the
// configured budgets. For each decoder the same N map entries are decoded in canonical order (baseline, best
// of three) and in adversarial arrangements (descending, shuffled, descending-by-length); an arrangement that
// has not finished after 60× the baseline + 2 s is reported. The clock only compares the decoder with itself
// in the same process, with a margin far beyond scheduling noise.
func c10TimeProbe([]string) int {
	const n = 100000
	keys := make([]string, n)
	for i := range keys {
		keys[i] = fmt.Sprintf("k%06d", i)
	}
	arrange := map[string]func() []string{
		"descending": func() []string {
			out := make([]string, n)
			for i := range out {
				out[i] = keys[n-1-i]
			}
			return out
		},
		"shuffled": func() []string {
			out := append([]string(nil), keys...)
			r := fw.NewRNG(12345)
			for i := len(out) - 1; i > 0; i-- {
				j := r.Intn(i + 1)
				out[i], out[j] = out[j], out[i]
			}
			return out
		},
		"interleaved-ends": func() []string {
			out := make([]string, 0, n)
			for i, j := 0, n-1; i <= j; i, j = i+1, j-1 {
				out = append(out, keys[j])
				if i != j {
					out = append(out, keys[i])
				}
			}
			return out
		},
	}
	minHead := func(major byte, n uint64) []byte {
		switch {
		case n < 24:
			return []byte{major<<5 | byte(n)}
		case n < 1<<8:
			return []byte{major<<5 | 24, byte(n)}
		case n < 1<<16:
			return []byte{major<<5 | 25, byte(n >> 8), byte(n)}
		case n < 1<<32:
			return []byte{major<<5 | 26, byte(n >> 24), byte(n >> 16), byte(n >> 8), byte(n)}
		}
		return be64(major, n)
	}
	encCBOR := func(ks []string) []byte {
		out := minHead(5, uint64(len(ks)))
		for _, k := range ks {
			out = append(out, minHead(3, uint64(len(k)))...)
			out = append(out, k...)
			out = append(out, 0x01)
		}
		return out
	}
	encJSON := func(ks []string) []byte {
		var b bytes.Buffer
		b.WriteByte('{')
		for i, k := range ks {
			if i > 0 {
				b.WriteByte(',')
			}
			fmt.Fprintf(&b, "%q:1", k)
		}
		b.WriteByte('}')
		return b.Bytes()
	}
	decoders := []struct {
		name string
		enc  func([]string) []byte
		dec  func([]byte) error
	}{
		{"dagcbor-strict", encCBOR, func(in []byte) error {
			return dagcbor.Decode(basicnode.Prototype.Any.NewBuilder(), bytes.NewReader(in))
		}},
		{"dagcbor-relaxed", encCBOR, func(in []byte) error {
			return dagcbor.DecodeOptions{AllowLinks: true, RelaxedDecode: true}.Decode(basicnode.Prototype.Any.NewBuilder(), bytes.NewReader(in))
		}},
		{"dagjson", encJSON, func(in []byte) error {
			return dagjson.Decode(basicnode.Prototype.Any.NewBuilder(), bytes.NewReader(in))
		}},
	}
	for _, d := range decoders {
		canon := d.enc(keys)
		base := time.Duration(1 << 62)
		for k := 0; k < 3; k++ {
			t0 := time.Now()
			if err := d.dec(canon); err != nil {
				fmt.Printf("{\"Decoder\":%q,\"Shape\":\"canonical-rejected: %s\"}\n", d.name, strings.ReplaceAll(err.Error(), "\"", "'"))
				base = 0
				break
			}
			if el := time.Since(t0); el < base {
				base = el
			}
		}
		if base == 0 {
			continue
		}
		for _, shape := range []string{"descending", "shuffled", "interleaved-ends"} {
			in := d.enc(arrange[shape]())
			deadline := 60*base + 2*time.Second
			done := make(chan time.Duration, 1)
			go func() {
				t0 := time.Now()
				d.dec(in)
				done <- time.Since(t0)
			}()
			var el time.Duration
			exceeded := false
			select {
			case el = <-done:
			case <-time.After(deadline):
				el, exceeded = deadline, true
			}
			fmt.Printf("{\"Decoder\":%q,\"Shape\":%q,\"N\":%d,\"Seconds\":%.3f,\"Base\":%.4f,\"Factor\":%.2f,\"Exceeded\":%v}\n",
				d.name, shape, n, el.Seconds(), base.Seconds(), el.Seconds()/base.Seconds(), exceeded)
			if exceeded {
				return 0 // the decode goroutine is still burning a core; end the process
			}
		}
	}
	return 0
}
