package props

// Per-input entry points shared by (a) the coverage-guided fuzz targets in /verif/fuzzc, which run the checks'
// own monitors on inputs chosen by Go's fuzzing engine, and (b) the corpus replay inside the checks, which
// re-executes the corpus those campaigns distilled (committed under fuzzc/testdata/fuzz/<Target>/) as a
// fixed, deterministic case list. The engine only chooses inputs; the verdict is always the monitor's.

import (
	"bytes"
	"fmt"
	"math"
	"os"
	"path/filepath"
	"sort"
	"strconv"
	"strings"
	"sync"
	"unicode/utf8"

	"github.com/ipld/go-ipld-prime/codec/cbor"
	"github.com/ipld/go-ipld-prime/codec/dagcbor"
	"github.com/ipld/go-ipld-prime/codec/dagjson"
	"github.com/ipld/go-ipld-prime/codec/json"
	"github.com/ipld/go-ipld-prime/codec/raw"
	"github.com/ipld/go-ipld-prime/datamodel"
	"github.com/ipld/go-ipld-prime/linking"
	"github.com/ipld/go-ipld-prime/node/basicnode"
	"github.com/ipld/go-ipld-prime/node/gendemo"
	"github.com/ipld/go-ipld-prime/traversal"
	"github.com/ipld/go-ipld-prime/traversal/selector"

	"verif/lib/build"
	"verif/lib/fnode"
	"verif/lib/fw"
	"verif/lib/graphgen"
	"verif/lib/model"
	"verif/lib/obs"
	"verif/lib/rasm"
	refcbor "verif/lib/ref/cbor"
	rs "verif/lib/ref/schema"
	"verif/lib/schemagen"
	"verif/lib/selgen"
	"verif/lib/typedmon"
)

// FuzzTarget is one per-input monitor bundle.
type FuzzTarget struct {
	Name string // Go fuzz function name (FuzzXxx) and corpus directory
	Prop string // property whose signatures/known findings apply
	Run  func(c *fw.Ctx, data []byte)
	Seed func() [][]byte // seed corpus (valid, structured inputs the engine mutates from)
}

const fuzzMaxInput = 1 << 14

var FuzzTargets = []FuzzTarget{
	{"FuzzC03Decode", "C03", fuzzC03, seedCBOR},
	{"FuzzC10Cbor", "C10", fuzzC10Cbor, func() [][]byte {
		return prefixAll(seedCBOR(), []byte{0x00, 0x00}, []byte{0xff, 0x03}, []byte{0x15, 0x02})
	}},
	{"FuzzC10Json", "C10", fuzzC10Json, func() [][]byte { return prefixAll(seedJSON(), []byte{0x00}, []byte{0x0f}, []byte{0x35}) }},
	{"FuzzC10Selector", "C10", fuzzC10Selector, seedSelectors},
	{"FuzzC04Roundtrip", "C04", fuzzC04, seedJSON},
	{"FuzzC09Typed", "C09", fuzzC09Typed, seedTyped},
	{"FuzzC14Path", "C14", fuzzC14Path, func() [][]byte {
		return [][]byte{[]byte("a/b/c"), []byte("0/1/2"), []byte("/a//b/"), []byte("a/-/01/+1/-1"), []byte("é/😀/\x00"), []byte("18446744073709551616/9223372036854775807")}
	}},
}

func LookupFuzzTarget(name string) *FuzzTarget {
	for i := range FuzzTargets {
		if FuzzTargets[i].Name == name {
			return &FuzzTargets[i]
		}
	}
	return nil
}

func prefixAll(in [][]byte, prefixes ...[]byte) [][]byte {
	var out [][]byte
	for i, b := range in {
		p := prefixes[i%len(prefixes)]
		out = append(out, append(append([]byte(nil), p...), b...))
	}
	return out
}

func seedCBOR() [][]byte {
	var out [][]byte
	r := fw.NewRNG(0xC0FFEE)
	for i := 0; i < 40; i++ {
		v := model.Gen(r, model.GenOpts{MaxDepth: 3, MaxWidth: 4, Uint: true, NonUTF8: true, Links: true})
		out = append(out, refcbor.Encode(v))
	}
	return out
}

func seedJSON() [][]byte {
	var out [][]byte
	r := fw.NewRNG(0xBEEF)
	for i := 0; i < 40; i++ {
		var v model.Val
		if i%5 == 0 {
			v = c04NearReserved(r)
		} else {
			v = model.Gen(r, model.GenOpts{MaxDepth: 3, MaxWidth: 4, Links: true, AvoidJSONReserved: true})
		}
		var buf bytes.Buffer
		if dagjson.Encode(fnode.New(v), &buf) == nil {
			out = append(out, buf.Bytes())
		}
	}
	for _, d := range c04BadDocs {
		out = append(out, []byte(d))
	}
	return out
}

func seedSelectors() [][]byte {
	var out [][]byte
	r := fw.NewRNG(0x5E1)
	for i := 0; i < 60; i++ {
		s := selgen.Gen(r, selgen.Opts{MaxDepth: 4, Keys: []string{"a", "b", "l", "0"}, MaxIndex: 4, Hostile: i%3 == 0})
		var buf bytes.Buffer
		if dagjson.Encode(fnode.New(s.Spec()), &buf) == nil {
			out = append(out, buf.Bytes())
		}
	}
	return out
}

// ---- C03 --------------------------------------------------------------------------------------------

func fuzzC03(c *fw.Ctx, in []byte) {
	if len(in) > fuzzMaxInput {
		return
	}
	c03Check(c, in, c03Strict, true)
	c03Check(c, in, c03Relaxed, false)
	c03Check(c, in, c03NoEnd, false)
	c03Check(c, in, c03NoLinks, false)
}

// ---- C10 decoders -------------------------------------------------------------------------------------

var fuzzTypedOnce sync.Once

func fuzzTypedTargets() []struct {
	name  string
	proto datamodel.NodePrototype
} {
	fuzzTypedOnce.Do(c12Init)
	out := []struct {
		name  string
		proto datamodel.NodePrototype
	}{
		{"gendemo.Msg3", gendemo.Type.Msg3}, {"gendemo.Msg3.Repr", gendemo.Type.Msg3__Repr},
		{"gendemo.Map", gendemo.Type.Map__String__Msg3}, {"gendemo.Map.Repr", gendemo.Type.Map__String__Msg3__Repr},
		{"gendemo.UnionKinded", gendemo.Type.UnionKinded}, {"gendemo.UnionKinded.Repr", gendemo.Type.UnionKinded__Repr},
	}
	for _, k := range []int{5, 7, 8, 9, 10, 11} {
		if k < len(c12Targets) {
			out = append(out, struct {
				name  string
				proto datamodel.NodePrototype
			}{c12Targets[k].name, c12Targets[k].proto})
		}
	}
	return out
}

func fuzzDecodeMonitors(c *fw.Ctx, kind, name string, depth int64, dec func(na datamodel.NodeAssembler, in []byte) error, in []byte) {
	c.Count("decodes:"+kind, 1)
	rec, na := rasm.New()
	var err error
	if c.Guard("C10:decode:"+kind+":recorder", func() { err = dec(na, in) }) {
		return
	}
	if depth > 0 {
		c.Count("depth_checks", 1)
		if int64(rec.MaxDepth) > depth {
			c.Deviate("C10:depth-limit-exceeded:"+kind, fmt.Sprintf("%s built nesting depth %d with MaxDepth %d (err=%v); input %x", name, rec.MaxDepth, depth, err, clipN(in, 200)))
		}
	}
	nb := basicnode.Prototype.Any.NewBuilder()
	if c.Guard("C10:decode:"+kind+":basicnode", func() { err = dec(nb, in) }) {
		return
	}
	if err == nil {
		// an accepted node can be read in full
		c.Guard("C10:read-accepted:"+kind, func() { obs.ReadOut(nb.Build(), obs.Options{Light: true}) })
	}
	for _, t := range fuzzTypedTargets() {
		tb := t.proto.NewBuilder()
		var terr error
		if !c.Guard("C10:decode:"+kind+":"+t.name, func() { terr = dec(tb, in) }) && terr == nil {
			c.Guard("C10:read-accepted-typed:"+kind+":"+t.name, func() {
				n := tb.Build()
				obs.ReadOut(n, obs.Options{Typed: true, NoWrongKindProbes: true, Light: true})
				obs.ReadOut(typedmon.Repr(n), obs.Options{Typed: true, NoWrongKindProbes: true, Light: true})
			})
		}
	}
}

func clipN(b []byte, n int) []byte {
	if len(b) > n {
		return b[:n]
	}
	return b
}

// fuzzC10Cbor: byte 0 and 1 choose the decoder configuration, the rest is the input.
func fuzzC10Cbor(c *fw.Ctx, data []byte) {
	if len(data) < 2 || len(data) > fuzzMaxInput {
		return
	}
	f, g, in := data[0], data[1], data[2:]
	if f&0x80 != 0 && g&0x80 != 0 {
		fuzzDecodeMonitors(c, "cbor", "cbor.Decode", 1024, func(na datamodel.NodeAssembler, in []byte) error { return cbor.Decode(na, bytes.NewReader(in)) }, in)
		fuzzDecodeMonitors(c, "raw", "raw.Decode", 0, func(na datamodel.NodeAssembler, in []byte) error { return raw.Decode(na, bytes.NewReader(in)) }, in)
		return
	}
	o := dagcbor.DecodeOptions{AllowLinks: f&1 == 0, RelaxedDecode: f&2 != 0, DontParseBeyondEnd: f&4 != 0}
	o.AllocationBudget = []int64{0, 1, 64, 4096}[(f>>3)&3]
	o.MaxDepth = []int64{0, 1, 2, 16}[(f>>5)&3]
	o.MaxCollectionPrealloc = []int64{0, 1, 16, 1 << 20}[g&3]
	d := o.MaxDepth
	if d == 0 {
		d = 1024
	}
	fuzzDecodeMonitors(c, "dagcbor", fmt.Sprintf("dagcbor%+v", o), d, func(na datamodel.NodeAssembler, in []byte) error { return o.Decode(na, bytes.NewReader(in)) }, in)
}

func fuzzC10Json(c *fw.Ctx, data []byte) {
	if len(data) < 1 || len(data) > fuzzMaxInput {
		return
	}
	f, in := data[0], data[1:]
	if f&0x80 != 0 {
		fuzzDecodeMonitors(c, "json", "json.Decode", 1024, func(na datamodel.NodeAssembler, in []byte) error { return json.Decode(na, bytes.NewReader(in)) }, in)
		return
	}
	o := dagjson.DecodeOptions{ParseLinks: f&1 == 0, ParseBytes: f&2 == 0, DontParseBeyondEnd: f&4 != 0}
	o.MaxDepth = []int64{0, 1, 2, 16}[(f>>3)&3]
	d := o.MaxDepth
	if d == 0 {
		d = 1024
	}
	fuzzDecodeMonitors(c, "dagjson", fmt.Sprintf("dagjson%+v", o), d, func(na datamodel.NodeAssembler, in []byte) error { return o.Decode(na, bytes.NewReader(in)) }, in)
}

// ---- C10 selectors -------------------------------------------------------------------------------------

var (
	fuzzSelOnce  sync.Once
	fuzzSelRoots []datamodel.Node
	fuzzSelCfg   *traversal.Config
)

func fuzzSelInit() {
	r := fw.NewRNG(0xF00D)
	for len(fuzzSelRoots) < 3 {
		g := graphgen.Gen(r, graphgen.Opts{MaxBlocks: 4, MaxDepth: 3, MaxWidth: 4, OddKeys: true, RawBlocks: true, Missing: 1})
		root := g.Root
		if len(fuzzSelRoots) == 1 {
			over := model.MakeCID(1, 0x71, 0x12, r.Bytes(40))
			root = model.List(root, model.Link(over), model.Map(model.E("a", model.Link(over)), model.E("b", model.Bytes([]byte("0123456789"))), model.E("l", model.String("héllo wörld"))))
		}
		n, err := build.Plain(basicnode.Prototype.Any, root)
		if err != nil {
			continue
		}
		fuzzSelRoots = append(fuzzSelRoots, n)
		if fuzzSelCfg == nil {
			lsys := c10HostileLinkSystem(r, g)
			fuzzSelCfg = &traversal.Config{LinkSystem: lsys, LinkTargetNodePrototypeChooser: func(datamodel.Link, linking.LinkContext) (datamodel.NodePrototype, error) {
				return basicnode.Prototype.Any, nil
			}}
		}
	}
}

func fuzzC10Selector(c *fw.Ctx, data []byte) {
	if len(data) > 4096 {
		return
	}
	fuzzSelOnce.Do(fuzzSelInit)
	nb := basicnode.Prototype.Any.NewBuilder()
	if err := dagjson.Decode(nb, bytes.NewReader(data)); err != nil {
		nb = basicnode.Prototype.Any.NewBuilder()
		if err := dagcbor.Decode(nb, bytes.NewReader(data)); err != nil {
			return
		}
	}
	spec := nb.Build()
	var sel selector.Selector
	var err error
	c.Count("selector_compiles", 1)
	if c.Guard("C10:CompileSelector", func() { sel, err = selector.CompileSelector(spec) }) {
		return
	}
	if err != nil || sel == nil {
		return
	}
	c.Count("selectors_compiled_ok", 1)
	for _, root := range fuzzSelRoots {
		c10WalkAll(c, sel, root, fuzzSelCfg)
	}
}

// ---- C04 -------------------------------------------------------------------------------------------------

// fuzzC04: the text is decoded by the library; when it denotes a value of C04's domain, every C04 monitor
// runs on that value (the engine thereby chooses VALUES through their text, e.g. shapes next to the reserved ones).
func fuzzC04(c *fw.Ctx, data []byte) {
	if len(data) > 4096 {
		return
	}
	nb := basicnode.Prototype.Any.NewBuilder()
	var err error
	if c.Guard("C04:decode", func() { err = dagjson.Decode(nb, bytes.NewReader(data)) }) || err != nil {
		return
	}
	ro := obs.ReadOut(nb.Build(), obs.Options{Light: true})
	v := ro.Val
	ok := true
	v.Walk(func(x model.Val) {
		switch x.K {
		case model.KUint:
			ok = false
		case model.KFloat:
			if math.IsNaN(x.F) || math.IsInf(x.F, 0) {
				ok = false
			}
		case model.KString:
			if !utf8.ValidString(x.S) {
				ok = false
			}
		case model.KMap:
			for _, e := range x.M {
				if !utf8.ValidString(e.K) {
					ok = false
				}
			}
		}
	})
	if !ok {
		return
	}
	c.Count("corpus_values_in_domain", 1)
	c04CheckValue(c, fw.NewRNG(fw.HashString(string(data))), v, "from-text", 1)
}

// ---- C09 (typed decode against the reference conformance) -----------------------------------------------

type fuzzTS struct {
	ts    *rs.TypeSystem
	eng   *bindEngine
	types []*rs.Type
}

var (
	fuzzTSOnce sync.Once
	fuzzTSs    []fuzzTS
)

func fuzzTSInit() {
	for k := 0; len(fuzzTSs) < 12 && k < 64; k++ {
		r := fw.NewRNG(fw.Mix(0x7175, uint64(k)))
		ts := schemagen.Gen(r, schemagen.Opts{Types: 6 + k%5})
		lib, err := schemagen.ToLibrary(ts)
		if err != nil {
			continue
		}
		f := fuzzTS{ts: ts, eng: newBindEngine(lib)}
		for _, t := range ts.Types {
			if t.Name[0] != 'T' {
				continue
			}
			if typed, _ := f.eng.Proto(t.Name); typed != nil {
				f.types = append(f.types, t)
			}
		}
		if len(f.types) > 0 {
			fuzzTSs = append(fuzzTSs, f)
		}
	}
}

func seedTyped() [][]byte {
	fuzzTSOnce.Do(fuzzTSInit)
	var out [][]byte
	r := fw.NewRNG(0x7E57)
	for k, f := range fuzzTSs {
		for ti, t := range f.types {
			for q := 0; q < 2; q++ {
				tv := schemagen.GenValue(r, f.ts, t, 0)
				rv, err := f.ts.ReprOf(t, tv)
				if err != nil {
					continue
				}
				out = append(out, append([]byte{byte(k), byte(ti)}, refcbor.Encode(rv)...))
			}
		}
	}
	return out
}

// fuzzC09Typed: bytes 0 and 1 choose a type of a fixed family of type systems; the rest is DAG-CBOR. Whatever
// value the bytes denote (decoded generically) is fed, through the codec, into the representation builder of
// that type: accept/reject must equal the reference conformance, an accepted node must read as the value the
// reference says the input denotes, and nothing may panic.
func fuzzC09Typed(c *fw.Ctx, data []byte) {
	if len(data) < 3 || len(data) > 4096 {
		return
	}
	fuzzTSOnce.Do(fuzzTSInit)
	f := fuzzTSs[int(data[0])%len(fuzzTSs)]
	t := f.types[int(data[1])%len(f.types)]
	in := data[2:]
	v, ok, _ := refcbor.Decode(in, refcbor.Options{AllowLinks: true})
	if !ok {
		return
	}
	c.Count("typed_inputs", 1)
	typedmon.CheckConformanceViaCodec(c, f.eng, f.ts, t, v, "dag-cbor", "fuzz")
	if !typedmon.HasStructKeys(f.ts, t) {
		typedmon.CheckConformance(c, f.eng, f.ts, t, v, true, "fuzz")
		typedmon.CheckConformance(c, f.eng, f.ts, t, v, false, "fuzz")
	}
}

// ---- C14 (path text) ------------------------------------------------------------------------------------

func fuzzC14Path(c *fw.Ctx, data []byte) {
	if len(data) > 2048 {
		return
	}
	s := string(data)
	c.Guard("C10:ParsePath", func() {
		p := datamodel.ParsePath(s)
		c.Count("parsepath_calls", 1)
		segs := p.Segments()
		clean := true
		for _, sg := range segs {
			str := sg.String()
			if str == "" || strings.Contains(str, "/") {
				clean = false
			}
			sg.Index()
		}
		// the segments are exactly the non-empty pieces between slashes
		var want []string
		for _, piece := range strings.Split(s, "/") {
			if piece != "" {
				want = append(want, piece)
			}
		}
		if len(want) != len(segs) {
			c.Deviate("C14:parsepath-segments-differ", fmt.Sprintf("ParsePath(%q) has %d segments, the text has %d non-empty pieces", s, len(segs), len(want)))
			return
		}
		for i := range want {
			if segs[i].String() != want[i] {
				c.Deviate("C14:parsepath-segments-differ", fmt.Sprintf("ParsePath(%q) segment %d is %q, the text says %q", s, i, segs[i].String(), want[i]))
				return
			}
		}
		if clean {
			q := datamodel.ParsePath(p.String())
			if q.Len() != p.Len() {
				c.Deviate("C14:string-roundtrip-differs", fmt.Sprintf("ParsePath(ParsePath(%q).String()) has %d segments, not %d", s, q.Len(), p.Len()))
				return
			}
			qs := q.Segments()
			for i := range segs {
				if qs[i].String() != segs[i].String() || !qs[i].Equals(segs[i]) {
					c.Deviate("C14:string-roundtrip-differs", fmt.Sprintf("%q: segment %d %q became %q", s, i, segs[i].String(), qs[i].String()))
					return
				}
			}
		}
	})
}

// ---- corpus on disk ---------------------------------------------------------------------------------------

// LoadFuzzCorpus reads fuzzc/testdata/fuzz/<target>/* (Go's corpus file format, one []byte value) in name order.
func LoadFuzzCorpus(root, target string) (names []string, inputs [][]byte) {
	dir := filepath.Join(root, "fuzzc", "testdata", "fuzz", target)
	ents, err := os.ReadDir(dir)
	if err != nil {
		return nil, nil
	}
	sort.Slice(ents, func(i, j int) bool { return ents[i].Name() < ents[j].Name() })
	for _, e := range ents {
		b, err := os.ReadFile(filepath.Join(dir, e.Name()))
		if err != nil {
			continue
		}
		lines := strings.Split(strings.TrimSpace(string(b)), "\n")
		if len(lines) != 2 || !strings.HasPrefix(lines[0], "go test fuzz v1") {
			continue
		}
		l := strings.TrimSpace(lines[1])
		if !strings.HasPrefix(l, "[]byte(") || !strings.HasSuffix(l, ")") {
			continue
		}
		s, err := strconv.Unquote(l[len("[]byte(") : len(l)-1])
		if err != nil {
			continue
		}
		names = append(names, e.Name())
		inputs = append(inputs, []byte(s))
	}
	return
}

type corpusEntry struct {
	target string
	name   string
	in     []byte
}

var (
	corpusMu    sync.Mutex
	corpusCache = map[string][]corpusEntry{}
)

// corpusSlice returns the corpus entries of the given targets that belong to this batch (entry k of a
// target goes to batch k mod batches), in a fixed order.
func corpusSlice(batch, batches int, targets ...string) []corpusEntry {
	key := fmt.Sprintf("%d/%d/%s", batch, batches, strings.Join(targets, ","))
	corpusMu.Lock()
	defer corpusMu.Unlock()
	if v, ok := corpusCache[key]; ok {
		return v
	}
	root := os.Getenv("VERIF_ROOT")
	if root == "" {
		root = "/verif"
	}
	var out []corpusEntry
	for _, t := range targets {
		names, inputs := LoadFuzzCorpus(root, t)
		for k := range inputs {
			if k%batches == batch {
				out = append(out, corpusEntry{t, names[k], inputs[k]})
			}
		}
	}
	corpusCache[key] = out
	return out
}

func runCorpusEntry(c *fw.Ctx, e corpusEntry) {
	ft := LookupFuzzTarget(e.target)
	c.SetCase(func() any {
		return map[string]any{"family": "fuzz-corpus", "target": e.target, "file": e.name, "input_hex": fmt.Sprintf("%x", clipN(e.in, 2048))}
	})
	c.Count("corpus_inputs:"+e.target, 1)
	ft.Run(c, e.in)
}

// The checks whose input spaces the campaigns explore replay their corpus slice after the generated cases.
func (p c03) CorpusLen(c *fw.Ctx, batch int) int {
	return len(corpusSlice(batch, p.Plan(c.Tier).Batches, "FuzzC03Decode"))
}
func (p c03) RunCorpusEntry(c *fw.Ctx, batch, k int) {
	runCorpusEntry(c, corpusSlice(batch, p.Plan(c.Tier).Batches, "FuzzC03Decode")[k])
}
func (p c04) CorpusLen(c *fw.Ctx, batch int) int {
	return len(corpusSlice(batch, p.Plan(c.Tier).Batches, "FuzzC04Roundtrip"))
}
func (p c04) RunCorpusEntry(c *fw.Ctx, batch, k int) {
	runCorpusEntry(c, corpusSlice(batch, p.Plan(c.Tier).Batches, "FuzzC04Roundtrip")[k])
}
func (p c09) CorpusLen(c *fw.Ctx, batch int) int {
	return len(corpusSlice(batch, p.Plan(c.Tier).Batches, "FuzzC09Typed"))
}
func (p c09) RunCorpusEntry(c *fw.Ctx, batch, k int) {
	runCorpusEntry(c, corpusSlice(batch, p.Plan(c.Tier).Batches, "FuzzC09Typed")[k])
}
func (p c10) CorpusLen(c *fw.Ctx, batch int) int {
	return len(corpusSlice(batch, p.Plan(c.Tier).Batches, "FuzzC10Cbor", "FuzzC10Json", "FuzzC10Selector"))
}
func (p c10) RunCorpusEntry(c *fw.Ctx, batch, k int) {
	runCorpusEntry(c, corpusSlice(batch, p.Plan(c.Tier).Batches, "FuzzC10Cbor", "FuzzC10Json", "FuzzC10Selector")[k])
}
func (p c14) CorpusLen(c *fw.Ctx, batch int) int {
	return len(corpusSlice(batch, p.Plan(c.Tier).Batches, "FuzzC14Path"))
}
func (p c14) RunCorpusEntry(c *fw.Ctx, batch, k int) {
	runCorpusEntry(c, corpusSlice(batch, p.Plan(c.Tier).Batches, "FuzzC14Path")[k])
}
