package props

import (
	"errors"
	"fmt"
	"io"
	"strings"

	"github.com/ipld/go-ipld-prime/datamodel"
	"github.com/ipld/go-ipld-prime/linking"
	"github.com/ipld/go-ipld-prime/node/basicnode"
	"github.com/ipld/go-ipld-prime/traversal"
	"github.com/ipld/go-ipld-prime/traversal/selector"

	"verif/lib/build"
	"verif/lib/fnode"
	"verif/lib/fw"
	"verif/lib/graphgen"
	"verif/lib/model"
	"verif/lib/obs"
	"verif/lib/selgen"
)

// travVisit is one observed visit.
type travVisit struct {
	P      datamodel.Path // the Progress.Path value itself, kept beyond the callback
	Path   string
	Segs   []string
	Reason traversal.VisitReason
	Val    model.Val
	Node   datamodel.Node
}

func (v travVisit) String() string {
	r := "candidate"
	if v.Reason == traversal.VisitReason_SelectionMatch {
		r = "match"
	}
	return fmt.Sprintf("<%s> %s %s", v.Path, r, clipS(v.Val.Dump(), 60))
}

type travLoad struct {
	Link string
	Path string
}

type travRun struct {
	Visits []travVisit
	Loads  []travLoad
	Err    error
}

type travCfg struct {
	NodeBudget, LinkBudget int64 // <0 = none
	StartAt                *datamodel.Path
	VisitOnce              bool
	Skip                   map[string]bool
	Matching               bool // WalkMatching instead of WalkAdv
}

func pathSegs(p datamodel.Path) []string {
	segs := p.Segments()
	out := make([]string, len(segs))
	for i, s := range segs {
		out[i] = s.String()
	}
	return out
}

func segsPrefix(prefix, of []string) bool {
	if len(prefix) > len(of) {
		return false
	}
	for i := range prefix {
		if prefix[i] != of[i] {
			return false
		}
	}
	return true
}

// travWalk runs one walk over the graph and records what the callbacks and the storage see.
func travWalk(g *graphgen.Graph, root datamodel.Node, sel selector.Selector, tc travCfg) travRun {
	lsys, log := g.LinkSystem()
	var run travRun
	lsys.StorageReadOpener = wrapOpener(lsys.StorageReadOpener, &run, tc.Skip)
	_ = log
	cfg := &traversal.Config{LinkSystem: lsys, LinkVisitOnlyOnce: tc.VisitOnce,
		LinkTargetNodePrototypeChooser: func(datamodel.Link, linking.LinkContext) (datamodel.NodePrototype, error) {
			return basicnode.Prototype.Any, nil
		}}
	if tc.StartAt != nil {
		cfg.StartAtPath = *tc.StartAt
	}
	prog := traversal.Progress{Cfg: cfg}
	if tc.NodeBudget >= 0 || tc.LinkBudget >= 0 {
		b := &traversal.Budget{NodeBudget: 1 << 40, LinkBudget: 1 << 40}
		if tc.NodeBudget >= 0 {
			b.NodeBudget = tc.NodeBudget
		}
		if tc.LinkBudget >= 0 {
			b.LinkBudget = tc.LinkBudget
		}
		prog.Budget = b
	}
	rec := func(p traversal.Progress, n datamodel.Node, r traversal.VisitReason) error {
		run.Visits = append(run.Visits, travVisit{P: p.Path, Path: p.Path.String(), Segs: pathSegs(p.Path), Reason: r, Val: obs.ReadOut(n, obs.Options{Light: true}).Val, Node: n})
		if len(run.Visits) > 200000 {
			return fmt.Errorf("runaway walk")
		}
		return nil
	}
	func() {
		defer func() {
			if r := recover(); r != nil {
				run.Err = fmt.Errorf("PANIC: %v", r)
			}
		}()
		if tc.Matching {
			run.Err = prog.WalkMatching(root, sel, func(p traversal.Progress, n datamodel.Node) error {
				return rec(p, n, traversal.VisitReason_SelectionMatch)
			})
		} else {
			run.Err = prog.WalkAdv(root, sel, rec)
		}
	}()
	return run
}

func wrapOpener(inner linking.BlockReadOpener, run *travRun, skip map[string]bool) linking.BlockReadOpener {
	return func(lc linking.LinkContext, l datamodel.Link) (r ioReader, err error) {
		run.Loads = append(run.Loads, travLoad{Link: l.Binary(), Path: lc.LinkPath.String()})
		if skip[l.Binary()] {
			return nil, traversal.SkipMe{}
		}
		return inner(lc, l)
	}
}

func sameVisits(a, b []travVisit) (bool, string) {
	for i := 0; i < len(a) || i < len(b); i++ {
		if i >= len(a) {
			return false, fmt.Sprintf("visit #%d missing; expected %s", i, b[i])
		}
		if i >= len(b) {
			return false, fmt.Sprintf("unexpected extra visit #%d: %s", i, a[i])
		}
		if a[i].Path != b[i].Path || a[i].Reason != b[i].Reason || !model.Equal(a[i].Val, b[i].Val) {
			return false, fmt.Sprintf("visit #%d is %s, expected %s", i, a[i], b[i])
		}
	}
	return true, ""
}

func sameLoads(a, b []travLoad) (bool, string) {
	for i := 0; i < len(a) || i < len(b); i++ {
		if i >= len(a) {
			return false, fmt.Sprintf("load #%d missing; expected %x at <%s>", i, tail4(b[i].Link), b[i].Path)
		}
		if i >= len(b) {
			return false, fmt.Sprintf("unexpected extra load #%d: %x at <%s>", i, tail4(a[i].Link), a[i].Path)
		}
		if a[i] != b[i] {
			return false, fmt.Sprintf("load #%d is %x at <%s>, expected %x at <%s>", i, tail4(a[i].Link), a[i].Path, tail4(b[i].Link), b[i].Path)
		}
	}
	return true, ""
}

func tail4(s string) string {
	if len(s) > 4 {
		return s[len(s)-4:]
	}
	return s
}

func isBudgetErr(err error, kind string) bool {
	var be *traversal.ErrBudgetExceeded
	if errors.As(err, &be) {
		return be.BudgetKind == kind
	}
	return false
}

// travSetup draws a graph and a compiled selector.
func travSetup(rng *fw.RNG, gopts graphgen.Opts, sopts selgen.Opts) (*graphgen.Graph, datamodel.Node, *selgen.Sel, selector.Selector, error) {
	g := graphgen.Gen(rng, gopts)
	sopts.Keys = g.Keys
	sopts.MaxIndex = g.MaxLen + 1
	sopts.Links = g.Links()
	s := selgen.Gen(rng, sopts)
	sel, err := selector.CompileSelector(fnode.New(s.Spec()))
	if err != nil {
		return g, nil, s, nil, err
	}
	// the root is handed to the walk as an in-memory node (canonical key order, as a decoder would give)
	root, err := basicBuild(g.Root)
	return g, root, s, sel, err
}

func basicBuild(v model.Val) (datamodel.Node, error) {
	nb := basicnode.Prototype.Any.NewBuilder()
	if err := assemblePlain(nb, v); err != nil {
		return nil, err
	}
	return nb.Build(), nil
}

func visitsDump(vs []travVisit, max int) string {
	var sb strings.Builder
	for i, v := range vs {
		if i >= max {
			fmt.Fprintf(&sb, "… (%d more)", len(vs)-i)
			break
		}
		sb.WriteString(v.String() + "\n")
	}
	return sb.String()
}

type ioReader = io.Reader

func assemblePlain(na datamodel.NodeAssembler, v model.Val) error {
	return build.Assemble(na, v, &build.Prog{Plain: true})
}

// travWalkWith runs WalkAdv with a given config (no storage recording).
func travWalkWith(g *graphgen.Graph, root datamodel.Node, sel selector.Selector, cfg *traversal.Config) travRun {
	var run travRun
	func() {
		defer func() {
			if r := recover(); r != nil {
				run.Err = fmt.Errorf("PANIC: %v", r)
			}
		}()
		run.Err = traversal.Progress{Cfg: cfg}.WalkAdv(root, sel, func(p traversal.Progress, n datamodel.Node, r traversal.VisitReason) error {
			run.Visits = append(run.Visits, travVisit{P: p.Path, Path: p.Path.String(), Segs: pathSegs(p.Path), Reason: r, Val: obs.ReadOut(n, obs.Options{Light: true}).Val, Node: n})
			if len(run.Visits) > 20000 {
				return fmt.Errorf("runaway walk")
			}
			return nil
		})
	}()
	return run
}

func c11ExploreAllSel() selector.Selector { c11Init(); return c11ExploreAll }
