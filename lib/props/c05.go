package props

import (
	"bytes"
	"encoding/hex"
	"fmt"
	"sync"

	cid "github.com/ipfs/go-cid"
	"github.com/ipld/go-ipld-prime/codec/cbor"
	"github.com/ipld/go-ipld-prime/codec/dagcbor"
	"github.com/ipld/go-ipld-prime/codec/dagjson"
	"github.com/ipld/go-ipld-prime/codec/json"
	_ "github.com/ipld/go-ipld-prime/codec/raw"
	"github.com/ipld/go-ipld-prime/datamodel"
	"github.com/ipld/go-ipld-prime/linking"
	cidlink "github.com/ipld/go-ipld-prime/linking/cid"
	"github.com/ipld/go-ipld-prime/multicodec"
	"github.com/ipld/go-ipld-prime/node/basicnode"
	"github.com/ipld/go-ipld-prime/node/bindnode"
	"github.com/ipld/go-ipld-prime/schema"
	"github.com/ipld/go-ipld-prime/storage/memstore"

	"verif/lib/build"
	"verif/lib/fnode"
	"verif/lib/fw"
	"verif/lib/model"
	"verif/lib/obs"
	refcbor "verif/lib/ref/cbor"
	reflink "verif/lib/ref/link"
)

// C05 — links are a function of value and prototype; store then load returns the value.
type c05 struct{}

func init() { fw.Register(c05{}) }

func (c05) ID() string { return "C05" }

func (c05) Plan(tier string) fw.Plan {
	p := fw.Plan{
		Batches: 16, Cases: 6000, TimeoutSec: 900, Level: "exploration",
		Rule:        "one case = one history of 30 operations (Store, ComputeLink, Load, LoadRaw, LoadPlusRaw, Fill) on one LinkSystem over one storage (memstore through SetReadStorage/SetWriteStorage, or cidlink.Memory openers), link prototypes drawn from CID v0/v1 × codecs {dag-cbor, dag-json, cbor, json, raw, 0x70→dag-cbor in a private registry} × every hasher of go-multihash's core registry × digest length {−1, full, truncated, 1} × identity; each value materialised at each step through a different implementation (basicnode build program, harness-owned node, bindnode-wrapped Go struct with renamed/tuple representation) and insertion order. Oracle: reference CID over reference bytes (independent canonical DAG-CBOR encoder; raw bytes; the codec's own direct Encode for the others), write-once map model of the storage. dag-json/json values carry no floats here (C04 decides float round trips). Non-trivial: history stored ≥2 distinct blocks and loaded at least one; distinct by hash of the history's (value, prototype, op) sequence.",
		Assumptions: []string{"stdlib crypto digests and lib/ref/link CID construction are the link oracle", "for cbor/json/dag-json the expected block bytes come from the codec's own direct Encode call (outside the link system)"},
		MinEvents:   []string{"stores", "computes", "loads", "loadraws", "loadplusraws", "fills", "typed_nodes_stored", "storage_content_checks"},
	}
	if tier == "thorough" {
		p.Batches, p.Cases, p.TimeoutSec = 64, 12000, 3000
	}
	return p
}

type c05Struct struct {
	A int64
	B string
}

var (
	c05TS       *schema.TypeSystem
	c05Registry multicodec.Registry
)

func c05Init() {
	if c05TS != nil {
		return
	}
	ts := new(schema.TypeSystem)
	ts.Init()
	ts.Accumulate(schema.SpawnString("String"))
	ts.Accumulate(schema.SpawnInt("Int"))
	ts.Accumulate(schema.SpawnStruct("Renamed", []schema.StructField{
		schema.SpawnStructField("A", "Int", false, false), schema.SpawnStructField("B", "String", false, false),
	}, schema.SpawnStructRepresentationMap(map[string]string{"A": "x", "B": "y"})))
	ts.Accumulate(schema.SpawnStruct("Tuple", []schema.StructField{
		schema.SpawnStructField("A", "Int", false, false), schema.SpawnStructField("B", "String", false, false),
	}, schema.SpawnStructRepresentationTuple()))
	c05TS = ts
	c05Registry = multicodec.Registry{}
	for _, code := range []uint64{0x71, 0x70} {
		c05Registry.RegisterEncoder(code, dagcbor.Encode)
		c05Registry.RegisterDecoder(code, dagcbor.Decode)
	}
	c05Registry.RegisterEncoder(0x0129, dagjson.Encode)
	c05Registry.RegisterDecoder(0x0129, dagjson.Decode)
	c05Registry.RegisterEncoder(0x51, cbor.Encode)
	c05Registry.RegisterDecoder(0x51, cbor.Decode)
	c05Registry.RegisterEncoder(0x0200, json.Encode)
	c05Registry.RegisterDecoder(0x0200, json.Decode)
	// raw registers itself in the default registry only; use the same functions
	if e, err := multicodec.LookupEncoder(0x55); err == nil {
		c05Registry.RegisterEncoder(0x55, e)
	}
	if d, err := multicodec.LookupDecoder(0x55); err == nil {
		c05Registry.RegisterDecoder(0x55, d)
	}
}

func c05Domain(codec uint64) model.GenOpts {
	switch codec {
	case 0x71, 0x70:
		return model.GenOpts{MaxDepth: 4, MaxWidth: 5, Uint: true, NonUTF8: true, Links: true}
	case 0x51:
		return model.GenOpts{MaxDepth: 4, MaxWidth: 5, Uint: true, NonUTF8: true}
	case 0x0129:
		return model.GenOpts{MaxDepth: 4, MaxWidth: 5, Links: true, NoFloats: true, AvoidJSONReserved: true}
	case 0x0200:
		return model.GenOpts{MaxDepth: 4, MaxWidth: 5, NoFloats: true, NoBytes: true}
	}
	return model.GenOpts{}
}

type c05Val struct {
	codec uint64
	v     model.Val // the data-model value of the node (type-level view for typed nodes)
	typed string    // "" | "Renamed" | "Tuple"
}

// expectedBytes returns the block bytes the store must produce for node n holding v under codec.
func c05ExpectedBytes(codec uint64, v model.Val, n datamodel.Node) ([]byte, error) {
	switch codec {
	case 0x71, 0x70:
		return refcbor.Encode(v), nil
	case 0x55:
		return []byte(v.S), nil
	case 0x0129:
		// function of the value alone: encode a plainly built, bytewise key-sorted basicnode copy
		pn, err := build.Plain(basicnode.Prototype.Any, model.SortKeys(v, model.BytewiseLess))
		if err != nil {
			return nil, err
		}
		var buf bytes.Buffer
		err = dagjson.Encode(pn, &buf)
		return buf.Bytes(), err
	case 0x51:
		var buf bytes.Buffer
		err := cbor.Encode(n, &buf)
		return buf.Bytes(), err
	case 0x0200:
		var buf bytes.Buffer
		err := json.Encode(n, &buf)
		return buf.Bytes(), err
	}
	return nil, fmt.Errorf("no codec %x", codec)
}

func c05AfterRoundTrip(codec uint64, v model.Val) model.Val {
	switch codec {
	case 0x71, 0x70:
		return model.SortKeys(v, model.CBORKeyLess)
	case 0x0129:
		return model.SortKeys(v, model.BytewiseLess)
	}
	return v
}

// c05UnknownParts: a link prototype naming a codec or a hash function nobody registered. Store and ComputeLink
// must answer with an error and no link (never neither, never a panic), Load of such a link likewise. (A
// surviving mechanical mutant made ComputeLink return (nil, nil) when no hasher could be chosen.)
func c05UnknownParts(c *fw.Ctx, rng *fw.RNG) {
	lsys := cidlink.DefaultLinkSystem()
	ms := &memstore.Store{}
	lsys.SetReadStorage(ms)
	lsys.SetWriteStorage(ms)
	n := basicnode.NewString("x")
	for _, pf := range []cid.Prefix{
		{Version: 1, Codec: 0x99999, MhType: 0x12, MhLength: 32},
		{Version: 1, Codec: 0x71, MhType: 0x7777, MhLength: 32},
		{Version: 1, Codec: 0x99999, MhType: 0x7777, MhLength: -1},
	} {
		lp := cidlink.LinkPrototype{Prefix: pf}
		c.SetCase(func() any {
			return map[string]any{"family": "unknown codec or hasher", "prefix": fmt.Sprintf("%+v", pf)}
		})
		var l1, l2 datamodel.Link
		var e1, e2 error
		if !c.Guard("C05:Store:unknown-parts", func() { l1, e1 = lsys.Store(linking.LinkContext{}, lp, n) }) && (e1 == nil || l1 != nil) {
			c.Deviate("C05:unknown-parts:store-no-error", fmt.Sprintf("Store with prefix %+v returned link=%v err=%v", pf, l1, e1))
		}
		if !c.Guard("C05:ComputeLink:unknown-parts", func() { l2, e2 = lsys.ComputeLink(lp, n) }) && (e2 == nil || l2 != nil) {
			c.Deviate("C05:unknown-parts:computelink-no-error", fmt.Sprintf("ComputeLink with prefix %+v returned link=%v err=%v", pf, l2, e2))
		}
		// a link of that shape that somebody else made
		lnk := cidlink.Link{Cid: cid.NewCidV1(pf.Codec, mustMH(pf.MhType))}
		var ln datamodel.Node
		var e3 error
		if !c.Guard("C05:Load:unknown-parts", func() { ln, e3 = lsys.Load(linking.LinkContext{}, lnk, basicnode.Prototype.Any) }) && (e3 == nil || ln != nil) {
			c.Deviate("C05:unknown-parts:load-no-error", fmt.Sprintf("Load of a link with prefix %+v returned node nil=%v err=%v", pf, ln == nil, e3))
		}
		c.Count("unknown_parts_probes", 1)
	}
}

// c05Unencodable: registered codec and hasher, but a value the codec cannot write — a map handed to the raw codec,
// NaN for dag-json, a node one of whose accessors fails part-way (lib/fnode). Store and ComputeLink must answer
// with an error and no link, and Store must leave the storage as it was: a link is a function of the value, and
// there is no value here to be a function of. (A surviving mechanical mutant made ComputeLink return (nil, nil)
// when the encoder failed.)
func c05Unencodable(c *fw.Ctx, rng *fw.RNG) {
	lsys := cidlink.DefaultLinkSystem()
	ms := &memstore.Store{}
	lsys.SetReadStorage(ms)
	lsys.SetWriteStorage(ms)
	tree := model.Val{K: model.KMap, M: []model.Entry{
		{K: "a", V: model.Val{K: model.KList, L: []model.Val{{K: model.KInt, I: 1}, {K: model.KString, S: "x"}, {K: model.KBool, B: true}}}},
		{K: "b", V: model.Val{K: model.KBytes, S: "yz"}},
		{K: "c", V: model.Val{K: model.KInt, I: int64(rng.Intn(1000))}},
		{K: "d", V: model.Val{K: model.KFloat, F: 2.5}},
		{K: "e", V: model.Val{K: model.KNull}},
	}}
	// ... or, in two cases out of three, a list of one scalar of every kind in random order, or a single scalar:
	// an encoder that swallows the error of the LAST accessor it calls has nothing left to trip over
	scal := []model.Val{model.Int(int64(rng.Intn(1000)) - 500), model.String("x"), model.Bool(true), model.Bytes([]byte("yz")), model.Float(2.5), model.Link(model.GenCID(rng))}
	rng.Shuffle(len(scal), func(i, j int) { scal[i], scal[j] = scal[j], scal[i] })
	hasLink, reads := true, 14
	switch rng.Intn(3) {
	case 0:
		hasLink, reads = false, 28
	case 1:
		tree = model.List(scal...)
	case 2:
		tree, reads = scal[0], 2
		hasLink = tree.K == model.KLink
	}
	type probe struct {
		name  string
		codec uint64
		mk    func() (datamodel.Node, *fnode.Fault) // a fresh node per use: a Fault is consumed by the reads made on it
	}
	plain := func(n datamodel.Node) func() (datamodel.Node, *fnode.Fault) {
		return func() (datamodel.Node, *fnode.Fault) { return n, &fnode.Fault{After: 1 << 30} }
	}
	probes := []probe{
		{"raw codec given a map", 0x55, plain(fnode.New(model.Val{K: model.KMap, M: []model.Entry{{K: "k", V: model.Int(1)}}}))},
		{"raw codec given a string", 0x55, plain(basicnode.NewString("s"))},
		{"dag-json given NaN", 0x0129, plain(fnode.New(model.Val{K: model.KList, L: []model.Val{{K: model.KInt, I: 1}, {K: model.KFloat, F: nan()}}}))},
	}
	for _, codec := range []uint64{0x71, 0x0129, 0x51, 0x0200} {
		if hasLink && (codec == 0x51 || codec == 0x0200) {
			probes = append(probes, probe{fmt.Sprintf("codec 0x%x given a link", codec), codec, plain(fnode.New(tree))})
			continue
		}
		for k, scalars := range []bool{false, true, true} {
			after, scalars, once := rng.Intn(reads), scalars, k == 2
			probes = append(probes, probe{fmt.Sprintf("codec 0x%x given a node that fails after %d reads (scalars=%v, once=%v)", codec, after, scalars, once), codec,
				func() (datamodel.Node, *fnode.Fault) {
					f := &fnode.Fault{After: after, Scalars: scalars, Lookups: true, Once: once}
					return fnode.NewFaulty(tree, f), f
				}})
		}
	}
	for _, pr := range probes {
		pr := pr
		lp := cidlink.LinkPrototype{Prefix: cid.Prefix{Version: 1, Codec: pr.codec, MhType: 0x12, MhLength: 32}}
		c.SetCase(func() any { return map[string]any{"family": "unencodable value", "probe": pr.name} })
		// does the codec itself refuse this node? (a fault placed after the last read the encoder makes never fires)
		var direct error
		dn, df := pr.mk()
		if enc, err := multicodec.LookupEncoder(pr.codec); err == nil {
			if c.Guard("C05:Encode:unencodable", func() { direct = enc(dn, &bytes.Buffer{}) }) {
				continue
			}
		}
		if direct == nil && df.Fired {
			// one of the node's accessors answered with an error and the encoder reported success: whatever it
			// wrote, it is not the encoding of a value it could not read
			c.Deviate(fmt.Sprintf("C05:unencodable:encoder-swallows-node-error:%#x", pr.codec), fmt.Sprintf("%s: an accessor of the node returned an error and the codec's Encode returned nil", pr.name))
		}
		if direct == nil && !df.Fired {
			c.Count("unencodable_probes_encodable_after_all", 1)
			continue
		}
		before := len(ms.Bag)
		var l1, l2 datamodel.Link
		var e1, e2 error
		n2, _ := pr.mk()
		if !c.Guard("C05:ComputeLink:unencodable", func() { l2, e2 = lsys.ComputeLink(lp, n2) }) && (e2 == nil || l2 != nil) {
			c.Deviate("C05:unencodable:computelink-no-error", fmt.Sprintf("%s: the value cannot be encoded (Encode: %v) but ComputeLink returned link=%v err=%v", pr.name, direct, l2, e2))
		}
		n1, _ := pr.mk()
		if !c.Guard("C05:Store:unencodable", func() { l1, e1 = lsys.Store(linking.LinkContext{}, lp, n1) }) && (e1 == nil || l1 != nil) {
			c.Deviate("C05:unencodable:store-no-error", fmt.Sprintf("%s: the value cannot be encoded (Encode: %v) but Store returned link=%v err=%v", pr.name, direct, l1, e1))
		}
		if len(ms.Bag) != before {
			c.Deviate("C05:unencodable:store-left-a-block", fmt.Sprintf("%s: Store failed (%v) and the storage holds %d blocks, %d before", pr.name, e1, len(ms.Bag), before))
		}
		c.Count("unencodable_probes", 1)
	}
}

func nan() float64 { z := 0.0; return z / z }

func mustMH(code uint64) []byte {
	d := make([]byte, 32)
	return append(append(model.Varint(code), model.Varint(32)...), d...)
}

func (c05) RunCase(c *fw.Ctx, rng *fw.RNG, batch, i int) {
	c05Init()
	if i%200 == 7 {
		c05UnknownParts(c, rng)
	}
	if i%100 == 53 {
		c05Unencodable(c, rng)
	}
	// --- configuration of this history
	useCidMem := rng.Bool()
	private := rng.Bool()
	var lsys linking.LinkSystem
	if private {
		lsys = cidlink.LinkSystemUsingMulticodecRegistry(c05Registry)
	} else {
		lsys = cidlink.DefaultLinkSystem()
	}
	ms := &memstore.Store{}
	cm := &cidlink.Memory{}
	if useCidMem {
		lsys.StorageReadOpener = cm.OpenRead
		lsys.StorageWriteOpener = cm.OpenWrite
	} else {
		lsys.SetReadStorage(ms)
		lsys.SetWriteStorage(ms)
	}
	stored := func(lnkBin string) ([]byte, bool) {
		if useCidMem {
			c, err := cid.Cast([]byte(lnkBin))
			if err != nil {
				return nil, false
			}
			b, ok := cm.Bag[string(c.Hash())]
			return b, ok
		}
		b, ok := ms.Bag[lnkBin]
		return b, ok
	}
	codecs := []uint64{0x71, 0x71, 0x0129, 0x51, 0x0200, 0x55}
	if private {
		codecs = append(codecs, 0x70)
	}
	// --- pool of values
	var pool []c05Val
	for k := 0; k < 6; k++ {
		cd := codecs[rng.Intn(len(codecs))]
		if cd == 0x55 {
			pool = append(pool, c05Val{codec: cd, v: model.Bytes(model.GenBytes(rng))})
			continue
		}
		if (cd == 0x71 || cd == 0x0129) && rng.Chance(1, 5) {
			a, b := int64(rng.Intn(1000))-500, model.GenString(rng, false)
			pool = append(pool, c05Val{codec: cd, v: model.Map(model.E("A", model.Int(a)), model.E("B", model.String(b))), typed: []string{"Renamed", "Tuple"}[rng.Intn(2)]})
			continue
		}
		pool = append(pool, c05Val{codec: cd, v: model.Gen(rng, c05Domain(cd))})
	}
	type histStep struct {
		Op    string `json:"op"`
		Val   string `json:"value,omitempty"`
		Codec uint64 `json:"codec,omitempty"`
		Proto string `json:"proto,omitempty"`
		Link  string `json:"link,omitempty"`
	}
	var hist []histStep
	c.SetCase(func() any {
		return map[string]any{"storage": map[bool]string{true: "cidlink.Memory", false: "memstore"}[useCidMem], "private_registry": private, "history": hist}
	})
	type storedBlock struct {
		link  datamodel.Link
		bytes []byte
		val   model.Val
		codec uint64
	}
	var blocks []storedBlock
	firstLink := map[string]string{} // (proto,value) -> link binary seen first
	var computed []c05Computed
	modelStore := map[string][]byte{} // multihash -> block bytes (write-once)
	hh := uint64(0)
	loadsDone := 0

	for step := 0; step < 30; step++ {
		op := rng.Intn(6)
		if len(blocks) == 0 && op >= 2 {
			op = rng.Intn(2)
		}
		switch op {
		case 0, 1: // Store / ComputeLink
			pv := pool[rng.Intn(len(pool))]
			// link prototype
			hc := reflink.HashCodes[rng.Intn(len(reflink.HashCodes))]
			size := reflink.DigestSize(hc)
			ln := -1
			if hc != 0 {
				switch rng.Intn(4) {
				case 1:
					ln = size
				case 2:
					ln = 1 + rng.Intn(size-1)
				case 3:
					ln = 1
				}
			} else if rng.Bool() {
				ln = rng.Intn(40)
			}
			proto := reflink.Proto{Version: 1, Codec: pv.codec, MhType: hc, MhLength: ln}
			if pv.codec == 0x70 {
				proto = reflink.Proto{Version: 0, Codec: 0x70, MhType: 0x12, MhLength: []int{-1, 32}[rng.Intn(2)]}
			}
			lp := cidlink.LinkPrototype{Prefix: cid.Prefix{Version: uint64(proto.Version), Codec: proto.Codec, MhType: proto.MhType, MhLength: proto.MhLength}}
			// materialise
			vv := pv.v
			isDag := pv.codec == 0x71 || pv.codec == 0x70 || pv.codec == 0x0129
			if isDag && pv.typed == "" && rng.Bool() {
				vv = model.Permute(vv, rng.Perm)
			}
			var n datamodel.Node
			var implName string
			switch {
			case pv.typed != "":
				g := &c05Struct{A: pv.v.M[0].V.I, B: pv.v.M[1].V.S}
				n = bindnode.Wrap(g, c05TS.TypeByName(pv.typed))
				implName = "bindnode:" + pv.typed
				c.Count("typed_nodes_stored", 1)
			case rng.Bool():
				n = fnode.New(vv)
				implName = "foreign"
			default:
				var err error
				n, err = build.With(basicnode.Prototype.Any, vv, &build.Prog{R: rng.Fork()})
				if err != nil {
					c.Deviate("C05:build-error", err.Error())
					return
				}
				implName = "basicnode"
			}
			want, eerr := c05ExpectedBytes(pv.codec, vv, n)
			if eerr != nil {
				c.Count("expected_bytes_unavailable:"+errClass(eerr), 1)
				continue
			}
			wantLink, ok := reflink.Of(proto, want)
			if !ok {
				continue
			}
			protoS := fmt.Sprintf("v%d codec=%#x mh=%#x len=%d", proto.Version, proto.Codec, proto.MhType, proto.MhLength)
			hh = fw.Mix(hh, pv.v.Hash(), uint64(op), proto.Codec, proto.MhType, uint64(proto.MhLength+2))
			var lnk datamodel.Link
			var err error
			opName := "Store"
			if op == 1 {
				opName = "ComputeLink"
			}
			hist = append(hist, histStep{Op: opName + "(" + implName + ")", Val: vv.Dump(), Codec: pv.codec, Proto: protoS})
			if c.Guard("C05:"+opName, func() {
				if op == 0 {
					lnk, err = lsys.Store(linking.LinkContext{}, lp, n)
				} else {
					lnk, err = lsys.ComputeLink(lp, n)
				}
			}) {
				return
			}
			if op == 0 {
				c.Count("stores", 1)
			} else {
				c.Count("computes", 1)
			}
			if err != nil {
				c.Deviate("C05:"+opName+"-error:"+errClass(err), fmt.Sprintf("%s failed: %v (proto %s, impl %s)", opName, err, protoS, implName))
				continue
			}
			hist[len(hist)-1].Link = hex.EncodeToString([]byte(lnk.Binary()))
			if lnk.Binary() != string(wantLink) {
				c.Deviate("C05:wrong-link:"+opName, fmt.Sprintf("%s returned link %x, the reference link for this value and prototype is %x (proto %s, impl %s, expected block %s)", opName, lnk.Binary(), wantLink, protoS, implName, hexClip(want)))
				continue
			}
			key := protoS + "|" + fmt.Sprint(pv.v.Hash())
			if prev, seen := firstLink[key]; seen && isDag && prev != lnk.Binary() {
				c.Deviate("C05:link-not-a-function", fmt.Sprintf("same value and prototype gave link %x earlier in this history and %x now", prev, lnk.Binary()))
			}
			firstLink[key] = lnk.Binary()
			if pv.typed == "" && len(computed) < 12 {
				computed = append(computed, c05Computed{lp, vv, string(wantLink), protoS})
			}
			if op == 0 {
				// truncated digests collide: the storage is write-once, so a link that
				// already maps to other bytes (same multihash) is outside the model
				mhKey := lnk.Binary()
				if cc, err := cid.Cast([]byte(mhKey)); err == nil {
					mhKey = string(cc.Hash())
				}
				if prev, seen := modelStore[mhKey]; seen && !bytes.Equal(prev, want) {
					// (cidlink.Memory overwrites on commit, memstore keeps the first) — either
					// way the storage left the write-once model: the history ends here
					c.Count("histories_ended_by_truncated_digest_collision", 1)
					c.Seen(hh, false)
					return
				}
				modelStore[mhKey] = want
				got, ok := stored(lnk.Binary())
				c.Count("storage_content_checks", 1)
				if !ok || !bytes.Equal(got, want) {
					c.Deviate("C05:storage-content", fmt.Sprintf("after Store the storage holds %s (present=%v) under the link, expected %s", hexClip(got), ok, hexClip(want)))
					continue
				}
				blocks = append(blocks, storedBlock{lnk, want, vv, pv.codec})
			}
		default: // loads
			b := blocks[rng.Intn(len(blocks))]
			wantV := c05AfterRoundTrip(b.codec, b.val)
			names := []string{"", "", "Load", "LoadRaw", "LoadPlusRaw", "Fill"}
			hist = append(hist, histStep{Op: names[op], Link: hex.EncodeToString([]byte(b.link.Binary()))})
			var n datamodel.Node
			var raw []byte
			var err error
			if c.Guard("C05:"+names[op], func() {
				switch op {
				case 2:
					n, err = lsys.Load(linking.LinkContext{}, b.link, basicnode.Prototype.Any)
					c.Count("loads", 1)
				case 3:
					raw, err = lsys.LoadRaw(linking.LinkContext{}, b.link)
					c.Count("loadraws", 1)
				case 4:
					n, raw, err = lsys.LoadPlusRaw(linking.LinkContext{}, b.link, basicnode.Prototype.Any)
					c.Count("loadplusraws", 1)
				case 5:
					nb := basicnode.Prototype.Any.NewBuilder()
					err = lsys.Fill(linking.LinkContext{}, b.link, nb)
					if err == nil {
						n = nb.Build()
					}
					c.Count("fills", 1)
				}
			}) {
				return
			}
			loadsDone++
			if err != nil {
				c.Deviate("C05:"+names[op]+"-error:"+errClass(err), fmt.Sprintf("%s of a stored link failed: %v", names[op], err))
				continue
			}
			if op == 3 || op == 4 {
				if !bytes.Equal(raw, b.bytes) {
					c.Deviate("C05:raw-bytes-differ", fmt.Sprintf("%s returned raw %s, stored block is %s", names[op], hexClip(raw), hexClip(b.bytes)))
				}
				rawCopy := append([]byte(nil), raw...)
				defer func(name string) {
					// later operations of this history must not change bytes handed out earlier
					if !bytes.Equal(raw, rawCopy) {
						c.Deviate("C05:raw-bytes-changed-later", fmt.Sprintf("raw bytes returned by %s changed during later operations: now %s, were %s", name, hexClip(raw), hexClip(rawCopy)))
					}
				}(names[op])
			}
			if n != nil {
				ro := obs.ReadOut(n, obs.Options{Light: true})
				if !model.Equal(ro.Val, wantV) {
					c.Deviate("C05:loaded-value-differs:"+fmt.Sprintf("%#x", b.codec), fmt.Sprintf("%s returned %s, stored value (in the codec's order) is %s", names[op], ro.Val.Dump(), wantV.Dump()))
				}
				node := n
				defer func(name string) {
					ro2 := obs.ReadOut(node, obs.Options{Light: true})
					if !model.Equal(ro2.Val, ro.Val) {
						c.Deviate("C05:loaded-node-changed-later", fmt.Sprintf("node returned by %s read %s at first and %s after later operations", name, ro.Val.Dump(), ro2.Val.Dump()))
					}
				}(names[op])
			}
		}
	}
	// "any interleaving ... on one link system": one history in four ends with the links of this history
	// computed again from four goroutines at once on the same LinkSystem (ComputeLink touches no storage;
	// the nodes are harness-owned and read-only). A hasher or encoder shared between calls shows here.
	if len(computed) >= 2 && rng.Chance(1, 4) {
		c.Count("concurrent_bursts", 1)
		var mu sync.Mutex
		var bad []string
		var wg sync.WaitGroup
		for g := 0; g < 4; g++ {
			wg.Add(1)
			go func(g int) {
				defer wg.Done()
				defer func() {
					if r := recover(); r != nil {
						mu.Lock()
						bad = append(bad, fmt.Sprintf("panic: %v", r))
						mu.Unlock()
					}
				}()
				for round := 0; round < 6; round++ {
					for k := range computed {
						cp := computed[(k+g)%len(computed)]
						lnk, err := lsys.ComputeLink(cp.lp, fnode.New(cp.v))
						if err != nil || lnk.Binary() != cp.want {
							mu.Lock()
							bad = append(bad, fmt.Sprintf("ComputeLink(%s) = %x, err %v; reference link %x", cp.proto, linkBin(lnk), err, cp.want))
							mu.Unlock()
						}
					}
				}
			}(g)
		}
		wg.Wait()
		c.Count("concurrent_computes", int64(4*6*len(computed)))
		if len(bad) > 0 {
			c.Deviate("C05:wrong-link:concurrent-ComputeLink", fmt.Sprintf("%d of %d concurrent ComputeLink calls on one LinkSystem disagreed with the reference, e.g. %s", len(bad), 4*6*len(computed), bad[0]))
		}
	}
	c.Seen(hh, len(blocks) >= 2 && loadsDone > 0)
	if c.WantSample() && len(hist) > 0 {
		h := hist
		if len(h) > 8 {
			h = h[:8]
		}
		c.Sample(map[string]any{"storage_cidlink_memory": useCidMem, "private_registry": private, "first_steps": h})
	}
}

type c05Computed struct {
	lp    cidlink.LinkPrototype
	v     model.Val
	want  string
	proto string
}

func linkBin(l datamodel.Link) string {
	if l == nil {
		return ""
	}
	return l.Binary()
}
