package props

import (
	"bytes"
	"fmt"
	"strings"

	"github.com/ipld/go-ipld-prime/codec/dagjson"
	"github.com/ipld/go-ipld-prime/datamodel"
	"github.com/ipld/go-ipld-prime/node/basicnode"
	"github.com/ipld/go-ipld-prime/traversal"
	"github.com/ipld/go-ipld-prime/traversal/selector"
	"github.com/ipld/go-ipld-prime/traversal/selector/builder"
	selectorparse "github.com/ipld/go-ipld-prime/traversal/selector/parse"

	"verif/lib/fnode"
	"verif/lib/fw"
	"verif/lib/graphgen"
	"verif/lib/model"
	refsel "verif/lib/ref/sel"
	"verif/lib/selgen"
)

// C07 — a selector walk visits exactly what the selector denotes, in document order.
type c07 struct{}

func init() { fw.Register(c07{}) }

func (c07) ID() string { return "C07" }

func (c07) Plan(tier string) fw.Plan {
	p := fw.Plan{
		Batches: 16, Cases: 10000, TimeoutSec: 900, Level: "exploration",
		Rule:        "one case = one (graph of 1–8 linked blocks: maps, lists, scalars, shared/repeated links, links to raw blocks; random selector AST of depth ≤5 over all clause kinds: matcher, string/bytes subset matcher with negative and out-of-range bounds, explore-all, fields (stated order), index, range, unions incl. overlapping members, recursion with limit none / 0–5, one edge in any legal position, stop-at conditions drawn from the graph's links). The AST is compiled three ways — selector/builder, CompileSelector of the spec tree, and ParseJSONSelector of its DAG-JSON text (whose field order is the encoder's sorted order) — and walked with WalkAdv and WalkMatching; oracle: a reference denotational walk over the abstract graph giving the expected sequence of (path, node value, reason) and of link loads. Non-trivial: ≥4 visits and ≥1 load or a recursion; distinct by hash of (root, selector).",
		Assumptions: []string{"lib/ref/sel encodes the specified semantics; where the specification is silent it follows this repository's doc comments and passing tests (edge followed only while remaining depth ≥ 2; explicit interests in the selector's stated order; subset bound normalisation)", "ExploreInterpretAs is outside the property's list"},
		MinEvents:   []string{"pairs", "walks_adv", "walks_matching", "compiled_via_builder", "compiled_via_json", "visits_compared", "loads_compared", "selectors_with_recursion", "selectors_with_subset", "selectors_with_stopat"},
	}
	if tier == "thorough" {
		p.Batches, p.Cases, p.TimeoutSec = 64, 16000, 3300
	}
	return p
}

func c07ViaBuilder(s *selgen.Sel) (selector.Selector, bool) {
	ssb := builder.NewSelectorSpecBuilder(basicnode.Prototype.Any)
	ok := true
	var conv func(s *selgen.Sel) builder.SelectorSpec
	conv = func(s *selgen.Sel) builder.SelectorSpec {
		switch s.Kind {
		case "match":
			return ssb.Matcher()
		case "subset":
			return ssb.MatcherSubset(s.From, s.To)
		case "all":
			return ssb.ExploreAll(conv(s.Next))
		case "fields":
			return ssb.ExploreFields(func(e builder.ExploreFieldsSpecBuilder) {
				for _, f := range s.Fields {
					e.Insert(f.Key, conv(f.Sel))
				}
			})
		case "index":
			return ssb.ExploreIndex(s.Index, conv(s.Next))
		case "range":
			return ssb.ExploreRange(s.From, s.To, conv(s.Next))
		case "union":
			var ms []builder.SelectorSpec
			for _, m := range s.Members {
				ms = append(ms, conv(m))
			}
			return ssb.ExploreUnion(ms...)
		case "rec":
			if s.StopAt != "" {
				ok = false
			}
			lim := selector.RecursionLimitNone()
			if s.Limit != -1 {
				lim = selector.RecursionLimitDepth(s.Limit)
			}
			return ssb.ExploreRecursive(lim, conv(s.Seq))
		default:
			return ssb.ExploreRecursiveEdge()
		}
	}
	spec := conv(s)
	if !ok {
		return nil, false
	}
	sel, err := spec.Selector()
	return sel, err == nil
}

func (c07) RunCase(c *fw.Ctx, rng *fw.RNG, batch, i int) {
	gopts := graphgen.Opts{MaxBlocks: 8, MaxDepth: 3, MaxWidth: 4, RawBlocks: true, NumLookalikes: true, Missing: rng.Intn(2)}
	if deepCase(c, i) {
		gopts.MaxBlocks, gopts.MaxDepth, gopts.MaxWidth = 14, 4, 6
	}
	g := graphgen.Gen(rng, gopts)
	s := selgen.Gen(rng, selgen.Opts{MaxDepth: 5, Keys: g.Keys, MaxIndex: g.MaxLen + 1, Links: g.Links()})
	root, err := basicBuild(g.Root)
	if err != nil {
		return
	}
	desc := s.String()
	c.SetCase(func() any { return map[string]any{"selector": desc, "root": g.Root.Dump(), "blocks": len(g.Blocks)} })
	c.Count("pairs", 1)
	if strings.Contains(desc, "R(") {
		c.Count("selectors_with_recursion", 1)
	}
	if strings.Count(desc, "@") >= 2 {
		c.Count("selectors_with_two_edges", 1)
	}
	if strings.Contains(desc, ".[") {
		c.Count("selectors_with_subset", 1)
	}
	if strings.Contains(desc, " !") {
		c.Count("selectors_with_stopat", 1)
	}
	type compiled struct {
		how string
		sel selector.Selector
		ast *selgen.Sel
	}
	var cs []compiled
	if sel, err := selector.CompileSelector(fnode.New(s.Spec())); err == nil {
		cs = append(cs, compiled{"CompileSelector(spec tree)", sel, s})
	} else {
		c.Deviate("C07:well-formed-selector-rejected:"+errClass(err), fmt.Sprintf("selector %s does not compile: %v", desc, err))
		return
	}
	if sel, ok := c07ViaBuilder(s); ok {
		cs = append(cs, compiled{"selector/builder", sel, s})
		c.Count("compiled_via_builder", 1)
	}
	var js bytes.Buffer
	if err := dagjson.Encode(fnode.New(s.Spec()), &js); err == nil {
		if n, err := selectorparse.ParseJSONSelector(js.String()); err == nil {
			if sel, err := selector.CompileSelector(n); err == nil {
				cs = append(cs, compiled{"ParseJSONSelector(DAG-JSON text)", sel, refsel.SortFields(s)})
				c.Count("compiled_via_json", 1)
			} else {
				c.Deviate("C07:json-form-rejected:"+errClass(err), fmt.Sprintf("the DAG-JSON form of selector %s does not compile: %v\n%s", desc, err, js.String()))
			}
		} else {
			c.Deviate("C07:json-form-unparseable:"+errClass(err), fmt.Sprintf("ParseJSONSelector failed on %s: %v", js.String(), err))
		}
		// the one-step form of the same route
		if sel, err := selectorparse.ParseAndCompileJSONSelector(js.String()); err == nil && sel != nil {
			cs = append(cs, compiled{"ParseAndCompileJSONSelector(DAG-JSON text)", sel, refsel.SortFields(s)})
			c.Count("compiled_via_json_one_step", 1)
		} else {
			c.Deviate("C07:json-form-unparseable:one-step:"+errClass(err), fmt.Sprintf("ParseAndCompileJSONSelector on %s returned selector nil=%v, err=%v", js.String(), sel == nil, err))
		}
	}
	nontrivial := false
	for _, cc := range cs {
		want := refsel.Walk(g, g.Root, cc.ast)
		if want.Err == "reference walk too large" {
			c.Inconclusive("reference walk too large")
			continue
		}
		if len(want.Visits) >= 4 && (len(want.Loads) >= 1 || strings.Contains(desc, "R(")) {
			nontrivial = true
		}
		if c.WantSample() && len(want.Visits) >= 4 && len(want.Visits) < 14 && len(want.Loads) >= 1 && cc.how[0] == 'C' {
			var vs []string
			for _, v := range want.Visits {
				vs = append(vs, fmt.Sprintf("<%s> match=%v", strings.Join(v.Segs, "/"), v.Match))
			}
			c.Sample(map[string]any{"selector": desc, "root": g.Root.Dump(), "expected_visits": vs, "expected_loads": len(want.Loads)})
		}
		for _, matching := range []bool{false, true} {
			got := travWalk(g, root, cc.sel, travCfg{NodeBudget: -1, LinkBudget: -1, Matching: matching})
			if matching {
				c.Count("walks_matching", 1)
			} else {
				c.Count("walks_adv", 1)
			}
			mode := "WalkAdv"
			if matching {
				mode = "WalkMatching"
			}
			ctx := fmt.Sprintf("%s via %s", mode, cc.how)
			if got.Err != nil && strings.HasPrefix(got.Err.Error(), "PANIC") {
				c.Deviate("C07:walk-panics", fmt.Sprintf("%s: %v\nselector %s", ctx, got.Err, desc))
				continue
			}
			if (got.Err != nil) != (want.Err != "") {
				c.Deviate("C07:walk-error-differs", fmt.Sprintf("%s ended with err=%v, the reference says %q\nselector %s", ctx, got.Err, want.Err, desc))
				continue
			}
			// expected visits for this mode
			var wv []refsel.Visit
			for _, v := range want.Visits {
				if !matching || v.Match {
					wv = append(wv, v)
				}
			}
			c.Count("visits_compared", int64(len(wv)))
			diff := ""
			for k := 0; k < len(wv) || k < len(got.Visits); k++ {
				if k >= len(got.Visits) {
					if want.Err != "" {
						break // both abort; the implementation may stop at the failing load
					}
					diff = fmt.Sprintf("visit #%d missing: expected <%s> match=%v %s", k, strings.Join(wv[k].Segs, "/"), wv[k].Match, clipS(wv[k].Val.Dump(), 80))
					break
				}
				if k >= len(wv) {
					diff = fmt.Sprintf("unexpected extra visit #%d: %s", k, got.Visits[k])
					break
				}
				gv := got.Visits[k]
				gm := gv.Reason == traversal.VisitReason_SelectionMatch
				if strings.Join(gv.Segs, "\x00") != strings.Join(wv[k].Segs, "\x00") || gm != wv[k].Match || !model.Equal(gv.Val, wv[k].Val) {
					diff = fmt.Sprintf("visit #%d is %s, expected <%s> match=%v %s", k, gv, strings.Join(wv[k].Segs, "/"), wv[k].Match, clipS(wv[k].Val.Dump(), 80))
					break
				}
			}
			if diff != "" {
				sig := "C07:visit-sequence-differs"
				if strings.Contains(diff, "extra visit") || strings.Contains(diff, "missing") {
					sig += ":count"
				}
				c.Deviate(sig, fmt.Sprintf("%s: %s\nselector %s\nimplementation visited:\n%s", ctx, diff, desc, visitsDump(got.Visits, 20)))
				continue
			}
			c.Count("loads_compared", int64(len(want.Loads)))
			for k := 0; k < len(want.Loads) || k < len(got.Loads); k++ {
				if k >= len(got.Loads) || k >= len(want.Loads) {
					if want.Err != "" {
						break
					}
					c.Deviate("C07:load-sequence-differs", fmt.Sprintf("%s: %d loads, the reference expects %d\nselector %s", ctx, len(got.Loads), len(want.Loads), desc))
					break
				}
				if got.Loads[k].Link != want.Loads[k].Link || got.Loads[k].Path != strings.Join(want.Loads[k].Segs, "/") {
					c.Deviate("C07:load-sequence-differs", fmt.Sprintf("%s: load #%d is …%x at <%s>, expected …%x at <%s>\nselector %s", ctx, k, tail4(got.Loads[k].Link), got.Loads[k].Path, tail4(want.Loads[k].Link), strings.Join(want.Loads[k].Segs, "/"), desc))
					break
				}
			}
		}
	}
	c.Seen(fw.Mix(g.Root.Hash(), fw.HashString(desc)), nontrivial)
	_ = datamodel.Null
}
