package props

import (
	"bytes"
	"encoding/hex"
	"errors"
	"fmt"
	"io"

	cid "github.com/ipfs/go-cid"
	"github.com/ipld/go-ipld-prime/datamodel"
	"github.com/ipld/go-ipld-prime/linking"
	cidlink "github.com/ipld/go-ipld-prime/linking/cid"
	"github.com/ipld/go-ipld-prime/node/basicnode"

	"verif/lib/fnode"
	"verif/lib/fw"
	"verif/lib/model"
	"verif/lib/obs"
	reflink "verif/lib/ref/link"
)

// C06 — no load returns data that does not hash to its link, whatever the storage does.
type c06 struct{}

func init() { fw.Register(c06{}) }

func (c06) ID() string { return "C06" }

func (c06) Plan(tier string) fw.Plan {
	p := fw.Plan{
		Batches: 16, Cases: 12, TimeoutSec: 1200, Level: "fault_enumeration", Exhaustive: true,
		Rule: "one case = one stored block (codec ∈ {dag-cbor, dag-json, cbor, json, raw}, hasher from go-multihash's core registry incl. identity and truncated digests, 1–300 bytes, incl. blocks whose decoder fails early / succeeds on a prefix / slurps trailing whitespace). For the block and each of Load, LoadRaw, LoadPlusRaw, Fill the storage boundary is faulted exhaustively: every single-bit flip at every offset, every truncation length, six appended-byte classes, substitution by other blocks, a read error after every k bytes, and a family of chunkings (1-byte, Fibonacci, mixed) of the unmodified block. Store side: a writer failing at its k-th Write for every k and a node whose iterator fails after every k entries; the committer is a harness closure that records calls. Oracle: stdlib digest of the bytes the reader serves. exhaustive=true refers to these per-block fault classes. Distinct = distinct blocks; non-trivial = block ≥ 8 bytes.",
		Assumptions: []string{"stdlib crypto digests + lib/ref/link decide whether served bytes hash to the link", "TrustedStorage is left false"},
		MinEvents:   []string{"faulted_loads", "bitflips", "truncations", "read_errors_injected", "chunkings", "store_writer_faults", "store_encoder_faults", "must_fail_observed", "must_succeed_observed"},
	}
	if tier == "thorough" {
		p.Batches, p.Cases, p.TimeoutSec = 64, 60, 3000
	}
	return p
}

// faultReader serves data in chunks; after failAt bytes (if >=0) it returns an error.
type faultReader struct {
	data    []byte
	pos     int
	failAt  int // -1 never
	chunks  []int
	ci      int
	zeroGap bool // interleave (0,nil) reads
	gap     bool
	// lastWithErr: the final bytes arrive together with io.EOF (or with the injected error) in one Read,
	// as io.Reader allows and HTTP bodies, decompressors and iotest.DataErrReader do
	lastWithErr bool
}

var errInjectedRead = errors.New("injected storage read error")

func (r *faultReader) Read(p []byte) (int, error) {
	if len(p) == 0 {
		return 0, nil
	}
	if r.zeroGap {
		r.gap = !r.gap
		if r.gap {
			return 0, nil
		}
	}
	limit := len(r.data)
	if r.failAt >= 0 && r.failAt < limit {
		limit = r.failAt
	}
	if r.pos >= limit {
		if r.failAt >= 0 {
			return 0, errInjectedRead
		}
		return 0, io.EOF
	}
	n := len(p)
	if len(r.chunks) > 0 {
		k := r.chunks[r.ci%len(r.chunks)]
		r.ci++
		if k < n {
			n = k
		}
	}
	if n > limit-r.pos {
		n = limit - r.pos
	}
	copy(p, r.data[r.pos:r.pos+n])
	r.pos += n
	if r.lastWithErr && r.pos >= limit {
		if r.failAt >= 0 {
			return n, errInjectedRead
		}
		return n, io.EOF
	}
	return n, nil
}

type c06Block struct {
	codec uint64
	proto reflink.Proto
	data  []byte
	link  datamodel.Link
	desc  string
}

func c06MakeBlock(rng *fw.RNG, lsys *linking.LinkSystem) (c06Block, error) {
	codecs := []uint64{0x71, 0x0129, 0x51, 0x0200, 0x55}
	cd := codecs[rng.Intn(len(codecs))]
	var v model.Val
	if cd == 0x55 {
		v = model.Bytes(rng.Bytes(1 + rng.Intn(120)))
	} else {
		o := c05Domain(cd)
		o.MaxDepth, o.MaxWidth = 3, 4
		o.Uint = false
		for {
			v = model.Gen(rng, o)
			if v.Stats().Nodes <= 40 {
				break
			}
		}
	}
	hc := reflink.HashCodes[rng.Intn(len(reflink.HashCodes))]
	ln := -1
	if hc != 0 && rng.Chance(1, 3) {
		ln = 4 + rng.Intn(reflink.DigestSize(hc)-4)
	}
	proto := reflink.Proto{Version: 1, Codec: cd, MhType: hc, MhLength: ln}
	lp := cidlink.LinkPrototype{Prefix: cid.Prefix{Version: 1, Codec: cd, MhType: hc, MhLength: ln}}
	var buf bytes.Buffer
	lsys2 := *lsys
	lsys2.StorageWriteOpener = func(linking.LinkContext) (io.Writer, linking.BlockWriteCommitter, error) {
		return &buf, func(datamodel.Link) error { return nil }, nil
	}
	lnk, err := lsys2.Store(linking.LinkContext{}, lp, fnode.New(v))
	if err != nil {
		return c06Block{}, err
	}
	return c06Block{codec: cd, proto: proto, data: buf.Bytes(), link: lnk, desc: v.Dump()}, nil
}

func (c06) RunCase(c *fw.Ctx, rng *fw.RNG, batch, i int) {
	lsys := cidlink.DefaultLinkSystem()
	var blk c06Block
	for tries := 0; ; tries++ {
		var err error
		blk, err = c06MakeBlock(rng, &lsys)
		if err == nil && len(blk.data) > 0 && len(blk.data) <= 300 {
			break
		}
		if tries > 50 {
			c.Inconclusive("could not construct a corpus block")
			return
		}
	}
	others := make([]c06Block, 0, 6)
	for len(others) < 6 {
		if b, err := c06MakeBlock(rng, &lsys); err == nil {
			others = append(others, b)
		}
	}
	c.Seen(fw.HashString(string(blk.data)+blk.link.Binary()), len(blk.data) >= 8)
	var curFault string
	c.SetCase(func() any {
		return map[string]any{"codec": fmt.Sprintf("%#x", blk.codec), "multihash": fmt.Sprintf("%#x len=%d", blk.proto.MhType, blk.proto.MhLength),
			"block_hex": hex.EncodeToString(blk.data), "value": blk.desc, "link_hex": hex.EncodeToString([]byte(blk.link.Binary())), "fault": curFault}
	})
	if c.WantSample() {
		c.Sample(map[string]any{"codec": fmt.Sprintf("%#x", blk.codec), "multihash": fmt.Sprintf("%#x len=%d", blk.proto.MhType, blk.proto.MhLength), "block_hex": hex.EncodeToString(blk.data), "value": blk.desc})
	}

	// reference result of the clean load
	var cur *faultReader
	lsys.StorageReadOpener = func(linking.LinkContext, datamodel.Link) (io.Reader, error) { return cur, nil }
	cleanNode, cleanErr := func() (datamodel.Node, error) {
		cur = &faultReader{data: blk.data, failAt: -1}
		return lsys.Load(linking.LinkContext{}, blk.link, basicnode.Prototype.Any)
	}()
	if cleanErr != nil {
		c.Deviate("C06:clean-load-fails:"+errClass(cleanErr), fmt.Sprintf("Load of the unmodified block failed: %v", cleanErr))
		return
	}
	cleanVal := obs.ReadOut(cleanNode, obs.Options{Light: true}).Val

	ops := []string{"Load", "LoadRaw", "LoadPlusRaw", "Fill"}
	try := func(fault string, mk func() *faultReader) {
		for _, op := range ops {
			cur = mk()
			curFault = fault + " / " + op
			served := cur.data
			ioErr := cur.failAt >= 0 // the reader ends with an error instead of EOF (possibly after all bytes)
			wantLink, _ := reflink.Of(blk.proto, served)
			hashOK := string(wantLink) == blk.link.Binary()
			var n datamodel.Node
			var raw []byte
			var err error
			if c.Guard("C06:"+op, func() {
				switch op {
				case "Load":
					n, err = lsys.Load(linking.LinkContext{}, blk.link, basicnode.Prototype.Any)
				case "LoadRaw":
					raw, err = lsys.LoadRaw(linking.LinkContext{}, blk.link)
				case "LoadPlusRaw":
					n, raw, err = lsys.LoadPlusRaw(linking.LinkContext{}, blk.link, basicnode.Prototype.Any)
				case "Fill":
					nb := basicnode.Prototype.Any.NewBuilder()
					err = lsys.Fill(linking.LinkContext{}, blk.link, nb)
					if err == nil {
						n = nb.Build()
					}
				}
			}) {
				continue
			}
			c.Count("faulted_loads", 1)
			switch {
			case ioErr:
				c.Count("must_fail_observed", 1)
				if err == nil {
					c.Deviate("C06:read-error-swallowed:"+op, fmt.Sprintf("%s: the storage reader failed after %d of %d bytes but %s returned no error", fault, cur.failAt, len(cur.data), op))
				} else if n != nil {
					c.Deviate("C06:node-with-error:"+op, fmt.Sprintf("%s: %s returned a node together with error %v", fault, op, err))
				}
			case !hashOK:
				c.Count("must_fail_observed", 1)
				var hm linking.ErrHashMismatch
				if err == nil {
					c.Deviate("C06:unverified-data-returned:"+op, fmt.Sprintf("%s: served bytes %s do not hash to the link, but %s succeeded (node=%v, raw=%s)", fault, hexClip(served), op, n != nil, hexClip(raw)))
				} else if !errors.As(err, &hm) {
					c.Deviate("C06:not-hash-mismatch-error:"+op, fmt.Sprintf("%s: served bytes do not hash to the link and the reader did not fail, but %s returned %T: %v instead of ErrHashMismatch", fault, op, err, err))
				} else if n != nil || len(raw) > 0 {
					c.Deviate("C06:data-with-mismatch:"+op, fmt.Sprintf("%s: %s returned data together with ErrHashMismatch (node=%v, raw %d bytes)", fault, op, n != nil, len(raw)))
				}
			default:
				c.Count("must_succeed_observed", 1)
				// served bytes hash to the link: same outcome as the clean load
				if bytes.Equal(served, blk.data) {
					if err != nil {
						c.Deviate("C06:intact-block-fails:"+op, fmt.Sprintf("%s: the unmodified block under this read pattern made %s fail: %v", fault, op, err))
						continue
					}
					if n != nil {
						if v := obs.ReadOut(n, obs.Options{Light: true}).Val; !model.Equal(v, cleanVal) {
							c.Deviate("C06:chunking-changes-result:"+op, fmt.Sprintf("%s: %s read %s, plain read gives %s", fault, op, v.Dump(), cleanVal.Dump()))
						}
					}
					if (op == "LoadRaw" || op == "LoadPlusRaw") && !bytes.Equal(raw, blk.data) {
						c.Deviate("C06:raw-differs:"+op, fmt.Sprintf("%s: %s returned raw %s", fault, op, hexClip(raw)))
					}
				}
			}
		}
	}
	plain := func(data []byte) func() *faultReader {
		return func() *faultReader { return &faultReader{data: data, failAt: -1} }
	}
	// the same bytes with the last ones delivered together with io.EOF, in a few chunk sizes (so that the
	// data+EOF read carries 1 byte, a few, or everything)
	withEOF := func(name string, data []byte) {
		for _, ch := range [][]int{nil, {1}, {len(data) - 1, 64}, {7}} {
			chs := ch
			if len(chs) > 0 && chs[0] <= 0 {
				continue
			}
			try(fmt.Sprintf("%s, last bytes with io.EOF, chunks %v", name, chs), func() *faultReader {
				return &faultReader{data: data, failAt: -1, chunks: chs, lastWithErr: true}
			})
			c.Count("data_with_eof_reads", 1)
		}
	}
	for bit := 0; bit < len(blk.data)*8; bit++ {
		m := append([]byte(nil), blk.data...)
		m[bit/8] ^= 1 << (bit % 8)
		try(fmt.Sprintf("bitflip@%d", bit), plain(m))
		c.Count("bitflips", 1)
		if bit%8 == 3 || bit >= (len(blk.data)-2)*8 {
			withEOF(fmt.Sprintf("bitflip@%d", bit), m)
		}
	}
	withEOF("unmodified block", blk.data)
	// an extended block arriving in pieces: the genuine block first (a short read ending exactly at its end),
	// then the extension — two network packets, or a buffered reader refilling
	split := func(name string, ext []byte) {
		for _, ch := range [][]int{{len(blk.data), 1 << 20}, {1}, {len(blk.data) - 1, 1, 1 << 20}} {
			chs := ch
			if chs[0] <= 0 {
				continue
			}
			try(fmt.Sprintf("%s, arriving in pieces %v", name, chs), func() *faultReader { return &faultReader{data: ext, failAt: -1, chunks: chs} })
			c.Count("split_extension_reads", 1)
		}
	}
	for l := 0; l < len(blk.data); l++ {
		try(fmt.Sprintf("truncate@%d", l), plain(blk.data[:l:l]))
		c.Count("truncations", 1)
	}
	for _, b := range []byte{0x00, ' ', '\n', 0xff, '}', 0x01} {
		try(fmt.Sprintf("append %#02x", b), plain(append(append([]byte(nil), blk.data...), b)))
		withEOF(fmt.Sprintf("append %#02x", b), append(append([]byte(nil), blk.data...), b))
		split(fmt.Sprintf("append %#02x", b), append(append([]byte(nil), blk.data...), b))
		c.Count("extensions", 1)
	}
	try("append whitespace run", plain(append(append([]byte(nil), blk.data...), []byte(" \n\t \n")...)))
	withEOF("append whitespace run", append(append([]byte(nil), blk.data...), []byte(" \n\t \n")...))
	withEOF("append junk run", append(append([]byte(nil), blk.data...), []byte("junkjunkjunk")...))
	split("append whitespace run", append(append([]byte(nil), blk.data...), []byte(" \n\t \n")...))
	split("append junk run", append(append([]byte(nil), blk.data...), []byte("junkjunkjunk")...))
	split("append whitespace then junk", append(append([]byte(nil), blk.data...), []byte("\n \n{}")...))
	for k, o := range others {
		try(fmt.Sprintf("substitute other block %d", k), plain(o.data))
		c.Count("substitutions", 1)
	}
	for k := 0; k <= len(blk.data); k++ {
		kk := k
		try(fmt.Sprintf("read error after %d bytes", kk), func() *faultReader { return &faultReader{data: blk.data, failAt: kk} })
		if kk > 0 {
			try(fmt.Sprintf("read error delivered with the last of %d bytes", kk), func() *faultReader { return &faultReader{data: blk.data, failAt: kk, lastWithErr: true} })
		}
		c.Count("read_errors_injected", 1)
	}
	// a corrupted block whose reader also fails late
	if len(blk.data) > 2 {
		m := append([]byte(nil), blk.data...)
		m[0] ^= 0x40
		try("bitflip@6 + read error at end", func() *faultReader { return &faultReader{data: append(m, 0), failAt: len(m)} })
	}
	chunkings := [][]int{{1}, {1, 2, 3, 5, 8, 13, 21}, {2}, {7, 1}, {3, 1, 4, 1, 5, 9, 2, 6}, {64}}
	for k, ch := range chunkings {
		chs := ch
		try(fmt.Sprintf("chunking %v", chs), func() *faultReader { return &faultReader{data: blk.data, failAt: -1, chunks: chs} })
		c.Count("chunkings", 1)
		_ = k
	}

	// ---- store side
	c06StoreSide(c, rng, blk)
}

type countingFailWriter struct {
	failAt int
	n      int
	wrote  int
}

func (w *countingFailWriter) Write(p []byte) (int, error) {
	if w.n >= w.failAt {
		return 0, fmt.Errorf("injected storage write error at write #%d", w.n)
	}
	w.n++
	w.wrote += len(p)
	return len(p), nil
}

func c06StoreSide(c *fw.Ctx, rng *fw.RNG, blk c06Block) {
	lsys := cidlink.DefaultLinkSystem()
	lp := cidlink.LinkPrototype{Prefix: cid.Prefix{Version: 1, Codec: blk.codec, MhType: blk.proto.MhType, MhLength: blk.proto.MhLength}}
	// the value is recovered by a clean decode of the block
	var src *faultReader
	lsys.StorageReadOpener = func(linking.LinkContext, datamodel.Link) (io.Reader, error) { return src, nil }
	src = &faultReader{data: blk.data, failAt: -1}
	n0, err := lsys.Load(linking.LinkContext{}, blk.link, basicnode.Prototype.Any)
	if err != nil {
		return
	}
	val := obs.ReadOut(n0, obs.Options{Light: true}).Val
	committed := 0
	var w *countingFailWriter
	lsys.StorageWriteOpener = func(linking.LinkContext) (io.Writer, linking.BlockWriteCommitter, error) {
		return w, func(datamodel.Link) error { committed++; return nil }, nil
	}
	// how many writes does a clean store make?
	w = &countingFailWriter{failAt: 1 << 30}
	if _, err := lsys.Store(linking.LinkContext{}, lp, n0); err != nil {
		c.Deviate("C06:clean-store-fails:"+errClass(err), err.Error())
		return
	}
	writes := w.n
	for k := 0; k < writes; k++ {
		committed = 0
		w = &countingFailWriter{failAt: k}
		var lnk datamodel.Link
		var serr error
		if c.Guard("C06:Store", func() { lnk, serr = lsys.Store(linking.LinkContext{}, lp, n0) }) {
			continue
		}
		c.Count("store_writer_faults", 1)
		if serr == nil || committed > 0 {
			c.Deviate(fmt.Sprintf("C06:store-commits-after-write-error:%#x", blk.codec), fmt.Sprintf("storage writer failed at its write #%d of %d, Store returned link=%v err=%v and the committer was called %d time(s) (only %d bytes had been written)", k, writes, lnk, serr, committed, w.wrote))
		}
	}
	// encoder failure: a node whose iterators fail after k entries
	entries := 0
	val.Walk(func(x model.Val) { entries += len(x.L) + len(x.M) })
	for k := 0; k < entries; k++ {
		committed = 0
		w = &countingFailWriter{failAt: 1 << 30}
		var serr error
		flt := &fnode.Fault{After: k}
		if c.Guard("C06:Store", func() { _, serr = lsys.Store(linking.LinkContext{}, lp, fnode.NewFaulty(val, flt)) }) {
			continue
		}
		if !flt.Fired {
			continue // the encoder did not reach the faulted access
		}
		c.Count("store_encoder_faults", 1)
		if serr == nil || committed > 0 {
			c.Deviate(fmt.Sprintf("C06:store-commits-after-encode-error:%#x", blk.codec), fmt.Sprintf("the node's iterator failed after %d entries, Store returned err=%v and the committer was called %d time(s)", k, serr, committed))
		}
	}
	// a kind the codec refuses (link in cbor/json, non-bytes in raw)
	if blk.codec == 0x51 || blk.codec == 0x0200 || blk.codec == 0x55 {
		committed = 0
		w = &countingFailWriter{failAt: 1 << 30}
		bad := model.List(model.Int(1), model.Link(model.GenCID(rng)))
		var serr error
		if !c.Guard("C06:Store", func() { _, serr = lsys.Store(linking.LinkContext{}, lp, fnode.New(bad)) }) {
			c.Count("store_encoder_faults", 1)
			if serr == nil || committed > 0 {
				c.Deviate(fmt.Sprintf("C06:store-commits-after-encode-error:%#x", blk.codec), fmt.Sprintf("value the codec cannot encode: Store returned err=%v, committer calls=%d", serr, committed))
			}
		}
	}
}
