package props

import (
	"bytes"
	"encoding/hex"
	"errors"
	"fmt"
	"io"

	cid "github.com/ipfs/go-cid"
	"github.com/ipld/go-ipld-prime/datamodel"
	"github.com/ipld/go-ipld-prime/linking"
	cidlink "github.com/ipld/go-ipld-prime/linking/cid"
	"github.com/ipld/go-ipld-prime/node/basicnode"

	"verif/lib/fnode"
	"verif/lib/fw"
	"verif/lib/model"
	"verif/lib/obs"
	reflink "verif/lib/ref/link"
)

// C06 — no load returns data that does not hash to its link, whatever the storage does.
type c06 struct{}

func init() { fw.Register(c06{}) }

func (c06) ID() string { return "C06" }

func (c06) Plan(tier string) fw.Plan {
	p := fw.Plan{
		Batches: 16, Cases: 24, TimeoutSec: 1200, Level: "fault_enumeration", Exhaustive: true,
		Rule:        "one case = one stored block (codec ∈ {dag-cbor, dag-json, cbor, json, raw}, hasher from go-multihash's core registry incl. identity and truncated digests, 1–300 bytes, incl. blocks whose decoder fails early / succeeds on a prefix / slurps trailing whitespace). For the block and each of Load, LoadRaw, LoadPlusRaw, Fill the storage boundary is faulted exhaustively: every single-bit flip at every offset, every truncation length, six appended-byte classes, substitution by other blocks, a read error after every k bytes, and a family of chunkings (1-byte, Fibonacci, mixed) of the unmodified block. Also: the storage opener failing (with and without a reader), loads into a prototype whose builder refuses the block's kind (a mismatch must outrank assembler errors too; an intact block must not be called a mismatch), and per batch three blocks of 4–64 KiB faulted at and around the 512/4096/32768/65536 buffer boundaries through five reader shapes. Store side: a writer failing at its k-th Write for every k and a node whose iterator fails after every k entries; the committer is a harness closure that records calls. Oracle: stdlib digest of the bytes the reader serves. exhaustive=true refers to these per-block fault classes. Distinct = distinct blocks; non-trivial = block ≥ 8 bytes.",
		Assumptions: []string{"stdlib crypto digests + lib/ref/link decide whether served bytes hash to the link", "TrustedStorage is left false"},
		MinEvents:   []string{"open_errors_injected", "big_block_faulted_loads", "faulted_loads", "bitflips", "truncations", "read_errors_injected", "chunkings", "store_writer_faults", "store_encoder_faults", "must_fail_observed", "must_succeed_observed"},
	}
	if tier == "thorough" {
		p.Batches, p.Cases, p.TimeoutSec = 64, 60, 3000
	}
	return p
}

// faultReader serves data in chunks; after failAt bytes (if >=0) it returns an error.
type faultReader struct {
	data    []byte
	pos     int
	failAt  int // -1 never
	chunks  []int
	ci      int
	zeroGap bool // interleave (0,nil) reads
	gap     bool
	// lastWithErr: the final bytes arrive together with io.EOF (or with the injected error) in one Read,
	// as io.Reader allows and HTTP bodies, decompressors and iotest.DataErrReader do
	lastWithErr bool
}

var errInjectedRead = errors.New("injected storage read error")

func (r *faultReader) Read(p []byte) (int, error) {
	if len(p) == 0 {
		return 0, nil
	}
	if r.zeroGap {
		r.gap = !r.gap
		if r.gap {
			return 0, nil
		}
	}
	limit := len(r.data)
	if r.failAt >= 0 && r.failAt < limit {
		limit = r.failAt
	}
	if r.pos >= limit {
		if r.failAt >= 0 {
			return 0, errInjectedRead
		}
		return 0, io.EOF
	}
	n := len(p)
	if len(r.chunks) > 0 {
		k := r.chunks[r.ci%len(r.chunks)]
		r.ci++
		if k < n {
			n = k
		}
	}
	if n > limit-r.pos {
		n = limit - r.pos
	}
	copy(p, r.data[r.pos:r.pos+n])
	r.pos += n
	if r.lastWithErr && r.pos >= limit {
		if r.failAt >= 0 {
			return n, errInjectedRead
		}
		return n, io.EOF
	}
	return n, nil
}

type c06Block struct {
	codec uint64
	proto reflink.Proto
	data  []byte
	link  datamodel.Link
	desc  string
}

func c06MakeBlock(rng *fw.RNG, lsys *linking.LinkSystem) (c06Block, error) {
	codecs := []uint64{0x71, 0x0129, 0x51, 0x0200, 0x55}
	cd := codecs[rng.Intn(len(codecs))]
	var v model.Val
	if cd == 0x55 {
		v = model.Bytes(rng.Bytes(1 + rng.Intn(120)))
	} else {
		o := c05Domain(cd)
		o.MaxDepth, o.MaxWidth = 3, 4
		o.Uint = false
		for {
			v = model.Gen(rng, o)
			if v.Stats().Nodes <= 40 {
				break
			}
		}
		if rng.Chance(1, 4) {
			// a block that is one scalar: its last token is the block's last write (bytes and links are the
			// multi-token ones in dag-json)
			v = model.GenScalar(rng, o)
		}
	}
	hc := reflink.HashCodes[rng.Intn(len(reflink.HashCodes))]
	ln := -1
	if hc != 0 && rng.Chance(1, 3) {
		ln = 4 + rng.Intn(reflink.DigestSize(hc)-4)
	}
	proto := reflink.Proto{Version: 1, Codec: cd, MhType: hc, MhLength: ln}
	lp := cidlink.LinkPrototype{Prefix: cid.Prefix{Version: 1, Codec: cd, MhType: hc, MhLength: ln}}
	var buf bytes.Buffer
	lsys2 := *lsys
	lsys2.StorageWriteOpener = func(linking.LinkContext) (io.Writer, linking.BlockWriteCommitter, error) {
		return &buf, func(datamodel.Link) error { return nil }, nil
	}
	lnk, err := lsys2.Store(linking.LinkContext{}, lp, fnode.New(v))
	if err != nil {
		return c06Block{}, err
	}
	return c06Block{codec: cd, proto: proto, data: buf.Bytes(), link: lnk, desc: v.Dump()}, nil
}

func (c06) RunCase(c *fw.Ctx, rng *fw.RNG, batch, i int) {
	lsys := cidlink.DefaultLinkSystem()
	var blk c06Block
	for tries := 0; ; tries++ {
		var err error
		blk, err = c06MakeBlock(rng, &lsys)
		if err == nil && len(blk.data) > 0 && len(blk.data) <= 300 {
			break
		}
		if tries > 50 {
			c.Inconclusive("could not construct a corpus block")
			return
		}
	}
	others := make([]c06Block, 0, 6)
	for len(others) < 6 {
		if b, err := c06MakeBlock(rng, &lsys); err == nil {
			others = append(others, b)
		}
	}
	c.Seen(fw.HashString(string(blk.data)+blk.link.Binary()), len(blk.data) >= 8)
	var curFault string
	c.SetCase(func() any {
		return map[string]any{"codec": fmt.Sprintf("%#x", blk.codec), "multihash": fmt.Sprintf("%#x len=%d", blk.proto.MhType, blk.proto.MhLength),
			"block_hex": hex.EncodeToString(blk.data), "value": blk.desc, "link_hex": hex.EncodeToString([]byte(blk.link.Binary())), "fault": curFault}
	})
	if c.WantSample() {
		c.Sample(map[string]any{"codec": fmt.Sprintf("%#x", blk.codec), "multihash": fmt.Sprintf("%#x len=%d", blk.proto.MhType, blk.proto.MhLength), "block_hex": hex.EncodeToString(blk.data), "value": blk.desc})
	}

	// reference result of the clean load
	var cur *faultReader
	lsys.StorageReadOpener = func(linking.LinkContext, datamodel.Link) (io.Reader, error) { return cur, nil }
	cleanNode, cleanErr := func() (datamodel.Node, error) {
		cur = &faultReader{data: blk.data, failAt: -1}
		return lsys.Load(linking.LinkContext{}, blk.link, basicnode.Prototype.Any)
	}()
	if cleanErr != nil {
		c.Deviate("C06:clean-load-fails:"+errClass(cleanErr), fmt.Sprintf("Load of the unmodified block failed: %v", cleanErr))
		return
	}
	cleanVal := obs.ReadOut(cleanNode, obs.Options{Light: true}).Val

	ops := []string{"Load", "LoadRaw", "LoadPlusRaw", "Fill", "Load:rejecting-prototype"}
	// a prototype whose builder refuses the block's top-level kind: the decode then fails in the ASSEMBLER, not
	// in the codec — a hash mismatch must outrank that error as well, and an intact block must fail without
	// being called a mismatch
	var rejecting datamodel.NodePrototype = basicnode.Prototype.String
	if cleanNode.Kind() == datamodel.Kind_String {
		rejecting = basicnode.Prototype.Int
	}
	try := func(fault string, mk func() *faultReader) {
		for _, op := range ops {
			cur = mk()
			curFault = fault + " / " + op
			served := cur.data
			ioErr := cur.failAt >= 0 // the reader ends with an error instead of EOF (possibly after all bytes)
			wantLink, _ := reflink.Of(blk.proto, served)
			hashOK := string(wantLink) == blk.link.Binary()
			var n datamodel.Node
			var raw []byte
			var err error
			if c.Guard("C06:"+op, func() {
				switch op {
				case "Load":
					n, err = lsys.Load(linking.LinkContext{}, blk.link, basicnode.Prototype.Any)
				case "Load:rejecting-prototype":
					n, err = lsys.Load(linking.LinkContext{}, blk.link, rejecting)
				case "LoadRaw":
					raw, err = lsys.LoadRaw(linking.LinkContext{}, blk.link)
				case "LoadPlusRaw":
					n, raw, err = lsys.LoadPlusRaw(linking.LinkContext{}, blk.link, basicnode.Prototype.Any)
				case "Fill":
					nb := basicnode.Prototype.Any.NewBuilder()
					err = lsys.Fill(linking.LinkContext{}, blk.link, nb)
					if err == nil {
						n = nb.Build()
					}
				}
			}) {
				continue
			}
			c.Count("faulted_loads", 1)
			switch {
			case ioErr:
				c.Count("must_fail_observed", 1)
				if err == nil {
					c.Deviate("C06:read-error-swallowed:"+op, fmt.Sprintf("%s: the storage reader failed after %d of %d bytes but %s returned no error", fault, cur.failAt, len(cur.data), op))
				} else if n != nil {
					c.Deviate("C06:node-with-error:"+op, fmt.Sprintf("%s: %s returned a node together with error %v", fault, op, err))
				}
			case !hashOK:
				c.Count("must_fail_observed", 1)
				var hm linking.ErrHashMismatch
				if err == nil {
					c.Deviate("C06:unverified-data-returned:"+op, fmt.Sprintf("%s: served bytes %s do not hash to the link, but %s succeeded (node=%v, raw=%s)", fault, hexClip(served), op, n != nil, hexClip(raw)))
				} else if !errors.As(err, &hm) {
					c.Deviate("C06:not-hash-mismatch-error:"+op, fmt.Sprintf("%s: served bytes do not hash to the link and the reader did not fail, but %s returned %T: %v instead of ErrHashMismatch", fault, op, err, err))
				} else if n != nil || len(raw) > 0 {
					c.Deviate("C06:data-with-mismatch:"+op, fmt.Sprintf("%s: %s returned data together with ErrHashMismatch (node=%v, raw %d bytes)", fault, op, n != nil, len(raw)))
				}
			default:
				c.Count("must_succeed_observed", 1)
				// served bytes hash to the link: same outcome as the clean load
				if bytes.Equal(served, blk.data) && op == "Load:rejecting-prototype" {
					var hm linking.ErrHashMismatch
					if err == nil {
						c.Deviate("C06:rejecting-prototype-accepts", fmt.Sprintf("%s: Load into %T succeeded for a block of kind %v", fault, rejecting, cleanNode.Kind()))
					} else if errors.As(err, &hm) {
						c.Deviate("C06:intact-block-called-mismatch", fmt.Sprintf("%s: the unmodified block, refused by the builder, was reported as a hash mismatch: %v", fault, err))
					} else if n != nil {
						c.Deviate("C06:node-with-error:"+op, fmt.Sprintf("%s: %s returned a node together with error %v", fault, op, err))
					}
					continue
				}
				if bytes.Equal(served, blk.data) {
					if err != nil {
						c.Deviate("C06:intact-block-fails:"+op, fmt.Sprintf("%s: the unmodified block under this read pattern made %s fail: %v", fault, op, err))
						continue
					}
					if n != nil {
						if v := obs.ReadOut(n, obs.Options{Light: true}).Val; !model.Equal(v, cleanVal) {
							c.Deviate("C06:chunking-changes-result:"+op, fmt.Sprintf("%s: %s read %s, plain read gives %s", fault, op, v.Dump(), cleanVal.Dump()))
						}
					}
					if (op == "LoadRaw" || op == "LoadPlusRaw") && !bytes.Equal(raw, blk.data) {
						c.Deviate("C06:raw-differs:"+op, fmt.Sprintf("%s: %s returned raw %s", fault, op, hexClip(raw)))
					}
				}
			}
		}
	}
	plain := func(data []byte) func() *faultReader {
		return func() *faultReader { return &faultReader{data: data, failAt: -1} }
	}
	// the same bytes with the last ones delivered together with io.EOF, in a few chunk sizes (so that the
	// data+EOF read carries 1 byte, a few, or everything)
	withEOF := func(name string, data []byte) {
		for _, ch := range [][]int{nil, {1}, {len(data) - 1, 64}, {7}} {
			chs := ch
			if len(chs) > 0 && chs[0] <= 0 {
				continue
			}
			try(fmt.Sprintf("%s, last bytes with io.EOF, chunks %v", name, chs), func() *faultReader {
				return &faultReader{data: data, failAt: -1, chunks: chs, lastWithErr: true}
			})
			c.Count("data_with_eof_reads", 1)
		}
	}
	for bit := 0; bit < len(blk.data)*8; bit++ {
		m := append([]byte(nil), blk.data...)
		m[bit/8] ^= 1 << (bit % 8)
		try(fmt.Sprintf("bitflip@%d", bit), plain(m))
		c.Count("bitflips", 1)
		if bit%8 == 3 || bit >= (len(blk.data)-2)*8 {
			withEOF(fmt.Sprintf("bitflip@%d", bit), m)
		}
	}
	withEOF("unmodified block", blk.data)
	// an extended block arriving in pieces: the genuine block first (a short read ending exactly at its end),
	// then the extension — two network packets, or a buffered reader refilling
	split := func(name string, ext []byte) {
		for _, ch := range [][]int{{len(blk.data), 1 << 20}, {1}, {len(blk.data) - 1, 1, 1 << 20}} {
			chs := ch
			if chs[0] <= 0 {
				continue
			}
			try(fmt.Sprintf("%s, arriving in pieces %v", name, chs), func() *faultReader { return &faultReader{data: ext, failAt: -1, chunks: chs} })
			c.Count("split_extension_reads", 1)
		}
	}
	for l := 0; l < len(blk.data); l++ {
		try(fmt.Sprintf("truncate@%d", l), plain(blk.data[:l:l]))
		c.Count("truncations", 1)
	}
	for _, b := range []byte{0x00, ' ', '\n', 0xff, '}', 0x01} {
		try(fmt.Sprintf("append %#02x", b), plain(append(append([]byte(nil), blk.data...), b)))
		withEOF(fmt.Sprintf("append %#02x", b), append(append([]byte(nil), blk.data...), b))
		split(fmt.Sprintf("append %#02x", b), append(append([]byte(nil), blk.data...), b))
		c.Count("extensions", 1)
	}
	try("append whitespace run", plain(append(append([]byte(nil), blk.data...), []byte(" \n\t \n")...)))
	withEOF("append whitespace run", append(append([]byte(nil), blk.data...), []byte(" \n\t \n")...))
	withEOF("append junk run", append(append([]byte(nil), blk.data...), []byte("junkjunkjunk")...))
	split("append whitespace run", append(append([]byte(nil), blk.data...), []byte(" \n\t \n")...))
	split("append junk run", append(append([]byte(nil), blk.data...), []byte("junkjunkjunk")...))
	split("append whitespace then junk", append(append([]byte(nil), blk.data...), []byte("\n \n{}")...))
	for k, o := range others {
		try(fmt.Sprintf("substitute other block %d", k), plain(o.data))
		c.Count("substitutions", 1)
	}
	for k := 0; k <= len(blk.data); k++ {
		kk := k
		try(fmt.Sprintf("read error after %d bytes", kk), func() *faultReader { return &faultReader{data: blk.data, failAt: kk} })
		if kk > 0 {
			try(fmt.Sprintf("read error delivered with the last of %d bytes", kk), func() *faultReader { return &faultReader{data: blk.data, failAt: kk, lastWithErr: true} })
		}
		c.Count("read_errors_injected", 1)
	}
	// a corrupted block whose reader also fails late
	if len(blk.data) > 2 {
		m := append([]byte(nil), blk.data...)
		m[0] ^= 0x40
		try("bitflip@6 + read error at end", func() *faultReader { return &faultReader{data: append(m, 0), failAt: len(m)} })
	}
	chunkings := [][]int{{1}, {1, 2, 3, 5, 8, 13, 21}, {2}, {7, 1}, {3, 1, 4, 1, 5, 9, 2, 6}, {64}}
	for k, ch := range chunkings {
		chs := ch
		try(fmt.Sprintf("chunking %v", chs), func() *faultReader { return &faultReader{data: blk.data, failAt: -1, chunks: chs} })
		c.Count("chunkings", 1)
		_ = k
	}

	// ---- storage OPEN errors: the opener fails, with and without handing out a reader as well
	for _, withReader := range []bool{false, true} {
		wr := withReader
		lsys.StorageReadOpener = func(linking.LinkContext, datamodel.Link) (io.Reader, error) {
			if wr {
				return &faultReader{data: blk.data, failAt: -1}, errInjectedOpen
			}
			return nil, errInjectedOpen
		}
		for _, op := range ops {
			curFault = fmt.Sprintf("open error (reader also returned: %v) / %s", wr, op)
			var n datamodel.Node
			var raw []byte
			var err error
			if c.Guard("C06:"+op, func() {
				switch op {
				case "Load", "Load:rejecting-prototype":
					n, err = lsys.Load(linking.LinkContext{}, blk.link, basicnode.Prototype.Any)
				case "LoadRaw":
					raw, err = lsys.LoadRaw(linking.LinkContext{}, blk.link)
				case "LoadPlusRaw":
					n, raw, err = lsys.LoadPlusRaw(linking.LinkContext{}, blk.link, basicnode.Prototype.Any)
				case "Fill":
					nb := basicnode.Prototype.Any.NewBuilder()
					err = lsys.Fill(linking.LinkContext{}, blk.link, nb)
				}
			}) {
				continue
			}
			c.Count("open_errors_injected", 1)
			if err == nil {
				c.Deviate("C06:open-error-swallowed:"+op, fmt.Sprintf("the storage opener failed but %s returned no error (node=%v, raw %d bytes)", op, n != nil, len(raw)))
			} else if n != nil || len(raw) > 0 {
				c.Deviate("C06:data-with-open-error:"+op, fmt.Sprintf("%s returned data together with the opener's error %v", op, err))
			}
		}
	}
	// ---- store side
	c06StoreSide(c, rng, blk)
	if i == 0 {
		c06BigBlocks(c, rng)
	}
}

var errInjectedOpen = errors.New("injected storage open error")

// c06BigBlocks: blocks that span the buffer sizes readers and hashers work in (512, 4096, 32 KiB, 64 KiB).
// Faults are placed at and around those boundaries and at both ends rather than at every offset; every load
// form; the same oracle. (A buffering layer that mishandles the boundary between two fills is invisible on the
// ≤ 300-byte corpus blocks.)
func c06BigBlocks(c *fw.Ctx, rng *fw.RNG) {
	lsys := cidlink.DefaultLinkSystem()
	type big struct {
		codec uint64
		v     model.Val
	}
	sizes := []int{4096, 4097, 5000, 32768, 40000, 65536 + 17}
	sz := sizes[rng.Intn(len(sizes))]
	long := string(bytes.Repeat([]byte("0123456789abcdef"), sz/16+1)[:sz])
	bigs := []big{
		{0x55, model.Bytes(rng.Bytes(sz))},
		{0x71, model.List(model.Bytes(rng.Bytes(sz/2)), model.Map(model.E("k", model.String(long[:sz/2]))), model.Int(7))},
		{0x0129, model.Map(model.E("a", model.String(long)), model.E("z", model.List(model.Int(1), model.Int(2))))},
	}
	for _, b := range bigs {
		hc := []uint64{0x12, 0x13, 0x11, 0xd5, 0x20, 0x1015}[rng.Intn(6)]
		proto := reflink.Proto{Version: 1, Codec: b.codec, MhType: hc, MhLength: -1}
		lp := cidlink.LinkPrototype{Prefix: cid.Prefix{Version: 1, Codec: b.codec, MhType: hc, MhLength: -1}}
		var buf bytes.Buffer
		lsys.StorageWriteOpener = func(linking.LinkContext) (io.Writer, linking.BlockWriteCommitter, error) {
			return &buf, func(datamodel.Link) error { return nil }, nil
		}
		lnk, err := lsys.Store(linking.LinkContext{}, lp, fnode.New(b.v))
		if err != nil {
			continue
		}
		data := append([]byte(nil), buf.Bytes()...)
		want := model.SortKeys(b.v, model.BytewiseLess)
		var curFault string
		c.SetCase(func() any {
			return map[string]any{"family": "big block", "codec": fmt.Sprintf("%#x", b.codec), "multihash": fmt.Sprintf("%#x", hc), "block_len": len(data), "fault": curFault}
		})
		c.Count("big_blocks", 1)
		var cur *faultReader
		lsys.StorageReadOpener = func(linking.LinkContext, datamodel.Link) (io.Reader, error) { return cur, nil }
		try := func(fault string, mk func() *faultReader) {
			for _, op := range []string{"Load", "LoadRaw", "LoadPlusRaw", "Fill"} {
				cur = mk()
				curFault = fault + " / " + op
				served := cur.data
				if cur.failAt >= 0 && cur.failAt < len(served) {
					served = served[:cur.failAt]
				}
				ioErr := cur.failAt >= 0
				wl, _ := reflink.Of(proto, cur.data)
				hashOK := string(wl) == lnk.Binary()
				var n datamodel.Node
				var raw []byte
				var err error
				if c.Guard("C06:"+op, func() {
					switch op {
					case "Load":
						n, err = lsys.Load(linking.LinkContext{}, lnk, basicnode.Prototype.Any)
					case "LoadRaw":
						raw, err = lsys.LoadRaw(linking.LinkContext{}, lnk)
					case "LoadPlusRaw":
						n, raw, err = lsys.LoadPlusRaw(linking.LinkContext{}, lnk, basicnode.Prototype.Any)
					case "Fill":
						nb := basicnode.Prototype.Any.NewBuilder()
						if err = lsys.Fill(linking.LinkContext{}, lnk, nb); err == nil {
							n = nb.Build()
						}
					}
				}) {
					continue
				}
				c.Count("faulted_loads", 1)
				c.Count("big_block_faulted_loads", 1)
				var hm linking.ErrHashMismatch
				switch {
				case ioErr:
					if err == nil {
						c.Deviate("C06:read-error-swallowed:"+op, fmt.Sprintf("big block (%d bytes), %s: the reader failed after %d bytes but %s returned no error", len(data), fault, cur.failAt, op))
					} else if n != nil {
						c.Deviate("C06:node-with-error:"+op, fmt.Sprintf("big block, %s: node together with error %v", fault, err))
					}
				case !hashOK:
					if err == nil {
						c.Deviate("C06:unverified-data-returned:"+op, fmt.Sprintf("big block (%d bytes), %s: served bytes do not hash to the link, but %s succeeded", len(data), fault, op))
					} else if !errors.As(err, &hm) {
						c.Deviate("C06:not-hash-mismatch-error:"+op, fmt.Sprintf("big block (%d bytes), %s: %s returned %T: %v instead of ErrHashMismatch", len(data), fault, op, err, err))
					} else if n != nil || len(raw) > 0 {
						c.Deviate("C06:data-with-mismatch:"+op, fmt.Sprintf("big block, %s: data together with ErrHashMismatch", fault))
					}
				default:
					if err != nil {
						c.Deviate("C06:intact-block-fails:"+op, fmt.Sprintf("big block (%d bytes), %s: %s failed: %v", len(data), fault, op, err))
						continue
					}
					if n != nil {
						if v := obs.ReadOut(n, obs.Options{Light: true}).Val; !model.Equal(v, want) {
							c.Deviate("C06:chunking-changes-result:"+op, fmt.Sprintf("big block (%d bytes), %s: %s read a different value (%d nodes)", len(data), fault, op, v.Stats().Nodes))
						}
					}
					if (op == "LoadRaw" || op == "LoadPlusRaw") && !bytes.Equal(raw, data) {
						c.Deviate("C06:raw-differs:"+op, fmt.Sprintf("big block (%d bytes), %s: raw has %d bytes", len(data), fault, len(raw)))
					}
				}
			}
		}
		var pos []int
		for _, p := range []int{0, 1, 511, 512, 513, 4095, 4096, 4097, 8191, 8192, 32767, 32768, 32769, 65535, 65536, len(data) / 2, len(data) - 2, len(data) - 1} {
			if p >= 0 && p < len(data) {
				pos = append(pos, p)
			}
		}
		shapes := []func(d []byte, failAt int) *faultReader{
			func(d []byte, f int) *faultReader { return &faultReader{data: d, failAt: f} },
			func(d []byte, f int) *faultReader { return &faultReader{data: d, failAt: f, chunks: []int{4096}} },
			func(d []byte, f int) *faultReader {
				return &faultReader{data: d, failAt: f, chunks: []int{512}, lastWithErr: true}
			},
			func(d []byte, f int) *faultReader {
				return &faultReader{data: d, failAt: f, chunks: []int{4096, 1}, lastWithErr: true}
			},
			func(d []byte, f int) *faultReader {
				return &faultReader{data: d, failAt: f, chunks: []int{1000, 3, 4096}}
			},
		}
		for si, sh := range shapes {
			mk := sh
			try(fmt.Sprintf("unmodified, reader shape %d", si), func() *faultReader { return mk(data, -1) })
		}
		for _, p := range pos {
			m := append([]byte(nil), data...)
			m[p] ^= 1 << uint(rng.Intn(8))
			mk := shapes[rng.Intn(len(shapes))]
			try(fmt.Sprintf("bitflip in byte %d", p), func() *faultReader { return mk(m, -1) })
			pp := p
			mk2 := shapes[rng.Intn(len(shapes))]
			try(fmt.Sprintf("truncate@%d", pp), func() *faultReader { return mk2(data[:pp:pp], -1) })
			mk3 := shapes[rng.Intn(len(shapes))]
			try(fmt.Sprintf("read error after %d bytes", pp), func() *faultReader { return mk3(data, pp) })
		}
		for _, ext := range [][]byte{{0}, {' '}, []byte("\n"), bytes.Repeat([]byte{' '}, 5000), bytes.Repeat([]byte{0xff}, 4096)} {
			e := append(append([]byte(nil), data...), ext...)
			for si, sh := range shapes {
				mk := sh
				try(fmt.Sprintf("extended by %d bytes (%#02x…), reader shape %d", len(ext), ext[0], si), func() *faultReader { return mk(e, -1) })
			}
			// the genuine block first, then the extension in a separate read
			try(fmt.Sprintf("extended by %d bytes, arriving after the genuine block", len(ext)), func() *faultReader {
				return &faultReader{data: e, failAt: -1, chunks: []int{len(data), 1 << 20}}
			})
		}
	}
}

type countingFailWriter struct {
	failAt int
	n      int
	wrote  int
}

func (w *countingFailWriter) Write(p []byte) (int, error) {
	if w.n >= w.failAt {
		return 0, fmt.Errorf("injected storage write error at write #%d", w.n)
	}
	w.n++
	w.wrote += len(p)
	return len(p), nil
}

func c06StoreSide(c *fw.Ctx, rng *fw.RNG, blk c06Block) {
	lsys := cidlink.DefaultLinkSystem()
	lp := cidlink.LinkPrototype{Prefix: cid.Prefix{Version: 1, Codec: blk.codec, MhType: blk.proto.MhType, MhLength: blk.proto.MhLength}}
	// the value is recovered by a clean decode of the block
	var src *faultReader
	lsys.StorageReadOpener = func(linking.LinkContext, datamodel.Link) (io.Reader, error) { return src, nil }
	src = &faultReader{data: blk.data, failAt: -1}
	n0, err := lsys.Load(linking.LinkContext{}, blk.link, basicnode.Prototype.Any)
	if err != nil {
		return
	}
	val := obs.ReadOut(n0, obs.Options{Light: true}).Val
	committed := 0
	var w *countingFailWriter
	lsys.StorageWriteOpener = func(linking.LinkContext) (io.Writer, linking.BlockWriteCommitter, error) {
		return w, func(datamodel.Link) error { committed++; return nil }, nil
	}
	// how many writes does a clean store make?
	w = &countingFailWriter{failAt: 1 << 30}
	if _, err := lsys.Store(linking.LinkContext{}, lp, n0); err != nil {
		c.Deviate("C06:clean-store-fails:"+errClass(err), err.Error())
		return
	}
	writes := w.n
	for k := 0; k < writes; k++ {
		committed = 0
		w = &countingFailWriter{failAt: k}
		var lnk datamodel.Link
		var serr error
		if c.Guard("C06:Store", func() { lnk, serr = lsys.Store(linking.LinkContext{}, lp, n0) }) {
			continue
		}
		c.Count("store_writer_faults", 1)
		if serr == nil || committed > 0 {
			c.Deviate(fmt.Sprintf("C06:store-commits-after-write-error:%#x", blk.codec), fmt.Sprintf("storage writer failed at its write #%d of %d, Store returned link=%v err=%v and the committer was called %d time(s) (only %d bytes had been written)", k, writes, lnk, serr, committed, w.wrote))
		}
	}
	// the write opener fails (with and without handing out a writer and committer as well); the committer fails
	for _, withWriter := range []bool{false, true} {
		committed = 0
		ww := withWriter
		lsysO := lsys
		lsysO.StorageWriteOpener = func(linking.LinkContext) (io.Writer, linking.BlockWriteCommitter, error) {
			if ww {
				return &countingFailWriter{failAt: 1 << 30}, func(datamodel.Link) error { committed++; return nil }, errInjectedOpen
			}
			return nil, nil, errInjectedOpen
		}
		var serr error
		if !c.Guard("C06:Store", func() { _, serr = lsysO.Store(linking.LinkContext{}, lp, n0) }) {
			c.Count("store_open_errors", 1)
			if serr == nil || committed > 0 {
				c.Deviate("C06:store-ignores-open-error", fmt.Sprintf("the storage write opener failed (writer also returned: %v); Store returned err=%v, committer calls=%d", ww, serr, committed))
			}
		}
	}
	{
		lsysC := lsys
		errCommit := errors.New("injected commit error")
		lsysC.StorageWriteOpener = func(linking.LinkContext) (io.Writer, linking.BlockWriteCommitter, error) {
			return &countingFailWriter{failAt: 1 << 30}, func(datamodel.Link) error { return errCommit }, nil
		}
		var serr error
		if !c.Guard("C06:Store", func() { _, serr = lsysC.Store(linking.LinkContext{}, lp, n0) }) {
			c.Count("store_commit_errors", 1)
			if serr == nil {
				c.Deviate("C06:store-ignores-commit-error", "the committer returned an error and Store returned nil")
			}
		}
	}
	// encoder failure: a node whose iterators fail after k entries
	entries := 0
	val.Walk(func(x model.Val) { entries += len(x.L) + len(x.M) })
	for k := 0; k < entries; k++ {
		committed = 0
		w = &countingFailWriter{failAt: 1 << 30}
		var serr error
		flt := &fnode.Fault{After: k}
		if c.Guard("C06:Store", func() { _, serr = lsys.Store(linking.LinkContext{}, lp, fnode.NewFaulty(val, flt)) }) {
			continue
		}
		if !flt.Fired {
			continue // the encoder did not reach the faulted access
		}
		c.Count("store_encoder_faults", 1)
		if serr == nil || committed > 0 {
			c.Deviate(fmt.Sprintf("C06:store-commits-after-encode-error:%#x", blk.codec), fmt.Sprintf("the node's iterator failed after %d entries, Store returned err=%v and the committer was called %d time(s)", k, serr, committed))
		}
	}
	// ... and a node whose scalar accessors (values and map keys) fail as well, after every k accesses
	// (each position twice: failing from there on, and failing exactly once — an encoder that swallows one error
	// trips over the next unless the next access succeeds again)
	for k2 := 0; k2 < 800; k2++ {
		k := k2 / 2
		committed = 0
		w = &countingFailWriter{failAt: 1 << 30}
		var serr error
		flt := &fnode.Fault{After: k, Scalars: true, Once: k2%2 == 1}
		if c.Guard("C06:Store", func() { _, serr = lsys.Store(linking.LinkContext{}, lp, fnode.NewFaulty(val, flt)) }) {
			continue
		}
		if !flt.Fired {
			break // the encoder finished before the k-th access
		}
		c.Count("store_encoder_scalar_faults", 1)
		if serr == nil || committed > 0 {
			c.Deviate(fmt.Sprintf("C06:store-commits-after-encode-error:%#x", blk.codec), fmt.Sprintf("the node's %d-th accessor call (iterators and scalar accessors counted) failed, Store returned err=%v and the committer was called %d time(s)", k, serr, committed))
		}
	}
	// a kind the codec refuses (link in cbor/json, non-bytes in raw)
	if blk.codec == 0x51 || blk.codec == 0x0200 || blk.codec == 0x55 {
		committed = 0
		w = &countingFailWriter{failAt: 1 << 30}
		bad := model.List(model.Int(1), model.Link(model.GenCID(rng)))
		var serr error
		if !c.Guard("C06:Store", func() { _, serr = lsys.Store(linking.LinkContext{}, lp, fnode.New(bad)) }) {
			c.Count("store_encoder_faults", 1)
			if serr == nil || committed > 0 {
				c.Deviate(fmt.Sprintf("C06:store-commits-after-encode-error:%#x", blk.codec), fmt.Sprintf("value the codec cannot encode: Store returned err=%v, committer calls=%d", serr, committed))
			}
		}
	}
}
