package props

import (
	"fmt"
	"math"
	"verif/lib/schemagen"
	"verif/lib/typedmon"

	"github.com/ipld/go-ipld-prime/datamodel"
	"github.com/ipld/go-ipld-prime/node/basicnode"
	"github.com/ipld/go-ipld-prime/node/bindnode"
	"github.com/ipld/go-ipld-prime/schema"

	"verif/lib/build"
	"verif/lib/fnode"
	"verif/lib/fw"
	"verif/lib/model"
	"verif/lib/obs"
)

// C01 — what is built through the builder API is what the node API reads back.
type c01 struct{}

func init() { fw.Register(c01{}) }

func (c01) ID() string { return "C01" }

func (c01) Plan(tier string) fw.Plan {
	p := fw.Plan{
		Batches: 16, Cases: 1800, TimeoutSec: 900, Level: "exploration",
		Rule:        "values drawn boundary-biased over all nine kinds (ints over int64 ∪ uint64, NaN/Inf floats, arbitrary byte strings as strings/keys/bytes, CIDs, empty/nested/wide containers); each built by ≥2 randomly drawn legal build programs (AssembleEntry vs AssembleKey/AssembleValue with AssignString/AssignNode keys; Assign<Kind> vs AssignNode from basicnode or a harness-owned node implementation; whole-subtree AssignNode; size hints −1,0,n−1,n,n+3,1024) into basicnode Any and the kind's own basicnode prototype, and into bindnode Any / {String:Any} / [Any] prototypes; the full read-out monitor runs on each result; DeepEqual and Copy are compared with model equality on equal, reordered and one-leaf-different pairs. Non-trivial: a container with ≥2 children or nesting depth ≥2; distinct by canonical hash.",
		Assumptions: []string{"the read-out monitor (lib/obs) and the abstract value model are the oracle", "typed implementations are covered in their own value space by C08/C13; here only the bindnode Any/map/list bindings"},
		MinEvents:   []string{"builds_basic_any", "builds_basic_kind_proto", "builds_bindnode", "readout_events", "deepequal_calls", "copy_calls"},
	}
	if tier == "thorough" {
		p.Batches, p.Cases, p.TimeoutSec = 64, 3000, 3300
	}
	return p
}

var c01Opts = model.GenOpts{MaxDepth: 5, MaxWidth: 7, Uint: true, NonUTF8: true, Links: true, NaNInf: true, Wide: true}

var (
	c01TS        *schema.TypeSystem
	c01AnyP      schema.TypedPrototype
	c01MapAnyP   schema.TypedPrototype
	c01LstAnyP   schema.TypedPrototype
	c01MapAnyNNP schema.TypedPrototype
)

func c01Init() {
	if c01TS != nil {
		return
	}
	ts := new(schema.TypeSystem)
	ts.Init()
	ts.Accumulate(schema.SpawnString("String"))
	ts.Accumulate(schema.SpawnAny("Any"))
	ts.Accumulate(schema.SpawnMap("MapAny", "String", "Any", true)) // nullable: bindnode keeps null out of a plain Any
	ts.Accumulate(schema.SpawnList("ListAny", "Any", true))
	ts.Accumulate(schema.SpawnMap("MapAnyNN", "String", "Any", false)) // values held as datamodel.Node itself, no pointer
	c01TS = ts
	c01AnyP = bindnode.Prototype((*datamodel.Node)(nil), ts.TypeByName("Any"))
	c01MapAnyP = bindnode.Prototype(nil, ts.TypeByName("MapAny"))
	c01LstAnyP = bindnode.Prototype(nil, ts.TypeByName("ListAny"))
	c01MapAnyNNP = bindnode.Prototype(nil, ts.TypeByName("MapAnyNN"))
}

func hasNaN(v model.Val) bool {
	found := false
	v.Walk(func(x model.Val) {
		if x.K == model.KFloat && x.F != x.F {
			found = true
		}
	})
	return found
}

// mutateLeaf returns a copy of v with one leaf (or one key) changed.
func mutateLeaf(v model.Val, rng *fw.RNG) model.Val {
	switch v.K {
	case model.KList:
		if len(v.L) == 0 {
			return model.List(model.Null())
		}
		out := append([]model.Val(nil), v.L...)
		i := rng.Intn(len(out))
		out[i] = mutateLeaf(out[i], rng)
		return model.Val{K: model.KList, L: out}
	case model.KMap:
		if len(v.M) == 0 {
			return model.Map(model.E("x", model.Null()))
		}
		out := append([]model.Entry(nil), v.M...)
		i := rng.Intn(len(out))
		if rng.Chance(1, 4) {
			k := out[i].K + "'"
			for _, e := range out {
				if e.K == k {
					k += "'"
				}
			}
			out[i].K = k
		} else {
			out[i].V = mutateLeaf(out[i].V, rng)
		}
		return model.Val{K: model.KMap, M: out}
	case model.KNull:
		return model.Bool(false)
	case model.KBool:
		return model.Bool(!v.B)
	case model.KInt:
		if v.I == math.MaxInt64 {
			return model.Int(v.I - 1)
		}
		return model.Int(v.I + 1)
	case model.KUint:
		return model.Uint(v.U - 1)
	case model.KFloat:
		if v.F != v.F || math.IsInf(v.F, 0) {
			return model.Float(1)
		}
		return model.Float(math.Float64frombits(math.Float64bits(v.F) ^ 1))
	case model.KString:
		return model.String(v.S + "\x00")
	case model.KBytes:
		return model.Bytes(append([]byte(v.S), 0))
	case model.KLink:
		return model.Link(model.MakeCID(1, 0x55, 0x00, []byte(v.S)[:len(v.S)/2]))
	}
	return v
}

func kindProto(v model.Val) datamodel.NodePrototype {
	switch v.K {
	case model.KBool:
		return basicnode.Prototype.Bool
	case model.KInt:
		return basicnode.Prototype.Int
	case model.KFloat:
		return basicnode.Prototype.Float
	case model.KString:
		return basicnode.Prototype.String
	case model.KBytes:
		return basicnode.Prototype.Bytes
	case model.KLink:
		return basicnode.Prototype.Link
	case model.KList:
		return basicnode.Prototype.List
	case model.KMap:
		return basicnode.Prototype.Map
	}
	return nil
}

func (c01) RunCase(c *fw.Ctx, rng *fw.RNG, batch, i int) {
	c01Init()
	opts := c01Opts
	if deepCase(c, i) {
		opts.MaxDepth, opts.MaxWidth = 8, 12
	}
	v := model.Gen(rng, opts)
	st := v.Stats()
	var lastProg string
	c.SetCase(func() any { return map[string]any{"value": v.Dump(), "program": lastProg} })
	c.Seen(v.Hash(), st.MaxDepth >= 2 || (st.Maps+st.Lists > 0 && st.Nodes >= 3))
	if c.WantSample() && st.Nodes > 4 && st.Nodes < 30 {
		c.Sample(map[string]any{"value": v.Dump()})
	}
	light := st.Nodes > 4000

	type built struct {
		label string
		n     datamodel.Node
	}
	var nodes []built

	verify := func(label string, n datamodel.Node, strict bool) {
		ro := obs.ReadOut(n, obs.Options{Light: light, StrictWrongKind: strict})
		c.Count("readout_events", ro.Events)
		if !model.Equal(ro.Val, v) {
			c.Deviate("C01:readback-differs:"+kindPair(ro.Val, v), fmt.Sprintf("%s: built %s\n but the node reads back as %s\n program: %s", label, v.Dump(), ro.Val.Dump(), lastProg))
		}
		for _, is := range ro.Issues {
			c.Deviate("C01:"+is.Sig, fmt.Sprintf("%s: %s\n program: %s", label, is.String(), lastProg))
			break
		}
		nodes = append(nodes, built{label, n})
	}

	buildInto := func(label, counter string, proto datamodel.NodePrototype, strict bool, opts build.Prog) {
		prog := opts
		prog.R = rng.Fork()
		var n datamodel.Node
		var err error
		panicked := c.Guard("C01:build:"+label, func() { n, err = build.With(proto, v, &prog) })
		lastProg = prog.Trace.String()
		if panicked {
			return
		}
		c.Count(counter, 1)
		if err != nil {
			sig := "C01:build-error:" + label + ":" + errClass(err)
			if st.Uints > 0 {
				sig = "C01:build-error-uint:" + label + ":" + errClass(err)
			}
			c.Deviate(sig, fmt.Sprintf("%s: a legal build program failed: %v\n program: %s", label, err, lastProg))
			return
		}
		verify(label, n, strict)
	}

	buildInto("basicnode.Any", "builds_basic_any", basicnode.Prototype.Any, true, build.Prog{})
	buildInto("basicnode.Any", "builds_basic_any", basicnode.Prototype.Any, true, build.Prog{})
	if kp := kindProto(v); kp != nil {
		buildInto("basicnode.kind-prototype", "builds_basic_kind_proto", kp, true, build.Prog{})
		buildInto("basicnode.kind-prototype", "builds_basic_kind_proto", kp, true, build.Prog{})
	}
	// bindnode bindings of Any / {String:Any} / [Any]
	if i == 0 && batch == 0 {
		// dedicated probe: a top-level binding of the schema type Any
		nb := c01AnyP.NewBuilder()
		var k datamodel.Kind
		if !c.Guard("C01:bindnode-toplevel-any", func() { nb.AssignInt(5); k = nb.Build().Kind() }) && k != datamodel.Kind_Int {
			c.Deviate("C01:bindnode-toplevel-any-kind-invalid", fmt.Sprintf("bindnode.Prototype((*datamodel.Node)(nil), Any): after AssignInt(5) the built node reports Kind()=%v", k))
		}
	}
	if i%2 == 0 {
		if v.K == model.KMap {
			buildInto("bindnode.{String:Any}", "builds_bindnode", c01MapAnyP, false, build.Prog{})
		}
		if v.K == model.KList {
			buildInto("bindnode.[Any]", "builds_bindnode", c01LstAnyP, false, build.Prog{})
		}
	}
	// One builder, two values: build v, keep the node, Reset, build a second value of the same kind with the
	// same builder (size hints drawn so that the second often fits the first's capacity). Both nodes must read
	// back as what was built into them — Reset is one of the legal calls of the builder API (added for
	// round-3 seed C01-7, a list builder that recycles its backing array across Reset).
	if i%3 == 1 && (v.K == model.KList || v.K == model.KMap) {
		for _, rp := range []struct {
			label string
			proto datamodel.NodePrototype
		}{{"basicnode.Any", basicnode.Prototype.Any}, {"basicnode.kind-prototype", kindProto(v)}} {
			second := mutateLeaf(v, rng)
			if rng.Bool() {
				second = model.Gen(rng, model.GenOpts{MaxDepth: 2, MaxWidth: 4})
				for second.K != v.K {
					second = mutateLeaf(v, rng)
				}
			}
			nb := rp.proto.NewBuilder()
			p1, p2 := build.Prog{R: rng.Fork()}, build.Prog{R: rng.Fork()}
			var e1, e2 error
			var n1, n2 datamodel.Node
			if c.Guard("C01:build-reset-build:"+rp.label, func() {
				if e1 = build.Assemble(nb, v, &p1); e1 != nil {
					return
				}
				n1 = nb.Build()
				nb.Reset()
				if e2 = build.Assemble(nb, second, &p2); e2 != nil {
					return
				}
				n2 = nb.Build()
			}) {
				continue
			}
			lastProg = p1.Trace.String() + " ; Build ; Reset ; " + p2.Trace.String() + " ; Build"
			if e1 != nil || e2 != nil {
				c.Deviate("C01:build-error:reset-reuse:"+rp.label, fmt.Sprintf("%s: a legal build/Reset/build program failed: %v / %v\n program: %s", rp.label, e1, e2, lastProg))
				continue
			}
			c.Count("builder_reuse_after_reset", 1)
			r1 := obs.ReadOut(n1, obs.Options{Light: true})
			r2 := obs.ReadOut(n2, obs.Options{Light: true})
			c.Count("readout_events", r1.Events+r2.Events)
			if !model.Equal(r1.Val, v) {
				c.Deviate("C01:readback-differs:first-node-after-builder-reuse", fmt.Sprintf("%s: built %s, Reset, built %s with the same builder;\n the FIRST node now reads back as %s\n program: %s", rp.label, v.Dump(), second.Dump(), r1.Val.Dump(), lastProg))
			}
			if !model.Equal(r2.Val, second) {
				c.Deviate("C01:readback-differs:second-node-after-builder-reuse", fmt.Sprintf("%s: built %s, Reset, built %s with the same builder;\n the second node reads back as %s\n program: %s", rp.label, v.Dump(), second.Dump(), r2.Val.Dump(), lastProg))
			}
		}
	}
	nodes = append(nodes, built{"foreign", fnode.New(v)})
	if i%8 == 3 {
		c01Typed(c, rng)
	}

	// deep equality and copy agree with equality of the abstract values
	if hasNaN(v) {
		return
	}
	deq := func(la, lb string, a, b datamodel.Node, want bool, why string) {
		var got bool
		if c.Guard("C01:deepequal", func() { got = datamodel.DeepEqual(a, b) }) {
			return
		}
		c.Count("deepequal_calls", 1)
		if got != want {
			sig := "C01:deepequal-wrong:" + why
			c.Deviate(sig, fmt.Sprintf("DeepEqual(%s, %s) = %v, model equality says %v (%s) for value %s", la, lb, got, want, why, v.Dump()))
		}
	}
	for a := 0; a < len(nodes); a++ {
		deq(nodes[a].label, "itself", nodes[a].n, nodes[a].n, true, "reflexive")
		b := (a + 1) % len(nodes)
		if a != b {
			deq(nodes[a].label, nodes[b].label, nodes[a].n, nodes[b].n, true, "equal-values")
		}
	}
	if len(nodes) > 0 {
		other := mutateLeaf(v, rng)
		if !model.EqualGo(other, v) {
			on := build.Source(other, rng.Intn(2))
			deq(nodes[0].label, "one-leaf-different", nodes[0].n, on, false, "one-leaf-different")
			deq("one-leaf-different", nodes[0].label, on, nodes[0].n, false, "one-leaf-different")
		}
		if st.MultiKeyMaps > 0 {
			perm := model.Permute(v, rng.Perm)
			if !model.Equal(perm, v) {
				deq(nodes[0].label, "reordered", nodes[0].n, build.Source(perm, rng.Intn(2)), false, "same-entries-other-order")
			}
		}
	}
	// Copy into a fresh builder reads out as v
	for k, src := range nodes {
		if k > 2 && k != len(nodes)-1 {
			continue
		}
		nb := basicnode.Prototype.Any.NewBuilder()
		var err error
		if c.Guard("C01:copy", func() { err = datamodel.Copy(src.n, nb) }) {
			continue
		}
		c.Count("copy_calls", 1)
		if err != nil {
			sig := "C01:copy-error:" + errClass(err)
			if st.Uints > 0 {
				sig = "C01:copy-error-uint"
			}
			c.Deviate(sig, fmt.Sprintf("Copy(%s) failed: %v for value %s", src.label, err, v.Dump()))
			continue
		}
		ro := obs.ReadOut(nb.Build(), obs.Options{Light: true})
		c.Count("readout_events", ro.Events)
		if !model.Equal(ro.Val, v) {
			c.Deviate("C01:copy-differs", fmt.Sprintf("Copy(%s) reads back as %s, source value %s", src.label, ro.Val.Dump(), v.Dump()))
		}
	}
}

// c01Typed: the typed implementations within their schema's value space. C08 compares what the two views
// contain; here the full read-out monitor runs on typed nodes and their representations with the
// kind-inappropriate accessor probes on (bindnode; the checked-in and freshly generated code get the same
// monitor in C12's targets and inside C13's driver).
func c01Typed(c *fw.Ctx, rng *fw.RNG) {
	ts := schemagen.Gen(rng, schemagen.Opts{Types: 3 + rng.Intn(4)})
	lib, err := schemagen.ToLibrary(ts)
	if err != nil {
		c.Inconclusive("library rejects type system: " + err.Error())
		return
	}
	eng := newBindEngine(lib)
	if rng.Bool() {
		eng = newShapedBindEngine(lib, ts, rng)
	}
	for _, t := range ts.Types {
		if t.Name[0] != 'T' {
			continue
		}
		for k := 0; k < 3; k++ {
			tv := schemagen.GenValue(rng, ts, t, 0)
			c.Count("typed_values", 1)
			if k == 0 {
				typedmon.CheckWrongKind(c, eng, ts, t, tv)
			} else {
				typedmon.CheckTypedReadback(c, eng, ts, t, tv, rng)
			}
		}
	}
}
