package props

import (
	"bytes"
	"fmt"
	"github.com/ipld/go-ipld-prime/node/gendemo"
	"io"
	"strings"
	rs "verif/lib/ref/schema"
	"verif/lib/schemagen"
	"verif/lib/typedmon"

	cid "github.com/ipfs/go-cid"
	"github.com/ipld/go-ipld-prime/codec/dagcbor"
	"github.com/ipld/go-ipld-prime/codec/dagjson"
	"github.com/ipld/go-ipld-prime/datamodel"
	"github.com/ipld/go-ipld-prime/linking"
	cidlink "github.com/ipld/go-ipld-prime/linking/cid"
	"github.com/ipld/go-ipld-prime/node/basicnode"
	"github.com/ipld/go-ipld-prime/storage/memstore"
	"github.com/ipld/go-ipld-prime/traversal"
	"github.com/ipld/go-ipld-prime/traversal/selector"
	"github.com/ipld/go-ipld-prime/traversal/selector/builder"

	"verif/lib/build"
	"verif/lib/fnode"
	"verif/lib/fw"
	"verif/lib/model"
	"verif/lib/obs"
	refcbor "verif/lib/ref/cbor"
)

// C11 — a finished node never changes and reading it is repeatable.
type c11 struct{}

func init() { fw.Register(c11{}) }

func (c11) ID() string { return "C11" }

func (c11) Plan(tier string) fw.Plan {
	p := fw.Plan{
		Batches: 16, Cases: 3000, TimeoutSec: 900, Level: "exploration",
		Rule:        "one case = a set of tracked nodes from different producers (basicnode Any/Map/List/kind builders following random build programs, dag-cbor and dag-json decoders into reused builders, bindnode {String:Any}/[Any] bindings, blocks loaded through a LinkSystem (raw and dag-cbor), subset matches on strings/bytes/stream-backed bytes, focused-transform results), each snapshotted by a full read-out right after production, followed by a history of 12 later library operations (re-encode; Copy/AssignNode into other builders that are then extended; explore-all walk; focused transform of the node or of a tree containing it; subset matches read twice; Reset and reuse of the producing builder with similar size hints; further decodes into the same builder; further loads through the same link system; large-bytes readers consumed in different chunkings). After every step every tracked node is read out again and must equal its snapshot. Non-trivial: ≥3 tracked nodes of which one is a container with ≥2 children; distinct by hash of tracked values and step sequence.",
		Assumptions: []string{"the read-out monitor is the observer; the harness never writes into slices it passed in or got back (it keeps private copies and also checks the library left them alone)"},
		MinEvents:   []string{"tracked_nodes", "history_steps", "rereads", "step:reset-reuse", "step:assign-extend", "step:transform", "step:subset", "step:load-more", "step:decode-again", "step:walk", "step:encode"},
	}
	if tier == "thorough" {
		p.Batches, p.Cases, p.TimeoutSec = 64, 4000, 3000
	}
	return p
}

var c11Opts = model.GenOpts{MaxDepth: 4, MaxWidth: 5, Uint: true, NonUTF8: true, Links: true}

type c11Tracked struct {
	label string
	n     datamodel.Node
	snap  model.Val
	nb    datamodel.NodeBuilder // producing builder, if kept
	proto datamodel.NodePrototype
	opts  obs.Options
	// rebuild, when set, assembles a fresh value the (typed) builder accepts
	rebuild func(nb datamodel.NodeBuilder) error
}

var c11ExploreAll selector.Selector

func c11Init() {
	if c11ExploreAll != nil {
		return
	}
	ssb := builder.NewSelectorSpecBuilder(basicnode.Prototype.Any)
	s, err := ssb.ExploreRecursive(selector.RecursionLimitNone(), ssb.ExploreUnion(ssb.Matcher(), ssb.ExploreAll(ssb.ExploreRecursiveEdge()))).Selector()
	if err != nil {
		panic(err)
	}
	c11ExploreAll = s
	c01Init()
}

func (c11) RunCase(c *fw.Ctx, rng *fw.RNG, batch, i int) {
	c11Init()
	var tracked []*c11Tracked
	var steps []string
	c.SetCase(func() any {
		var ts []map[string]string
		for _, t := range tracked {
			ts = append(ts, map[string]string{"producer": t.label, "value": t.snap.Dump()})
		}
		return map[string]any{"tracked": ts, "steps": steps}
	})
	var trackOpts obs.Options
	track := func(label string, n datamodel.Node, nb datamodel.NodeBuilder, proto datamodel.NodePrototype) *c11Tracked {
		opts := trackOpts
		trackOpts = obs.Options{}
		ro := obs.ReadOut(n, opts)
		c.Count("tracked_nodes", 1)
		if len(ro.Issues) > 0 {
			c.Deviate("C11:"+ro.Issues[0].Sig+":fresh:"+label, fmt.Sprintf("freshly produced node (%s): %s", label, ro.FirstIssue()))
		}
		t := &c11Tracked{label: label, n: n, snap: ro.Val, nb: nb, proto: proto, opts: opts}
		tracked = append(tracked, t)
		return t
	}
	// link system shared by the history
	ms := &memstore.Store{}
	lsys := cidlink.DefaultLinkSystem()
	lsys.SetReadStorage(ms)
	lsys.SetWriteStorage(ms)
	// One history in three reads through a storage that serves every block out of ONE buffer it owns and reuses
	// for the next read (a *bytes.Buffer, which offers Bytes()): whatever the storage does with its own memory
	// after a load has returned must not show in the node that load returned (round-4 seed C11-11: Fill handing
	// such a reader straight to the codec, whose raw form keeps the bytes it is given).
	if rng.Chance(1, 3) {
		var shared bytes.Buffer
		lsys.StorageReadOpener = func(lc linking.LinkContext, l datamodel.Link) (io.Reader, error) {
			b, err := ms.Get(lc.Ctx, l.Binary())
			if err != nil {
				return nil, err
			}
			shared.Reset()
			shared.Write(b)
			return &shared, nil
		}
		c.Count("histories_over_buffer_reusing_storage", 1)
	}
	storeBlock := func(codec uint64, v model.Val) (datamodel.Link, error) {
		return lsys.Store(linking.LinkContext{}, cidlink.LinkPrototype{Prefix: cid.Prefix{Version: 1, Codec: codec, MhType: 0x12, MhLength: -1}}, fnode.New(v))
	}
	var links []datamodel.Link

	// ---- producers
	nprod := 3 + rng.Intn(3)
	for k := 0; k < nprod; k++ {
		opts := c11Opts
		if deepCase(c, i) {
			opts.MaxDepth, opts.MaxWidth = 6, 9
		}
		v := model.Gen(rng, opts)
		switch rng.Intn(11) {
		case 10: // typed nodes of the checked-in generated code (node/gendemo), type and representation builders kept
			c12Init()
			type gd struct {
				name  string
				proto datamodel.NodePrototype
				gen   func(*fw.RNG) model.Val
			}
			gds := []gd{{"gendemo.Msg3", gendemo.Type.Msg3, c12GenMsg3}, {"gendemo.Msg3.Repr", gendemo.Type.Msg3__Repr, c12GenMsg3},
				{"gendemo.Map__String__Msg3", gendemo.Type.Map__String__Msg3, c12GenMapMsg3}, {"gendemo.Map__String__Msg3.Repr", gendemo.Type.Map__String__Msg3__Repr, c12GenMapMsg3}}
			g := gds[rng.Intn(len(gds))]
			gr := rng.Fork()
			rebuild := func(nb datamodel.NodeBuilder) (err error) {
				defer func() {
					if r := recover(); r != nil {
						err = fmt.Errorf("panic: %v", r)
					}
				}()
				return build.Assemble(nb, g.gen(gr), &build.Prog{Plain: true})
			}
			nb := g.proto.NewBuilder()
			if rebuild(nb) != nil {
				continue
			}
			c.Count("gendemo_nodes_tracked", 1)
			trackOpts = obs.Options{Typed: true, NoWrongKindProbes: true}
			tt := track("typed "+g.name, nb.Build(), nb, g.proto)
			tt.rebuild = rebuild
		case 8, 9: // typed nodes: bindnode over a random type system (inferred or user-supplied Go types); builder kept
			ts := schemagen.Gen(rng, schemagen.Opts{Types: 4 + rng.Intn(4)})
			lib, err := schemagen.ToLibrary(ts)
			if err != nil {
				continue
			}
			eng := newBindEngine(lib)
			if rng.Bool() {
				eng = newShapedBindEngine(lib, ts, rng)
			}
			var cands []*rs.Type
			for _, t := range ts.Types {
				if t.Name[0] == 'T' {
					cands = append(cands, t)
				}
			}
			if len(cands) == 0 {
				continue
			}
			t := cands[rng.Intn(len(cands))]
			proto, _ := eng.Proto(t.Name)
			if proto == nil {
				continue
			}
			gr := rng.Fork()
			rebuild := func(nb datamodel.NodeBuilder) (err error) {
				defer func() {
					if r := recover(); r != nil {
						err = fmt.Errorf("panic: %v", r)
					}
				}()
				tv := schemagen.GenValue(gr, ts, t, 0)
				return typedmon.AssembleTyped(nb, ts, t, ts.TypeInput(t, tv))
			}
			nb := proto.NewBuilder()
			if rebuild(nb) != nil {
				continue
			}
			n := nb.Build()
			c.Count("typed_nodes_tracked", 1)
			trackOpts = obs.Options{Typed: true, NoWrongKindProbes: true}
			tt := track("typed "+eng.Name()+" "+typeKindName(t), n, nb, proto)
			tt.rebuild = rebuild
			if _, rerr := ts.ReprOf(t, tt.snap); rerr == nil {
				trackOpts = obs.Options{Typed: true, NoWrongKindProbes: true}
				track("representation of typed "+eng.Name()+" "+typeKindName(t), typedmon.Repr(n), nil, nil)
			}
		case 0, 1: // basicnode builder kept for later reuse
			protos := []datamodel.NodePrototype{basicnode.Prototype.Any}
			if kp := kindProto(v); kp != nil {
				protos = append(protos, kp, kp)
			}
			proto := protos[rng.Intn(len(protos))]
			nb := proto.NewBuilder()
			if err := build.Assemble(nb, v, &build.Prog{R: rng.Fork()}); err != nil {
				continue
			}
			track(fmt.Sprintf("builder %T", proto), nb.Build(), nb, proto)
		case 2: // dag-cbor decoder into a builder that is kept
			protos := []datamodel.NodePrototype{basicnode.Prototype.Any}
			if v.K == model.KList {
				protos = append(protos, basicnode.Prototype.List)
			}
			if v.K == model.KMap {
				protos = append(protos, basicnode.Prototype.Map)
			}
			proto := protos[rng.Intn(len(protos))]
			nb := proto.NewBuilder()
			if err := dagcbor.Decode(nb, bytes.NewReader(refcbor.Encode(v))); err != nil {
				continue
			}
			track(fmt.Sprintf("dagcbor.Decode into %T", proto), nb.Build(), nb, proto)
		case 3: // dag-json decoder
			var buf bytes.Buffer
			if dagjson.Encode(fnode.New(v), &buf) != nil {
				continue
			}
			nb := basicnode.Prototype.Any.NewBuilder()
			if err := dagjson.Decode(nb, bytes.NewReader(buf.Bytes())); err != nil {
				continue
			}
			track("dagjson.Decode", nb.Build(), nb, basicnode.Prototype.Any)
		case 4: // bindnode bindings
			if v.K == model.KMap {
				if n, err := build.With(c01MapAnyP, v, &build.Prog{R: rng.Fork()}); err == nil {
					track("bindnode {String:Any}", n, nil, nil)
				}
			} else if v.K == model.KList {
				if n, err := build.With(c01LstAnyP, v, &build.Prog{R: rng.Fork()}); err == nil {
					track("bindnode [Any]", n, nil, nil)
				}
			}
		case 5: // loaded blocks
			if rng.Bool() {
				b := model.Bytes(rng.Bytes(1 + rng.Intn(64)))
				if l, err := storeBlock(0x55, b); err == nil {
					links = append(links, l)
					var n datamodel.Node
					if rng.Bool() {
						n, err = lsys.Load(linking.LinkContext{}, l, basicnode.Prototype.Any)
					} else {
						n, _, err = lsys.LoadPlusRaw(linking.LinkContext{}, l, basicnode.Prototype.Any)
					}
					if err == nil {
						track("loaded raw block", n, nil, nil)
					}
				}
			} else if l, err := storeBlock(0x71, v); err == nil {
				links = append(links, l)
				if n, err := lsys.Load(linking.LinkContext{}, l, basicnode.Prototype.Any); err == nil {
					track("loaded dag-cbor block", n, nil, nil)
				}
			}
		case 6: // subset matches
			src := []datamodel.Node{
				basicnode.NewString(model.GenString(rng, false) + "0123456789"),
				basicnode.NewBytes(rng.Bytes(4 + rng.Intn(40))),
				basicnode.NewBytesFromReader(bytes.NewReader(rng.Bytes(4 + rng.Intn(40)))),
			}[rng.Intn(3)]
			from, to := int64(rng.Intn(4)), int64(3+rng.Intn(8))
			ssb := builder.NewSelectorSpecBuilder(basicnode.Prototype.Any)
			sel, err := ssb.MatcherSubset(from, to).Selector()
			if err != nil {
				continue
			}
			traversal.WalkMatching(src, sel, func(_ traversal.Progress, m datamodel.Node) error {
				track(fmt.Sprintf("subset match [%d:%d] of %T", from, to, src), m, nil, nil)
				return nil
			})
			track(fmt.Sprintf("subset source %T", src), src, nil, nil)
		case 7: // transform result
			base, err := build.With(basicnode.Prototype.Any, v, &build.Prog{R: rng.Fork()})
			if err != nil || (v.K != model.KMap && v.K != model.KList) {
				continue
			}
			track("transform input", base, nil, nil)
			seg := "new-key"
			if v.K == model.KList {
				seg = "-"
			}
			res, err := traversal.FocusedTransform(base, datamodel.ParsePath(seg), func(traversal.Progress, datamodel.Node) (datamodel.Node, error) {
				return basicnode.NewString("inserted"), nil
			}, false)
			if err == nil && res != nil {
				track("FocusedTransform result", res, nil, nil)
			}
		}
	}
	if len(tracked) == 0 {
		c.Seen(0, false)
		return
	}
	// ---- history
	recheck := func(after string) {
		for _, t := range tracked {
			ro := obs.ReadOut(t.n, t.opts)
			c.Count("rereads", 1)
			if !model.Equal(ro.Val, t.snap) {
				c.Deviate("C11:node-changed:"+sanitizeSig(after)+":"+sanitizeSig(t.label), fmt.Sprintf("node produced by %q read %s right after production and %s after step %q", t.label, t.snap.Dump(), ro.Val.Dump(), after))
			} else if len(ro.Issues) > 0 {
				c.Deviate("C11:"+ro.Issues[0].Sig+":"+sanitizeSig(after), fmt.Sprintf("node produced by %q after step %q: %s", t.label, after, ro.FirstIssue()))
			}
		}
	}
	hh := uint64(len(tracked))
	for _, t := range tracked {
		hh = fw.Mix(hh, t.snap.Hash())
	}
	for s := 0; s < 12; s++ {
		t := tracked[rng.Intn(len(tracked))]
		op := rng.Intn(9)
		var name string
		func() {
			// a panic inside a later operation is not this property's business (C10/C12/C16
			// decide those); what matters here is that tracked nodes stay unchanged afterwards
			defer func() {
				if r := recover(); r != nil {
					c.Count("step_panics_ignored", 1)
				}
			}()
			switch op {
			case 0:
				name = "encode"
				dagcbor.Encode(t.n, io.Discard)
				dagjson.Encode(t.n, io.Discard)
			case 1:
				name = "assign-extend"
				c11AssignExtend(c, rng, t)
			case 2:
				name = "walk"
				traversal.WalkAdv(t.n, c11ExploreAll, func(traversal.Progress, datamodel.Node, traversal.VisitReason) error { return nil })
			case 3:
				name = "transform"
				c11Transform(rng, t)
			case 4:
				name = "subset"
				ssb := builder.NewSelectorSpecBuilder(basicnode.Prototype.Any)
				sel, _ := ssb.ExploreRecursive(selector.RecursionLimitNone(), ssb.ExploreUnion(ssb.MatcherSubset(int64(rng.Intn(3)), int64(2+rng.Intn(6))), ssb.ExploreAll(ssb.ExploreRecursiveEdge()))).Selector()
				traversal.WalkMatching(t.n, sel, func(_ traversal.Progress, m datamodel.Node) error {
					if m.Kind() == datamodel.Kind_Bytes {
						a, _ := m.AsBytes()
						b, _ := m.AsBytes()
						if !bytes.Equal(a, b) {
							c.Deviate("C11:double-read:subset-match", fmt.Sprintf("subset match read %x then %x", a, b))
						}
					}
					return nil
				})
			case 5:
				name = "reset-reuse"
				// any tracked node whose builder we kept: reset it and build something of similar size
				if t.nb == nil {
					for _, o := range tracked {
						if o.nb != nil {
							t = o
							break
						}
					}
				}
				if t.nb != nil && t.rebuild != nil {
					t.nb.Reset()
					if t.rebuild(t.nb) == nil {
						trackOpts = t.opts
						nt := track(t.label+" (builder reused after Reset)", t.nb.Build(), t.nb, t.proto)
						nt.rebuild = t.rebuild
					}
					t.nb = nil
				} else if t.nb != nil {
					t.nb.Reset()
					nv := c11Similar(rng, t.snap)
					prog := &build.Prog{R: rng.Fork()}
					if rng.Bool() {
						prog = &build.Prog{Plain: true} // exact size hints
					}
					if build.Assemble(t.nb, nv, prog) == nil {
						n2 := t.nb.Build()
						nt := track(t.label+" (builder reused after Reset)", n2, t.nb, t.proto)
						t.nb = nil
						_ = nt
					} else {
						t.nb = nil
					}
				}
			case 6:
				name = "decode-again"
				if t.nb != nil && t.proto != nil {
					t.nb.Reset()
					nv := c11Similar(rng, t.snap)
					if dagcbor.Decode(t.nb, bytes.NewReader(refcbor.Encode(nv))) == nil {
						track(t.label+" (decoded again into the same builder)", t.nb.Build(), t.nb, t.proto)
					}
					t.nb = nil
				} else {
					nb := basicnode.Prototype.Any.NewBuilder()
					dagcbor.Decode(nb, bytes.NewReader(refcbor.Encode(t.snap)))
				}
			case 7:
				name = "load-more"
				for k := 0; k < 3; k++ {
					var l datamodel.Link
					var err error
					if rng.Bool() {
						l, err = storeBlock(0x55, model.Bytes(rng.Bytes(1+rng.Intn(64))))
					} else {
						l, err = storeBlock(0x71, model.Gen(rng, c11Opts))
					}
					if err == nil {
						links = append(links, l)
					}
				}
				for _, l := range links {
					switch rng.Intn(3) {
					case 0:
						lsys.Load(linking.LinkContext{}, l, basicnode.Prototype.Any)
					case 1:
						lsys.LoadRaw(linking.LinkContext{}, l)
					default:
						lsys.LoadPlusRaw(linking.LinkContext{}, l, basicnode.Prototype.Any)
					}
				}
			case 8:
				name = "copy"
				nb := basicnode.Prototype.Any.NewBuilder()
				datamodel.Copy(t.n, nb)
			}
		}()
		if name == "" {
			continue
		}
		steps = append(steps, name+" on "+t.label)
		c.Count("history_steps", 1)
		c.Count("step:"+name, 1)
		hh = fw.Mix(hh, uint64(op))
		recheck(name)
	}
	big := false
	for _, t := range tracked {
		if len(t.snap.L)+len(t.snap.M) >= 2 {
			big = true
		}
	}
	c.Seen(hh, len(tracked) >= 3 && big)
	if c.WantSample() && len(tracked) >= 3 {
		var ts []string
		for _, t := range tracked {
			ts = append(ts, t.label+": "+clipS(t.snap.Dump(), 120))
		}
		c.Sample(map[string]any{"tracked": ts, "steps": steps})
	}
}

func sanitizeSig(s string) string {
	if len(s) > 40 {
		s = s[:40]
	}
	out := []byte(s)
	for i, b := range out {
		if !(b >= 'a' && b <= 'z' || b >= 'A' && b <= 'Z' || b >= '0' && b <= '9' || b == '-' || b == '.') {
			out[i] = '_'
		}
	}
	return string(out)
}

// c11Similar generates a value of the same kind and a similar (not larger) size, so
// that reused storage would be overwritten rather than re-allocated.
func c11Similar(rng *fw.RNG, like model.Val) model.Val {
	switch like.K {
	case model.KList:
		n := len(like.L)
		if n > 0 && rng.Bool() {
			n = 1 + rng.Intn(n)
		}
		if n == 0 {
			n = 1 + rng.Intn(3) // a builder whose first node was empty builds something visible next
		}
		xs := make([]model.Val, n)
		for i := range xs {
			xs[i] = model.String(fmt.Sprintf("reused-%d", i))
		}
		return model.Val{K: model.KList, L: xs}
	case model.KMap:
		n := len(like.M)
		if n > 0 && rng.Bool() {
			n = 1 + rng.Intn(n)
		}
		if n == 0 {
			n = 1 + rng.Intn(3)
		}
		es := make([]model.Entry, n)
		for i := range es {
			es[i] = model.Entry{K: fmt.Sprintf("reused-%d", i), V: model.Int(int64(-i))}
		}
		return model.Val{K: model.KMap, M: es}
	case model.KString:
		return model.String("reused")
	case model.KBytes:
		return model.Bytes(bytes.Repeat([]byte{0xee}, len(like.S)))
	case model.KInt, model.KUint:
		return model.Int(-77)
	case model.KFloat:
		return model.Float(-7.5)
	case model.KBool:
		return model.Bool(!like.B)
	case model.KLink:
		return model.Link(model.MakeCID(1, 0x55, 0x00, []byte("reused")))
	}
	return model.Gen(rng, model.GenOpts{MaxDepth: 2, MaxWidth: 3})
}

// c11AssignExtend puts the node (or its children) into other builders which are then extended.
func c11AssignExtend(c *fw.Ctx, rng *fw.RNG, t *c11Tracked) {
	n := t.n
	// "assigning it into other builders that are then extended", taken literally: a builder of the node's OWN
	// prototype (where implementations take shortcuts and may share structure) receives the whole node and is
	// then used further — a fresh inhabitant for typed builders, more entries for generic ones. Implementations
	// that consider this misuse say so with an error or a panic, which is fine; the tracked node must not change.
	func() {
		defer func() { recover() }()
		proto := n.Prototype()
		if proto == nil {
			return
		}
		for round := 0; round < 2; round++ { // two sibling copies of the same source
			nb := proto.NewBuilder()
			if nb.AssignNode(n) != nil {
				return
			}
			func() {
				defer func() { recover() }()
				if t.rebuild != nil {
					t.rebuild(nb)
					return
				}
				switch n.Kind() {
				case datamodel.Kind_Map:
					if ma, err := nb.BeginMap(2); err == nil {
						if va, err := ma.AssembleEntry(fmt.Sprintf("\x01own-%d", round)); err == nil {
							va.AssignString("extended")
						}
						ma.Finish()
					}
				case datamodel.Kind_List:
					if la, err := nb.BeginList(2); err == nil {
						la.AssembleValue().AssignString("extended")
						la.Finish()
					}
				}
			}()
			func() {
				defer func() { recover() }()
				n2 := nb.Build()
				// entries that only the extended copy has must not have become reachable in the original
				// (a shared Go map shows in lookups before it shows in iteration)
				v2 := obs.ReadOut(n2, obs.Options{Light: true, Typed: true}).Val
				if strings.HasPrefix(t.label, "representation of typed") {
					return // a representation builder hands back the typed node: its keys are the other level's
				}
				if where := c11LeakedKey(n, t.snap, v2, ""); where != "" {
					c.Deviate("C11:node-changed:extended-copy-leaks-into-original:"+sanitizeSig(t.label), fmt.Sprintf("node produced by %q was assigned into a builder of its own prototype, which was then extended; the original now answers a lookup for %s, a key only the extended copy was given\noriginal (snapshot): %s\nextended copy: %s", t.label, where, clipS(t.snap.Dump(), 500), clipS(v2.Dump(), 500)))
				}
			}()
		}
	}()
	switch n.Kind() {
	case datamodel.Kind_Map:
		for _, proto := range []datamodel.NodePrototype{basicnode.Prototype.Map, basicnode.Prototype.Any, c01MapAnyP} {
			nb := proto.NewBuilder()
			ma, err := nb.BeginMap(n.Length() + 2)
			if err != nil {
				continue
			}
			it := n.MapIterator()
			ok := true
			for !it.Done() {
				k, v, err := it.Next()
				if err != nil {
					break
				}
				if ma.AssembleKey().AssignNode(k) != nil || ma.AssembleValue().AssignNode(v) != nil {
					ok = false
					break
				}
			}
			if !ok {
				continue
			}
			for x := 0; x < 3; x++ {
				va, err := ma.AssembleEntry(fmt.Sprintf("\x01extra-%d", x))
				if err != nil {
					break
				}
				va.AssignString("extended")
			}
			ma.Finish()
			nb.Build()
		}
		// whole-node assignment into a map builder, then a second, larger build from the same builder
		nb := basicnode.Prototype.Map.NewBuilder()
		if nb.AssignNode(n) == nil {
			nb.Build()
			nb.Reset()
			if ma, err := nb.BeginMap(1); err == nil {
				if va, err := ma.AssembleEntry("z"); err == nil {
					va.AssignInt(1)
				}
				ma.Finish()
			}
		}
	case datamodel.Kind_List:
		for _, proto := range []datamodel.NodePrototype{basicnode.Prototype.List, basicnode.Prototype.Any, c01LstAnyP} {
			nb := proto.NewBuilder()
			la, err := nb.BeginList(n.Length())
			if err != nil {
				continue
			}
			it := n.ListIterator()
			for !it.Done() {
				_, v, err := it.Next()
				if err != nil || la.AssembleValue().AssignNode(v) != nil {
					break
				}
			}
			for x := 0; x < 3; x++ {
				la.AssembleValue().AssignString("extended")
			}
			la.Finish()
			nb.Build()
		}
		nb := basicnode.Prototype.List.NewBuilder()
		if nb.AssignNode(n) == nil {
			nb.Build()
			nb.Reset()
			if la, err := nb.BeginList(n.Length()); err == nil {
				for x := int64(0); x < n.Length(); x++ {
					la.AssembleValue().AssignString("overwrite?")
				}
				la.Finish()
			}
		}
	default:
		protos := []datamodel.NodePrototype{basicnode.Prototype.Any}
		if n.Kind() != datamodel.Kind_Null {
			protos = append(protos, n.Prototype())
		}
		for _, proto := range protos {
			if proto == nil {
				continue
			}
			nb := proto.NewBuilder()
			if nb.AssignNode(n) == nil {
				m := nb.Build()
				if m.Kind() == datamodel.Kind_Bytes {
					m.AsBytes()
					if lb, ok := m.(datamodel.LargeBytesNode); ok {
						if r, err := lb.AsLargeBytes(); err == nil {
							io.CopyN(io.Discard, r, 3)
						}
					}
				}
			}
		}
	}
}

func c11Transform(rng *fw.RNG, t *c11Tracked) {
	n := t.n
	repl := func(traversal.Progress, datamodel.Node) (datamodel.Node, error) {
		return basicnode.NewString("replaced"), nil
	}
	switch n.Kind() {
	case datamodel.Kind_Map:
		it := n.MapIterator()
		if !it.Done() {
			k, _, err := it.Next()
			if err == nil {
				ks, _ := k.AsString()
				p := datamodel.NewPath([]datamodel.PathSegment{datamodel.PathSegmentOfString(ks)})
				traversal.FocusedTransform(n, p, repl, false)
			}
		}
		traversal.FocusedTransform(n, datamodel.NewPath([]datamodel.PathSegment{datamodel.PathSegmentOfString("\x02added")}), repl, false)
	case datamodel.Kind_List:
		if n.Length() > 0 {
			traversal.FocusedTransform(n, datamodel.NewPath([]datamodel.PathSegment{datamodel.PathSegmentOfInt(int64(rng.Intn(int(n.Length()))))}), repl, false)
		}
		traversal.FocusedTransform(n, datamodel.ParsePath("-"), repl, false)
	}
	// a tree containing it
	parent, err := build.Plain(basicnode.Prototype.Any, model.Map(model.E("a", model.Int(1))))
	if err != nil {
		return
	}
	withChild, err := traversal.FocusedTransform(parent, datamodel.ParsePath("child"), func(traversal.Progress, datamodel.Node) (datamodel.Node, error) { return n, nil }, false)
	if err == nil && withChild != nil {
		traversal.FocusedTransform(withChild, datamodel.ParsePath("a"), repl, false)
		traversal.WalkTransforming(withChild, c11ExploreAll, func(_ traversal.Progress, x datamodel.Node) (datamodel.Node, error) { return x, nil })
	}
}

// c11LeakedKey looks for a map key that v2 (an extended copy) has and snap (the original's snapshot) has not,
// and that the original node n nevertheless resolves. Returns the path of the first one found.
func c11LeakedKey(n datamodel.Node, snap, v2 model.Val, path string) string {
	if snap.K != model.KMap || v2.K != model.KMap || n.Kind() != datamodel.Kind_Map {
		return ""
	}
	for _, e := range v2.M {
		var child datamodel.Node
		var err error
		func() {
			defer func() {
				if recover() != nil {
					err = fmt.Errorf("panic")
				}
			}()
			child, err = n.LookupByString(e.K)
		}()
		if sv, ok := snap.Lookup(e.K); ok {
			if err == nil && child != nil && !child.IsAbsent() {
				if w := c11LeakedKey(child, sv, e.V, path+"/"+e.K); w != "" {
					return w
				}
			}
			continue
		}
		if err == nil && child != nil && !child.IsAbsent() {
			return fmt.Sprintf("%q", path+"/"+e.K)
		}
	}
	return ""
}
