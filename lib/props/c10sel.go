package props

import (
	"bytes"
	"fmt"
	"github.com/ipld/go-ipld-prime/codec/dagjson"
	selectorparse "github.com/ipld/go-ipld-prime/traversal/selector/parse"
	"io"
	"runtime"
	"runtime/debug"
	"strings"

	"github.com/ipld/go-ipld-prime/datamodel"
	"github.com/ipld/go-ipld-prime/linking"
	cidlink "github.com/ipld/go-ipld-prime/linking/cid"
	"github.com/ipld/go-ipld-prime/node/basicnode"
	"github.com/ipld/go-ipld-prime/traversal"
	"github.com/ipld/go-ipld-prime/traversal/selector"

	"verif/lib/build"
	"verif/lib/fnode"
	"verif/lib/fw"
	"verif/lib/graphgen"
	"verif/lib/model"
	refcbor "verif/lib/ref/cbor"
	"verif/lib/selgen"
)

// hostile link system: arbitrary bytes for arbitrary links
func c10HostileLinkSystem(rng *fw.RNG, g *graphgen.Graph) linking.LinkSystem {
	lsys := cidlink.DefaultLinkSystem()
	r := rng.Fork()
	lsys.StorageReadOpener = func(_ linking.LinkContext, l datamodel.Link) (io.Reader, error) {
		if b, ok := g.Blocks[l.Binary()]; ok && r.Chance(3, 4) {
			return bytes.NewReader(b), nil
		}
		switch r.Intn(4) {
		case 0:
			return nil, fmt.Errorf("not found")
		case 1:
			return bytes.NewReader(r.Bytes(r.Intn(40))), nil
		case 2:
			return bytes.NewReader(refcbor.Encode(model.Gen(r, model.GenOpts{MaxDepth: 3, MaxWidth: 3, Links: true}))), nil
		default:
			return bytes.NewReader(nil), nil
		}
	}
	lsys.TrustedStorage = r.Chance(1, 3) // so that arbitrary content is also decoded and walked
	return lsys
}

// c10SubsetSweep: a subset matcher with bounds drawn from the boundary set, compiled from its spec and run
// straight on string and bytes nodes of EVERY length 0..14 (a panic in the slicing needs one particular
// relation between the two bounds and the length, which random graphs hardly ever hit).
func c10SubsetSweep(c *fw.Ctx, rng *fw.RNG) {
	bounds := []int64{-1 << 63, -1<<63 + 1, -1 << 31, -17, -9, -8, -7, -5, -3, -2, -1, 0, 1, 2, 3, 5, 7, 8, 9, 17, 1 << 31, 1<<63 - 1}
	for k := 0; k < 12; k++ {
		from, to := bounds[rng.Intn(len(bounds))], bounds[rng.Intn(len(bounds))]
		spec := model.Map(model.E(".", model.Map(model.E("subset", model.Map(model.E("[", model.Int(from)), model.E("]", model.Int(to)))))))
		c.SetCase(func() any { return map[string]any{"family": "subset matcher sweep", "from": from, "to": to} })
		var sel selector.Selector
		var err error
		c.Count("selector_compiles", 1)
		if c.Guard("C10:CompileSelector", func() { sel, err = selector.CompileSelector(fnode.New(spec)) }) || err != nil || sel == nil {
			continue
		}
		for l := 0; l <= 14; l++ {
			for _, n := range []datamodel.Node{basicnode.NewString(strings.Repeat("x", l)), basicnode.NewBytes(bytes.Repeat([]byte{7}, l)),
				basicnode.NewBytesFromReader(bytes.NewReader(bytes.Repeat([]byte{7}, l)))} {
				c.Count("subset_sweep_walks", 1)
				c.Guard(fmt.Sprintf("C10:walk-subset:%s", n.Kind()), func() {
					traversal.WalkMatching(n, sel, func(_ traversal.Progress, m datamodel.Node) error {
						if m.Kind() == datamodel.Kind_String {
							m.AsString()
						} else {
							m.AsBytes()
						}
						return nil
					})
				})
			}
		}
	}
}

// c10RecursionSweep: recursive selectors whose DEPTH LIMIT IS REACHED inside nested unions. The sequences
// come from a small grammar — a top-level union of up to three members, each an exploring clause (all /
// field x / index 0 / range 0:2) over an "edge part" drawn from {@, |[@], |[@,@], |[.,@], a{@}, |[a{@},f{x:@}],
// |[|[@]], a{|[@,@]}} — and are walked with every depth limit 0..4 over two deep trees (nested maps under the key
// x and nested lists) whose depth exceeds every limit, so the limit is always reached on a map or list node.
// Random selectors over random shallow graphs hardly ever end a recursion exactly there (round-3 seed C10-8:
// a nil selector left inside a union when the limit is reached).
var c10RecTrees []datamodel.Node

func c10RecursionSweep(c *fw.Ctx, rng *fw.RNG) {
	if c10RecTrees == nil {
		vm, vl := model.Map(model.E("x", model.Int(1)), model.E("y", model.String("leaf"))), model.List(model.Int(1), model.String("leaf"))
		for d := 0; d < 7; d++ {
			vm = model.Map(model.E("x", vm), model.E("y", model.List(vm, model.Int(int64(d)))), model.E("z", model.Int(int64(d))))
			vl = model.List(vl, model.Map(model.E("x", vl)), model.Int(int64(d)))
		}
		for _, v := range []model.Val{vm, vl} {
			n, _ := build.Plain(basicnode.Prototype.Any, v)
			c10RecTrees = append(c10RecTrees, n)
		}
	}
	E := func() *selgen.Sel { return &selgen.Sel{Kind: "edge"} }
	M := func() *selgen.Sel { return &selgen.Sel{Kind: "match"} }
	U := func(ms ...*selgen.Sel) *selgen.Sel { return &selgen.Sel{Kind: "union", Members: ms} }
	A := func(n *selgen.Sel) *selgen.Sel { return &selgen.Sel{Kind: "all", Next: n} }
	F := func(n *selgen.Sel) *selgen.Sel {
		return &selgen.Sel{Kind: "fields", Fields: []selgen.Field{{Key: "x", Sel: n}}}
	}
	edgeParts := []func() *selgen.Sel{
		E, func() *selgen.Sel { return U(E()) }, func() *selgen.Sel { return U(E(), E()) }, func() *selgen.Sel { return U(M(), E()) },
		func() *selgen.Sel { return A(E()) }, func() *selgen.Sel { return U(A(E()), F(E())) }, func() *selgen.Sel { return U(U(E())) },
		func() *selgen.Sel { return A(U(E(), E())) }, M,
	}
	explorers := []func(n *selgen.Sel) *selgen.Sel{
		A, F,
		func(n *selgen.Sel) *selgen.Sel { return &selgen.Sel{Kind: "index", Index: 0, Next: n} },
		func(n *selgen.Sel) *selgen.Sel { return &selgen.Sel{Kind: "range", From: 0, To: 2, Next: n} },
		func(n *selgen.Sel) *selgen.Sel { return n }, // the edge part itself as a member (edges directly in the union)
	}
	for k := 0; k < 10; k++ {
		nm := 1 + rng.Intn(3)
		var ms []*selgen.Sel
		edges := 0
		for j := 0; j < nm; j++ {
			part := edgeParts[rng.Intn(len(edgeParts))]()
			m := explorers[rng.Intn(len(explorers))](part)
			edges += strings.Count(m.String(), "@")
			ms = append(ms, m)
		}
		if edges == 0 || edges > 4 {
			continue
		}
		var seq *selgen.Sel
		if len(ms) == 1 && rng.Bool() {
			seq = ms[0]
		} else {
			seq = U(ms...)
		}
		for lim := int64(0); lim <= 4; lim++ {
			s := &selgen.Sel{Kind: "rec", Limit: lim, Seq: seq}
			if rng.Chance(1, 4) {
				s = U(M(), A(s)) // the recursion itself one level down, next to a matcher
			}
			spec := s.Spec()
			c.SetCase(func() any { return map[string]any{"family": "recursion-limit sweep", "selector": s.String()} })
			var sel selector.Selector
			var err error
			c.Count("selector_compiles", 1)
			if c.Guard("C10:CompileSelector", func() { sel, err = selector.CompileSelector(fnode.New(spec)) }) || err != nil || sel == nil {
				continue
			}
			c.Count("selectors_compiled_ok", 1)
			for _, root := range c10RecTrees {
				c.Count("recursion_sweep_walks", 3)
				budget := func() *traversal.Budget { return &traversal.Budget{NodeBudget: 30000, LinkBudget: 10} }
				c.Guard("C10:WalkAdv", func() {
					traversal.Progress{Budget: budget()}.WalkAdv(root, sel, func(traversal.Progress, datamodel.Node, traversal.VisitReason) error { return nil })
				})
				c.Guard("C10:WalkMatching", func() {
					traversal.Progress{Budget: budget()}.WalkMatching(root, sel, func(traversal.Progress, datamodel.Node) error { return nil })
				})
				c.Guard("C10:WalkTransforming", func() {
					traversal.Progress{Budget: budget()}.WalkTransforming(root, sel, func(_ traversal.Progress, n datamodel.Node) (datamodel.Node, error) { return n, nil })
				})
			}
		}
	}
}

func c10Selector(c *fw.Ctx, rng *fw.RNG) {
	switch rng.Intn(12) {
	case 0:
		c10SubsetSweep(c, rng)
		return
	case 1:
		c10RecursionSweep(c, rng)
		return
	}
	g := graphgen.Gen(rng, graphgen.Opts{MaxBlocks: 4, MaxDepth: 3, MaxWidth: 4, OddKeys: true, RawBlocks: true, Missing: 1})
	var spec model.Val
	var family string
	switch rng.Intn(4) {
	case 0:
		family = "random tree"
		spec = model.Gen(rng, model.GenOpts{MaxDepth: 4, MaxWidth: 4, Links: true})
	case 1:
		family = "mutated valid spec"
		s := selgen.Gen(rng, selgen.Opts{MaxDepth: 4, Keys: g.Keys, MaxIndex: 4, Links: g.Links()})
		spec = mutateLeaf(s.Spec(), rng)
		if rng.Bool() {
			spec = mutateLeaf(spec, rng)
		}
	default:
		family = "hostile well-shaped spec"
		s := selgen.Gen(rng, selgen.Opts{MaxDepth: 4, Keys: g.Keys, MaxIndex: 4, Links: g.Links(), Hostile: true})
		spec = s.Spec()
	}
	c.SetCase(func() any {
		return map[string]any{"family": "selector: " + family, "spec": spec.Dump(), "root": g.Root.Dump()}
	})
	c.Seen(spec.Hash(), true)
	if c.WantSample() && family != "random tree" && spec.Stats().Nodes < 30 {
		c.Sample(map[string]any{"family": family, "selector_spec": spec.Dump()})
	}
	specNode := fnode.New(spec)
	if rng.Bool() {
		if n, err := build.Plain(basicnode.Prototype.Any, spec); err == nil {
			specNode = n
		}
	}
	var sel selector.Selector
	var err error
	c.Count("selector_compiles", 1)
	// the text entry points of the same parser: a result or an error, never neither and never a panic; their
	// verdict is the tree compiler's verdict
	if rng.Chance(1, 3) {
		var js bytes.Buffer
		if dagjson.Encode(fnode.New(spec), &js) == nil {
			text := js.String()
			if rng.Chance(1, 3) && len(text) > 0 { // damaged text as well
				b := []byte(text)
				b[rng.Intn(len(b))] ^= 1 << uint(rng.Intn(7))
				text = string(b)
			}
			var n1 datamodel.Node
			var s2 selector.Selector
			var e1, e2 error
			if !c.Guard("C10:ParseJSONSelector", func() { n1, e1 = selectorparse.ParseJSONSelector(text) }) && (n1 == nil) == (e1 == nil) {
				c.Deviate("C10:ParseJSONSelector:neither-result-nor-error", fmt.Sprintf("ParseJSONSelector(%s) returned node nil=%v and err=%v", clipS(text, 300), n1 == nil, e1))
			}
			if !c.Guard("C10:ParseAndCompileJSONSelector", func() { s2, e2 = selectorparse.ParseAndCompileJSONSelector(text) }) && (s2 == nil) == (e2 == nil) {
				c.Deviate("C10:ParseAndCompileJSONSelector:neither-result-nor-error", fmt.Sprintf("ParseAndCompileJSONSelector(%s) returned selector nil=%v and err=%v", clipS(text, 300), s2 == nil, e2))
			}
			if (e1 == nil) != (e2 == nil) {
				c.Deviate("C10:json-selector-entry-points-disagree", fmt.Sprintf("on %s ParseJSONSelector says err=%v, ParseAndCompileJSONSelector says err=%v", clipS(text, 300), e1, e2))
			}
			c.Count("json_selector_texts", 1)
		}
	}
	if c.Guard("C10:CompileSelector", func() { sel, err = selector.CompileSelector(specNode) }) {
		return
	}
	if err != nil || sel == nil {
		return
	}
	c.Count("selectors_compiled_ok", 1)
	// overlong digest links in the tree walked
	root := g.Root
	if rng.Chance(1, 3) {
		over := model.MakeCID(1, 0x71, 0x12, rng.Bytes(40)) // sha2-256 declaring 40 bytes
		root = model.List(root, model.Link(over), model.Map(model.E("a", model.Link(over))))
	}
	rootNode, berr := build.Plain(basicnode.Prototype.Any, root)
	if berr != nil {
		return
	}
	if rng.Chance(1, 4) {
		// roots built through the scalar prototypes exercise by-value node types
		if root.K == model.KBytes {
			rootNode, _ = build.Plain(basicnode.Prototype.Bytes, root)
		}
	}
	// one walk in five runs over a root that FAILS: its iterators and its lookups (of children its iterator just
	// listed) return an error after k calls — a node backed by storage can. The walk
	// must end with an error, not with a panic (round-4 seed C10-12: a dropped lookup error followed by a call
	// on the nil node).
	if rng.Chance(1, 5) {
		// (iterators and lookups only: an As* accessor failing on a node of that very kind is what the library
		// itself calls a node violating its contract — datamodel.Copy says so — and is not part of the fault model)
		rootNode = fnode.NewFaulty(root, &fnode.Fault{After: rng.Intn(12), Lookups: true})
		c.Count("walks_over_failing_nodes", 1)
	}
	lsys := c10HostileLinkSystem(rng, g)
	cfg := &traversal.Config{LinkSystem: lsys, LinkTargetNodePrototypeChooser: func(datamodel.Link, linking.LinkContext) (datamodel.NodePrototype, error) {
		return basicnode.Prototype.Any, nil
	}}
	budget := func() *traversal.Budget { return &traversal.Budget{NodeBudget: 20000, LinkBudget: 2000} }
	c10WalkAll(c, sel, rootNode, cfg)
	// by-value scalar roots through the transforming walk (bytes built by the Bytes prototype)
	if rng.Chance(1, 6) {
		bn, _ := build.Plain(basicnode.Prototype.Bytes, model.Bytes([]byte("abc")))
		holder, _ := traversal.FocusedTransform(rootNode, datamodel.ParsePath("zz-bytes"), func(traversal.Progress, datamodel.Node) (datamodel.Node, error) { return bn, nil }, false)
		if holder != nil {
			c.Guard("C10:WalkTransforming", func() {
				traversal.Progress{Cfg: cfg, Budget: budget()}.WalkTransforming(holder, sel, func(_ traversal.Progress, n datamodel.Node) (datamodel.Node, error) { return n, nil })
			})
		}
	}
}

// c10WalkAll walks rootNode with sel through the three walk functions under the panic monitor.
func c10WalkAll(c *fw.Ctx, sel selector.Selector, rootNode datamodel.Node, cfg *traversal.Config) {
	budget := func() *traversal.Budget { return &traversal.Budget{NodeBudget: 20000, LinkBudget: 2000} }
	visits := 0
	c.Guard("C10:WalkAdv", func() {
		traversal.Progress{Cfg: cfg, Budget: budget()}.WalkAdv(rootNode, sel, func(traversal.Progress, datamodel.Node, traversal.VisitReason) error { visits++; return nil })
	})
	c.Guard("C10:WalkMatching", func() {
		traversal.Progress{Cfg: cfg, Budget: budget()}.WalkMatching(rootNode, sel, func(_ traversal.Progress, n datamodel.Node) error {
			if n.Kind() == datamodel.Kind_Bytes {
				n.AsBytes()
			}
			return nil
		})
	})
	c.Guard("C10:WalkTransforming", func() {
		k := 0
		traversal.Progress{Cfg: cfg, Budget: budget()}.WalkTransforming(rootNode, sel, func(_ traversal.Progress, n datamodel.Node) (datamodel.Node, error) {
			k++
			if k%3 == 0 {
				return basicnode.NewString("t"), nil
			}
			return n, nil
		})
	})
	c.Count("walks", 3)
	c.Count("walk_visits", int64(visits))
}

// c10GrowthProbe walks a three-edge recursive selector over a 16-deep one-child list under a
// 1.5 GiB address-space limit (separate process). Cost is 3^depth on the unchanged tree.
func c10GrowthProbe([]string) int {
	fwSetMemLimit(1536 << 20)
	v := model.Int(1)
	for d := 0; d < 16; d++ {
		v = model.List(v)
	}
	root, _ := build.Plain(basicnode.Prototype.Any, v)
	e := func() *selgen.Sel { return &selgen.Sel{Kind: "all", Next: &selgen.Sel{Kind: "edge"}} }
	s := &selgen.Sel{Kind: "rec", Limit: -1, Seq: &selgen.Sel{Kind: "union", Members: []*selgen.Sel{{Kind: "match"}, e(), e(), e()}}}
	sel, err := selector.CompileSelector(fnode.New(s.Spec()))
	if err != nil {
		fmt.Println("compile error:", err)
		return 3
	}
	n := 0
	err = traversal.WalkAdv(root, sel, func(traversal.Progress, datamodel.Node, traversal.VisitReason) error { n++; return nil })
	fmt.Println("walk finished, visits:", n, "err:", err)
	c10GrowthFamily()
	return 0
}

// c10GrowthFamily: the cost of walking a recursive selector must grow with the DATA, not with a power of its
// depth. A fixed family of recursive sequences (limit none; the grammar of the recursion-limit sweep, 1–3
// members, drawn with a fixed PRNG) is walked over one-child list chains of depth 8 and 16 with the collector
// off; the bytes allocated (runtime.MemStats.TotalAlloc — a step count that does not depend on the clock or
// the load of the machine) may at most grow 12-fold for twice the depth (linear is 2, quadratic 4). Each
// selector is printed before it is walked, so that a death by the address-space limit names it.
// (A seeding sub-agent noticed in passing that edges in NESTED unions still doubled the selector at every
// level after the substitute-once repair; fixed again, §4.)
func c10GrowthFamily() {
	debug.SetGCPercent(-1)
	chain := func(depth int) datamodel.Node {
		v := model.Int(1)
		for d := 0; d < depth; d++ {
			v = model.List(v)
		}
		n, _ := build.Plain(basicnode.Prototype.Any, v)
		return n
	}
	c8, c16 := chain(8), chain(16)
	E := func() *selgen.Sel { return &selgen.Sel{Kind: "edge"} }
	M := func() *selgen.Sel { return &selgen.Sel{Kind: "match"} }
	U := func(ms ...*selgen.Sel) *selgen.Sel { return &selgen.Sel{Kind: "union", Members: ms} }
	A := func(n *selgen.Sel) *selgen.Sel { return &selgen.Sel{Kind: "all", Next: n} }
	I := func(n *selgen.Sel) *selgen.Sel { return &selgen.Sel{Kind: "index", Index: 0, Next: n} }
	parts := []func() *selgen.Sel{
		E, func() *selgen.Sel { return U(E()) }, func() *selgen.Sel { return U(E(), E()) }, func() *selgen.Sel { return U(M(), E()) },
		func() *selgen.Sel { return U(U(E(), M()), E()) }, func() *selgen.Sel { return U(U(E()), U(E())) }, func() *selgen.Sel { return U(U(U(E(), E()), M()), E()) },
		func() *selgen.Sel { return U(A(E()), I(E())) }, M,
	}
	explorers := []func(n *selgen.Sel) *selgen.Sel{A, I, func(n *selgen.Sel) *selgen.Sel { return U(A(n), I(n)) }}
	r := fw.NewRNG(0x6120)
	measure := func(root datamodel.Node, sel selector.Selector) uint64 {
		var m0, m1 runtime.MemStats
		runtime.ReadMemStats(&m0)
		traversal.Progress{Budget: &traversal.Budget{NodeBudget: 100000, LinkBudget: 1}}.WalkAdv(root, sel, func(traversal.Progress, datamodel.Node, traversal.VisitReason) error { return nil })
		runtime.ReadMemStats(&m1)
		return m1.TotalAlloc - m0.TotalAlloc
	}
	for k := 0; k < 120; k++ {
		var ms []*selgen.Sel
		for j := 0; j < 1+r.Intn(3); j++ {
			ms = append(ms, explorers[r.Intn(len(explorers))](parts[r.Intn(len(parts))]()))
		}
		seq := U(ms...)
		if len(ms) == 1 {
			seq = ms[0]
		}
		if !strings.Contains(seq.String(), "@") {
			continue
		}
		s := &selgen.Sel{Kind: "rec", Limit: -1, Seq: seq}
		sel, err := selector.CompileSelector(fnode.New(s.Spec()))
		if err != nil || sel == nil {
			continue
		}
		fmt.Printf("{\"Selector\":%q,\"Phase\":\"start\"}\n", s.String())
		a8 := measure(c8, sel)
		a16 := measure(c16, sel)
		fmt.Printf("{\"Selector\":%q,\"Phase\":\"done\",\"A8\":%d,\"A16\":%d}\n", s.String(), a8, a16)
		if a16 > 256<<20 {
			debug.FreeOSMemory()
		}
	}
}
