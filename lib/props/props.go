// Package props links every property's machinery into the runner.
package props
