// Package props links every property's machinery into the runner.
package props

import "verif/lib/fw"

// deepCase: in the thorough tier one case in four is drawn with larger bounds (deeper and wider values, larger
// graphs, longer selectors, more types); the quick tier never is, so its case list is unaffected.
func deepCase(c *fw.Ctx, i int) bool { return c.Tier == "thorough" && i%4 == 1 }
