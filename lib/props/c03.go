package props

import (
	"bytes"
	"encoding/hex"
	"fmt"
	"github.com/ipld/go-ipld-prime/multicodec"
	"io"
	"math"
	"strings"

	"github.com/ipld/go-ipld-prime/codec/cbor"
	"github.com/ipld/go-ipld-prime/codec/dagcbor"
	"github.com/ipld/go-ipld-prime/datamodel"
	"github.com/ipld/go-ipld-prime/node/basicnode"

	"verif/lib/fw"
	"verif/lib/model"
	"verif/lib/obs"
	"verif/lib/rasm"
	refcbor "verif/lib/ref/cbor"
)

// C03 — DAG-CBOR decoding is strict and denotes exactly the bytes it accepts.
type c03 struct{}

func init() { fw.Register(c03{}) }

func (c03) ID() string { return "C03" }

const (
	c03ExhQuick    = 1 + 256 + 65536            // all byte strings of length 0..2
	c03ExhThorough = 1 + 256 + 65536 + 16777216 // ... and length 3
)

func (c03) Plan(tier string) fw.Plan {
	p := fw.Plan{
		Batches: 16, Cases: 4112 + 2400, TimeoutSec: 900, Level: "exploration", Exhaustive: false,
		Rule:        "part 1 (exhaustive sub-space): every byte string of length 0–2 (quick) / 0–3 (thorough) is decoded in strict mode into basicnode and into a harness-owned recording assembler, and in relaxed mode; part 2: for generated values, every single-bit flip, every truncation and 8 one-byte extensions of the canonical encoding (≤64 bytes; sampled beyond), random multi-point mutations, and structure-aware re-encodings with one rule broken (19 mutation kinds: longer heads, tags in front of each item kind incl. map keys, indefinite forms, f16/f32, NaN/Inf, simple values, duplicate keys near/far, swapped keys, out-of-range negatives, bad multibase prefix, damaged CID, junk after CID, tag 42 on text, non-string keys, count ±1, trailing item, double tag). Oracle: independent strict reference decoder; accept/reject and decoded value must agree. Distinct = distinct input strings (exhaustive part, by construction) + distinct base values (hash); non-trivial = reference decoder got past the first head.",
		Assumptions: []string{"CID syntax after the 0x00 prefix is delegated to go-cid (cid.Cast)", "UTF-8 validity of text strings is not part of the property", "resource limits (default allocation budget, depth 1024) are configuration; inputs stay far below them"},
		MinEvents:   []string{"decodes_strict", "decodes_relaxed", "decodes_recorder", "ref_accept", "ref_reject", "exhaustive_inputs", "struct_mutations_hit"},
	}
	if tier == "thorough" {
		p.Batches = 64
		p.Cases = (c03ExhThorough+63)/64 + 3000
		p.TimeoutSec = 3600
	}
	return p
}

func c03ExhaustiveInput(g int) []byte {
	switch {
	case g == 0:
		return []byte{}
	case g < 1+256:
		return []byte{byte(g - 1)}
	case g < 1+256+65536:
		x := g - 257
		return []byte{byte(x >> 8), byte(x)}
	default:
		x := g - 257 - 65536
		return []byte{byte(x >> 16), byte(x >> 8), byte(x)}
	}
}

var c03GenOpts = model.GenOpts{MaxDepth: 3, MaxWidth: 4, Uint: true, NonUTF8: true, Links: true}

type c03cfg struct {
	name string
	opt  dagcbor.DecodeOptions
	ref  refcbor.Options
}

var (
	c03Strict  = c03cfg{"strict", dagcbor.DecodeOptions{AllowLinks: true}, refcbor.Options{AllowLinks: true}}
	c03Relaxed = c03cfg{"relaxed", dagcbor.DecodeOptions{AllowLinks: true, RelaxedDecode: true}, refcbor.Options{AllowLinks: true, Relaxed: true}}
	c03NoEnd   = c03cfg{"strict-dontparsebeyondend", dagcbor.DecodeOptions{AllowLinks: true, DontParseBeyondEnd: true}, refcbor.Options{AllowLinks: true, NotToEnd: true}}
	c03NoLinks = c03cfg{"strict-nolinks", dagcbor.DecodeOptions{AllowLinks: false}, refcbor.Options{AllowLinks: false}}
)

func (c03) RunCase(c *fw.Ctx, rng *fw.RNG, batch, i int) {
	plan := c03{}.Plan(c.Tier)
	exh := c03ExhQuick
	if c.Tier == "thorough" {
		exh = c03ExhThorough
	}
	perBatch := (exh + plan.Batches - 1) / plan.Batches
	if i < perBatch {
		g := batch*perBatch + i
		if g >= exh {
			return
		}
		in := c03ExhaustiveInput(g)
		c.SetCase(func() any { return map[string]any{"mode": "exhaustive", "input_hex": hex.EncodeToString(in)} })
		c.Count("exhaustive_inputs", 1)
		nontriv := c03Check(c, in, c03Strict, true)
		c03Check(c, in, c03Relaxed, false)
		if g%7 == 0 {
			c03Check(c, in, c03NoEnd, false)
			c03Check(c, in, c03NoLinks, false)
		}
		if nontriv {
			c.Count("distinct_by_construction", 1)
		} else {
			c.Seen(0, false)
		}
		return
	}
	// mutation case
	v := model.Gen(rng, c03GenOpts)
	enc := refcbor.Encode(v)
	var cur []byte
	var curDesc string
	c.SetCase(func() any {
		return map[string]any{"mode": "mutation", "base_value": v.Dump(), "base_hex": hex.EncodeToString(enc), "mutation": curDesc, "input_hex": hex.EncodeToString(cur)}
	})
	c.Seen(v.Hash(), len(enc) >= 2)
	if c.WantSample() && len(enc) > 4 && len(enc) < 40 {
		c.Sample(map[string]any{"base_value": v.Dump(), "base_hex": hex.EncodeToString(enc), "note": "every bit flip/truncation/extension and ~60 structure-aware mutations of this encoding were decoded"})
	}
	run := func(desc string, in []byte) {
		cur, curDesc = in, desc
		c03Check(c, in, c03Strict, true)
		c03Check(c, in, c03Relaxed, false)
	}
	run("identity", enc)
	c03Check(c, enc, c03NoEnd, false)
	extClasses := []byte{0x00, 0x01, 0x17, 0x18, 0x60, 0xf6, 0xff, 0x80}
	if len(enc) <= 64 {
		for bit := 0; bit < len(enc)*8; bit++ {
			m := append([]byte(nil), enc...)
			m[bit/8] ^= 1 << (bit % 8)
			run(fmt.Sprintf("bitflip@%d", bit), m)
		}
		for l := 0; l < len(enc); l++ {
			run(fmt.Sprintf("truncate@%d", l), enc[:l])
		}
		for _, b := range extClasses {
			run(fmt.Sprintf("extend+%02x", b), append(append([]byte(nil), enc...), b))
		}
		c.Count("single_point_complete", 1)
	} else {
		for k := 0; k < 150; k++ {
			m := append([]byte(nil), enc...)
			bit := rng.Intn(len(enc) * 8)
			m[bit/8] ^= 1 << (bit % 8)
			run(fmt.Sprintf("bitflip@%d", bit), m)
		}
		for k := 0; k < 30; k++ {
			l := rng.Intn(len(enc))
			run(fmt.Sprintf("truncate@%d", l), enc[:l])
		}
		run("extend+00", append(append([]byte(nil), enc...), 0))
	}
	// multi-point
	if len(enc) > 0 {
		for k := 0; k < 40; k++ {
			m := append([]byte(nil), enc...)
			np := 2 + rng.Intn(3)
			for q := 0; q < np; q++ {
				pos := rng.Intn(len(m))
				if rng.Bool() {
					m[pos] ^= 1 << rng.Intn(8)
				} else {
					m[pos] = byte(rng.U64())
				}
			}
			if rng.Chance(1, 4) {
				m = m[:rng.Intn(len(m)+1)]
			}
			run("multipoint", m)
		}
	}
	// structure-aware
	items := refcbor.CountItems(v)
	tags := []uint64{0, 1, 2, 3, 23, 24, 41, 42, 43, 255, 256, 65536, 1 << 32, 55799}
	for _, kind := range refcbor.MutKinds {
		reps := 3
		if kind == "tag" || kind == "longhead" || kind == "simple" {
			reps = 8
		}
		for k := 0; k < reps; k++ {
			m := refcbor.Mut{Kind: kind, Target: rng.Intn(items)}
			switch kind {
			case "longhead":
				m.Arg = uint64(24 + rng.Intn(4))
			case "tag":
				m.Arg = tags[rng.Intn(len(tags))]
			case "narrowfloat":
				m.Arg = []uint64{16, 32}[rng.Intn(2)]
			case "specialfloat":
				m.Arg = []uint64{16, 32, 64}[rng.Intn(3)]*4 + uint64(rng.Intn(4))
			case "simple":
				m.Arg = uint64(rng.Intn(32))
			case "trailing":
				m.Arg = uint64(extClasses[rng.Intn(len(extClasses))])
			default:
				m.Arg = rng.U64() % 251
			}
			b, hit := refcbor.EncodeMut(v, m)
			if !hit {
				continue
			}
			c.Count("struct_mutations_hit", 1)
			c.Count("mut:"+kind, 1)
			run(fmt.Sprintf("%s target=%d arg=%d", kind, m.Target, m.Arg), b)
			if kind == "trailing" {
				cur, curDesc = b, "trailing (DontParseBeyondEnd)"
				c03Check(c, b, c03NoEnd, false)
			}
			if kind == "tag" && k%2 == 0 {
				cur, curDesc = b, "tag (links not allowed)"
				c03Check(c, b, c03NoLinks, false)
			}
		}
	}
	if v.Stats().Links > 0 {
		cur, curDesc = enc, "identity (links not allowed)"
		c03Check(c, enc, c03NoLinks, false)
	}
}

func normNaN(v model.Val) model.Val {
	switch v.K {
	case model.KFloat:
		if v.F != v.F {
			return model.Float(math.NaN())
		}
	case model.KList:
		out := make([]model.Val, len(v.L))
		for i := range v.L {
			out[i] = normNaN(v.L[i])
		}
		return model.Val{K: model.KList, L: out}
	case model.KMap:
		out := make([]model.Entry, len(v.M))
		for i := range v.M {
			out[i] = model.Entry{K: v.M[i].K, V: normNaN(v.M[i].V)}
		}
		return model.Val{K: model.KMap, M: out}
	}
	return v
}

func c03ReasonClass(why string) string {
	if i := strings.Index(why, " at offset"); i >= 0 {
		why = why[:i]
	}
	if i := strings.IndexAny(why, ":\""); i >= 0 {
		why = why[:i]
	}
	return errClass(fmt.Errorf("%s", why))
}

// c03Check decodes in with the implementation under cfg (basicnode target and,
// when withRecorder, the recording assembler) and compares with the reference.
// It returns whether the input is non-trivial by the rule.
func c03Check(c *fw.Ctx, in []byte, cfg c03cfg, withRecorder bool) bool {
	refV, refOK, why := refcbor.Decode(in, cfg.ref)
	class := ""
	if refOK {
		c.Count("ref_accept", 1)
	} else {
		c.Count("ref_reject", 1)
		class = c03ReasonClass(why)
		if cfg.name == "strict" {
			c.Count("ref_reject:"+class, 1)
		}
	}
	relaxed := cfg.ref.Relaxed
	// The basicnode leg reads from a bytes.Reader; the recorder leg from a plain io.Reader that offers
	// nothing but Read (no ByteReader, no Len), in one of three shapes chosen by the input itself: whole,
	// one byte at a time, or with the last bytes delivered together with io.EOF. What a decoder accepts must
	// not depend on how the bytes arrive.
	var rd io.Reader = bytes.NewReader(in)
	// the strict and the no-links configurations are reached through the package functions and, for every third
	// input, through the decoders the multicodec registry hands out for 0x71 and 0x51 (what a LinkSystem uses):
	// the two entry points must be the same decoder (round-4 seed C03-11 registered the link-accepting decoder
	// for plain CBOR)
	viaRegistry := fw.HashString(string(in))%3 == 0
	decode := func(na datamodel.NodeAssembler) error {
		if cfg.name == "strict-nolinks" {
			if viaRegistry {
				if d, err := multicodec.LookupDecoder(0x51); err == nil {
					c.Count("decodes_via_registry", 1)
					return d(na, rd)
				}
			}
			return cbor.Decode(na, rd)
		}
		if cfg.name == "strict" {
			if viaRegistry {
				if d, err := multicodec.LookupDecoder(0x71); err == nil {
					c.Count("decodes_via_registry", 1)
					return d(na, rd)
				}
			}
			return dagcbor.Decode(na, rd)
		}
		return cfg.opt.Decode(na, rd)
	}
	judge := func(target string, err error, got func() (model.Val, string)) {
		implOK := err == nil
		if implOK && !refOK && relaxed && !strings.HasPrefix(class, "indefinite") {
			// relaxed mode promises only: indefinite lengths rejected, value fidelity
			c.Count("relaxed_accepts_beyond_reference", 1)
			return
		}
		if implOK && !refOK {
			c.Deviate("C03:accepts-invalid:"+cfg.name+":"+class, fmt.Sprintf("[%s → %s] input %s accepted, but it is not well-formed DAG-CBOR: %s", cfg.name, target, hexClip(in), why))
			return
		}
		if !implOK && refOK && !relaxed {
			c.Deviate("C03:rejects-valid:"+cfg.name+":"+errClass(err), fmt.Sprintf("[%s → %s] input %s rejected (%v) but it is well-formed and denotes %s", cfg.name, target, hexClip(in), err, refV.Dump()))
			return
		}
		if implOK && refOK {
			gv, issue := got()
			want := refV
			if relaxed {
				gv, want = normNaN(gv), normNaN(want)
			}
			if !model.Equal(gv, want) {
				c.Deviate("C03:wrong-value:"+cfg.name+":"+kindPair(gv, want), fmt.Sprintf("[%s → %s] input %s decoded as %s but denotes %s", cfg.name, target, hexClip(in), gv.Dump(), want.Dump()))
			} else if issue != "" {
				c.Deviate("C03:decoded-node-inconsistent", fmt.Sprintf("[%s → %s] input %s: %s", cfg.name, target, hexClip(in), issue))
			}
		}
	}
	nb := basicnode.Prototype.Any.NewBuilder()
	var err error
	if !c.Guard("C03:decode:"+cfg.name, func() { err = decode(nb) }) {
		if relaxed {
			c.Count("decodes_relaxed", 1)
		} else {
			c.Count("decodes_strict", 1)
		}
		// basicnode itself rejects repeated keys; in relaxed mode that is not the decoder's promise
		judge("basicnode", err, func() (model.Val, string) {
			ro := obs.ReadOut(nb.Build(), obs.Options{Light: true})
			return ro.Val, ro.FirstIssue()
		})
	}
	if withRecorder {
		rec, na := rasm.New()
		shape := int(fw.HashString(string(in)) % 3)
		rd = &c03PlainReader{data: in, shape: shape}
		c.Count(fmt.Sprintf("reader_shape_%d", shape), 1)
		if !c.Guard("C03:decode-recorder:"+cfg.name, func() { err = decode(na) }) {
			c.Count("decodes_recorder", 1)
			judge("recording assembler", err, func() (model.Val, string) { return rec.Root, "" })
		}
	}
	return refOK || !(strings.HasPrefix(why, "unexpected end of input") || strings.HasPrefix(why, "truncated head"))
}

func kindPair(got, want model.Val) string {
	if got.K != want.K {
		return got.K.String() + "-for-" + want.K.String()
	}
	return want.K.String()
}

// c03PlainReader offers only Read. shape 0: as much as asked; 1: one byte per call; 2: as much as asked,
// and the final bytes come together with io.EOF.
type c03PlainReader struct {
	data  []byte
	pos   int
	shape int
}

func (r *c03PlainReader) Read(p []byte) (int, error) {
	if len(p) == 0 {
		return 0, nil
	}
	if r.pos >= len(r.data) {
		return 0, io.EOF
	}
	n := len(p)
	if r.shape == 1 {
		n = 1
	}
	if n > len(r.data)-r.pos {
		n = len(r.data) - r.pos
	}
	copy(p, r.data[r.pos:r.pos+n])
	r.pos += n
	if r.shape == 2 && r.pos >= len(r.data) {
		return n, io.EOF
	}
	return n, nil
}
