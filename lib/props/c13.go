package props

import (
	"fmt"
	"github.com/ipld/go-ipld-prime/schema"
	"os"
	"os/exec"
	"path/filepath"
	"strings"
	"sync"
	"time"

	gengo "github.com/ipld/go-ipld-prime/schema/gen/go"

	"verif/lib/c13drv"
	"verif/lib/fw"
	"verif/lib/schemagen"
)

// C13 — generated code compiles and behaves exactly like bindnode.
type c13 struct{}

func init() { fw.Register(c13{}) }

func (c13) ID() string { return "C13" }

func (c13) Plan(tier string) fw.Plan {
	p := fw.Plan{
		Batches: 16, Cases: c13drv.TypeSystemsPerBatch(tier), TimeoutSec: 1500, Level: "exploration",
		Rule:        "per batch: draw type systems inside the generator's feature set (scalars, link, struct map/tuple/stringjoin with optional/nullable/renames, typed maps incl. stringjoin keys and nullable values, lists, unions keyed/kinded/stringprefix), generate one Go package per type system with schema/gen/go FROM THE WORKING TREE into a scratch module outside /repo and /verif, and go build it together with a driver — a generation panic or a compile error is a violation (replay = the type system and the compiler output). The compiled driver rebuilds the same type systems, binds them with bindnode too, and for every input (30 (quick) / 80 (thorough) conforming values per type plus 8 random local mutations each, at type and representation level) compares both engines in lock-step: accept/reject, type-level read-out, representation read-out, dag-cbor and dag-json bytes; the generated engine is additionally checked against the reference with the C08 and C09 monitors. The scratch module is removed after each batch. Non-trivial: every driven value; distinct by (type system, type, value) hash.",
		Assumptions: []string{"the Go compiler is the judge of 'compiles'", "reference model (lib/ref/schema) as in C08/C09"},
		MinEvents:   []string{"packages_generated", "packages_compiled", "type_systems_driven", "types_driven", "lockstep_inputs", "lockstep_accepted_by_both", "lockstep_bytes_compared", "mutations_driven", "conformance_feeds", "view_readouts"},
	}
	if tier == "thorough" {
		p.Batches, p.TimeoutSec = 64, 3300
	}
	return p
}

func (c13) RunCase(c *fw.Ctx, rng *fw.RNG, batch, i int) {} // the cases run inside the generated driver

func (c13) Orchestrate(p *fw.Parent) error {
	plan := p.Plan()
	sem := make(chan struct{}, max(1, p.Jobs/2))
	var wg sync.WaitGroup
	for b := 0; b < plan.Batches; b++ {
		wg.Add(1)
		sem <- struct{}{}
		go func(b int) {
			defer wg.Done()
			defer func() { <-sem }()
			c13Batch(p, b)
		}(b)
	}
	wg.Wait()
	c13WideProbe(p)
	return nil
}

// c13WideProbe: a struct with exactly 63 fields must generate and compile (the generator keeps the set of
// assembled fields in an int); for 64 and 70 fields the generated package is compiled too and a failure that
// is the bit-set constant overflowing is reported under its own signature (a known finding, §4) — any other
// failure under the general one.
func c13WideProbe(p *fw.Parent) {
	scratch, err := os.MkdirTemp("", "verif-c13w-")
	if err != nil {
		return
	}
	defer os.RemoveAll(scratch)
	repo := os.Getenv("REPO_ROOT")
	if repo == "" {
		repo = "/repo"
	}
	os.WriteFile(filepath.Join(scratch, "go.mod"), []byte("module verifgen\n\ngo 1.25.7\n\nrequire github.com/ipld/go-ipld-prime v0.0.0\n\nreplace github.com/ipld/go-ipld-prime => "+repo+"\n"), 0o644)
	if sum, err := os.ReadFile(filepath.Join(p.Root, "go.sum")); err == nil {
		os.WriteFile(filepath.Join(scratch, "go.sum"), sum, 0o644)
	}
	for _, nf := range []int{63, 64, 70} {
		ts := new(schema.TypeSystem)
		ts.Init()
		ts.Accumulate(schema.SpawnString("String"))
		ts.Accumulate(schema.SpawnInt("Int"))
		var fields []schema.StructField
		for i := 0; i < nf; i++ {
			tn := "String"
			if i%3 == 1 {
				tn = "Int"
			}
			fields = append(fields, schema.SpawnStructField(fmt.Sprintf("f%d", i), schema.TypeName(tn), i%2 == 1, false))
		}
		ts.Accumulate(schema.SpawnStruct("Wide", fields, schema.SpawnStructRepresentationMap(nil)))
		pkg := fmt.Sprintf("wide%d", nf)
		dir := filepath.Join(scratch, "gen", pkg)
		os.MkdirAll(dir, 0o755)
		var genPanic any
		func() {
			defer func() { genPanic = recover() }()
			gengo.Generate(dir, pkg, *ts, &gengo.AdjunctCfg{})
		}()
		p.Count("wide_struct_probes", 1)
		if genPanic != nil {
			p.AddDeviation(fw.Deviation{Sig: "C13:generator-panics", Detail: fmt.Sprintf("schema/gen/go panicked on a struct with %d scalar fields: %v", nf, genPanic), Batch: -1, Index: nf})
			continue
		}
		build := exec.Command("go", "build", "./gen/"+pkg)
		build.Dir = scratch
		build.Env = append(os.Environ(), "GOFLAGS=-mod=mod", "GOPROXY=off", "GOSUMDB=off", "GOTOOLCHAIN=local")
		out, err := build.CombinedOutput()
		if err == nil {
			p.Count("wide_struct_packages_compiled", 1)
			continue
		}
		msg := string(out)
		if strings.Contains(msg, "cannot find module") {
			p.AddInconclusive("wide-struct probe: module setup failed (harness): " + clipS(msg, 400))
			return
		}
		sig := "C13:generated-code-does-not-compile"
		onlyOverflow := nf >= 64
		for _, l := range strings.Split(strings.TrimSpace(msg), "\n") {
			if strings.HasPrefix(l, "#") || strings.Contains(l, "too many errors") {
				continue
			}
			if !(strings.Contains(l, "cannot use ") && strings.Contains(l, "1 << ") && (strings.Contains(l, "overflows") || strings.Contains(l, "…"))) {
				onlyOverflow = false
			}
		}
		if onlyOverflow {
			sig = "C13:generated-code-does-not-compile:struct-with-64-or-more-fields"
		}
		p.AddDeviation(fw.Deviation{Sig: sig, Detail: fmt.Sprintf("the package generated for a map-represented struct with %d scalar fields does not compile:\n%s", nf, clipS(msg, 1500)), Batch: -1, Index: nf})
	}
}

func c13Batch(p *fw.Parent, b int) {
	scratch, err := os.MkdirTemp("", "verif-c13-")
	if err != nil {
		p.AddInconclusive(err.Error())
		return
	}
	defer os.RemoveAll(scratch)
	n := c13drv.TypeSystemsPerBatch(p.Tier)
	var imports, cases strings.Builder
	for i := 0; i < n; i++ {
		ts := c13drv.TypeSystemFor(p.Seed, p.Tier, b, i)
		desc := schemagen.Describe(ts)
		lib, err := schemagen.ToLibrary(ts)
		if err != nil {
			p.AddInconclusive("library rejects a generated type system: " + err.Error())
			return
		}
		pkg := fmt.Sprintf("ts%d", i)
		dir := filepath.Join(scratch, "gen", pkg)
		os.MkdirAll(dir, 0o755)
		// the generator's public adjunct configuration: memory layout per union type
		adj := &gengo.AdjunctCfg{CfgUnionMemlayout: map[schema.TypeName]string{}}
		ar := fw.NewRNG(fw.Mix(p.Seed, fw.HashString("C13-adjunct"), fw.HashString(p.Tier), uint64(b), uint64(i)))
		for _, t := range ts.Types {
			if t.Kind == "union" && ar.Bool() {
				adj.CfgUnionMemlayout[t.Name] = "interface"
				desc += "\n# union " + t.Name + " generated with memlayout \"interface\""
				p.Count("unions_with_interface_memlayout", 1)
			}
		}
		var genPanic any
		func() {
			defer func() { genPanic = recover() }()
			gengo.Generate(dir, pkg, *lib, adj)
		}()
		if genPanic != nil {
			p.AddDeviation(fw.Deviation{Sig: "C13:generator-panics", Detail: fmt.Sprintf("schema/gen/go panicked on a type system within its feature set: %v\n%s", genPanic, desc), Batch: b, Index: i})
			return
		}
		p.Count("packages_generated", 1)
		if i < 1 && b < 2 {
			p.AddSample(map[string]any{"batch": b, "type_system": desc})
		}
		fmt.Fprintf(&imports, "\t%s \"verifgen/gen/%s\"\n", pkg, pkg)
		fmt.Fprintf(&cases, "\tcase %d:\n\t\tswitch name {\n", i)
		for _, t := range ts.Types {
			fmt.Fprintf(&cases, "\t\tcase %q:\n\t\t\treturn %s.Type.%s, %s.Type.%s__Repr\n", t.Name, pkg, t.Name, pkg, t.Name)
		}
		cases.WriteString("\t\t}\n")
	}
	main := "package main\n\nimport (\n\t\"os\"\n\n\t\"github.com/ipld/go-ipld-prime/datamodel\"\n\t\"verif/lib/c13drv\"\n" + imports.String() + ")\n\n" +
		"func protos(ts int, name string) (datamodel.NodePrototype, datamodel.NodePrototype) {\n\tswitch ts {\n" + cases.String() + "\t}\n\treturn nil, nil\n}\n\n" +
		"func main() {\n\tc13drv.Protos = protos\n\tos.Exit(c13drv.Main(os.Args[1:]))\n}\n"
	os.WriteFile(filepath.Join(scratch, "main.go"), []byte(main), 0o644)
	gomod := "module verifgen\n\ngo 1.25.7\n\nrequire (\n\tgithub.com/ipld/go-ipld-prime v0.0.0\n\tverif v0.0.0\n)\n\nreplace github.com/ipld/go-ipld-prime => " + os.Getenv("REPO_ROOT_OR_DEFAULT") + "\n\nreplace verif => " + p.Root + "\n"
	repo := os.Getenv("REPO_ROOT")
	if repo == "" {
		repo = "/repo"
	}
	gomod = strings.Replace(gomod, os.Getenv("REPO_ROOT_OR_DEFAULT")+"\n\nreplace verif", repo+"\n\nreplace verif", 1)
	os.WriteFile(filepath.Join(scratch, "go.mod"), []byte(gomod), 0o644)
	if sum, err := os.ReadFile(filepath.Join(p.Root, "go.sum")); err == nil {
		os.WriteFile(filepath.Join(scratch, "go.sum"), sum, 0o644)
	}
	build := exec.Command("go", "build", "-o", "driver", ".")
	build.Dir = scratch
	build.Env = append(os.Environ(), "GOFLAGS=-mod=mod", "GOPROXY=off", "GOSUMDB=off", "GOTOOLCHAIN=local")
	out, err := build.CombinedOutput()
	if err != nil {
		var descs []string
		for i := 0; i < n; i++ {
			descs = append(descs, schemagen.Describe(c13drv.TypeSystemFor(p.Seed, p.Tier, b, i)))
		}
		msg := string(out)
		sig := "C13:generated-code-does-not-compile"
		if strings.Contains(msg, "cannot find module") || strings.Contains(msg, "go.mod") && !strings.Contains(msg, "gen/ts") {
			p.AddInconclusive("driver module setup failed (harness): " + clipS(msg, 600))
			return
		}
		p.AddDeviation(fw.Deviation{Sig: sig, Detail: fmt.Sprintf("go build of the generated packages failed:\n%s\ntype systems:\n%s", clipS(msg, 3000), strings.Join(descs, "\n---\n")), Batch: b, Index: -1})
		return
	}
	p.Count("packages_compiled", int64(n))
	outf := filepath.Join(p.WorkDir, fmt.Sprintf("b%d.out", b))
	f, _ := os.Create(outf)
	cmd := exec.Command(filepath.Join(scratch, "driver"), "-seed", fmt.Sprint(p.Seed), "-tier", p.Tier, "-batch", fmt.Sprint(b), "-out", p.WorkDir)
	cmd.Stdout, cmd.Stderr = f, f
	done := make(chan error, 1)
	if err := cmd.Start(); err != nil {
		f.Close()
		p.AddInconclusive("cannot start driver: " + err.Error())
		return
	}
	go func() { done <- cmd.Wait() }()
	select {
	case <-done:
	case <-time.After(20 * time.Minute):
		cmd.Process.Kill()
		<-done
		p.AddInconclusive(fmt.Sprintf("batch %d: driver hit the watchdog", b))
	}
	f.Close()
	if !p.MergeBatch(b) {
		tail, _ := os.ReadFile(outf)
		p.AddDeviation(fw.Deviation{Sig: "C13:driver-died:" + fatalFirst(string(tail)), Detail: "the driver process running the generated code died:\n" + clipS(string(tail), 3000), Batch: b, Index: -1})
	}
}
