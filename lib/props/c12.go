package props

import (
	"errors"
	"fmt"
	"strings"
	"verif/lib/schemagen"
	"verif/lib/typedmon"

	"github.com/ipld/go-ipld-prime/datamodel"
	"github.com/ipld/go-ipld-prime/node/basicnode"
	"github.com/ipld/go-ipld-prime/node/bindnode"
	"github.com/ipld/go-ipld-prime/node/gendemo"
	"github.com/ipld/go-ipld-prime/schema"

	"verif/lib/build"
	"verif/lib/fnode"
	"verif/lib/fw"
	"verif/lib/model"
	"verif/lib/obs"
)

// C12 — assemblers enforce their protocol.
type c12 struct{}

func init() { fw.Register(c12{}) }

func (c12) ID() string { return "C12" }

func (c12) Plan(tier string) fw.Plan {
	p := fw.Plan{
		Batches: 16, Cases: 24000, TimeoutSec: 900, Level: "exploration",
		Rule:        "one case = one legal assembler call sequence for a generated value on one target (basicnode Any/Map/List; bindnode and checked-in generated code (gendemo) for a struct, a typed map of structs, a renamed-representation struct, a {String:Any} map, at type and representation level), nested to depth ≤5, with the two pinned rejections injected at a random position: a repeated key (through AssembleEntry, AssembleKey().AssignString or AssembleKey().AssignNode; the repeated key is drawn from all earlier keys, so also after out-of-order keys) after which the sequence continues on the same assembler, or an assignment of a kind the position cannot hold (non-string into a key assembler, scalar/wrong recursive kind into Map/List/kind prototypes and typed fields) after which the sequence ends; plus Build→Reset→Build and abandon→Reset→Build sequences. Oracle: sequential model of the assembler contract — outcome class per call and read-out of Build() equal to the accepted entries. Non-trivial: an injection actually took place; distinct by hash of (target, value, injection).",
		Assumptions: []string{"misuse call orders are never generated (the contract lets them panic)", "after a rejected *kind* nothing more is demanded than the error itself"},
		MinEvents:   []string{"sequences", "repeated_key_injections", "wrong_kind_injections", "resets", "target:basicnode.Any", "target:bindnode.Msg3", "target:gendemo.Msg3", "target:gendemo.Map__String__Msg3", "target:bindnode.Map__String__Msg3"},
	}
	if tier == "thorough" {
		p.Batches, p.Cases, p.TimeoutSec = 64, 40000, 3000
	}
	return p
}

type c12Target struct {
	name  string
	proto datamodel.NodePrototype
	gen   func(r *fw.RNG) model.Val
	typed bool
	// childPinned: positions below the root pin their kind too (fully typed value space)
	childPinned bool
}

var c12Targets []c12Target

func c12GenMsg3(r *fw.RNG) model.Val {
	return model.Map(model.E("whee", model.GenInt(r, false)), model.E("woot", model.GenInt(r, false)), model.E("waga", model.GenInt(r, false)))
}

func c12GenMapMsg3(r *fw.RNG) model.Val {
	n := r.Intn(7)
	keys := map[string]bool{}
	var es []model.Entry
	for len(es) < n {
		k := model.GenString(r, false)
		if keys[k] {
			k += fmt.Sprint(len(es))
		}
		if keys[k] {
			continue
		}
		keys[k] = true
		es = append(es, model.E(k, c12GenMsg3(r)))
	}
	return model.Val{K: model.KMap, M: es}
}

func c12Init() {
	if c12Targets != nil {
		return
	}
	c01Init()
	c05Init()
	ts := new(schema.TypeSystem)
	ts.Init()
	ts.Accumulate(schema.SpawnInt("Int"))
	ts.Accumulate(schema.SpawnString("String"))
	ts.Accumulate(schema.SpawnStruct("Msg3", []schema.StructField{
		schema.SpawnStructField("whee", "Int", false, false),
		schema.SpawnStructField("woot", "Int", false, false),
		schema.SpawnStructField("waga", "Int", false, false),
	}, schema.SpawnStructRepresentationMap(nil)))
	ts.Accumulate(schema.SpawnMap("Map__String__Msg3", "String", "Msg3", false))
	ts.Accumulate(schema.SpawnList("List__Int", "Int", false))
	ts.Accumulate(schema.SpawnMap("Map__String__Int", "String", "Int", false))
	ts.Accumulate(schema.SpawnMap("MapOfLists", "String", "List__Int", false))
	ts.Accumulate(schema.SpawnMap("MapOfMaps", "String", "Map__String__Int", false))
	bMsg3 := bindnode.Prototype(nil, ts.TypeByName("Msg3"))
	bMap := bindnode.Prototype(nil, ts.TypeByName("Map__String__Msg3"))
	bRen := bindnode.Prototype((*c05Struct)(nil), c05TS.TypeByName("Renamed"))
	genAny := func(r *fw.RNG) model.Val {
		for {
			v := model.Gen(r, model.GenOpts{MaxDepth: 5, MaxWidth: 6, Uint: true, NonUTF8: true, Links: true})
			if v.K == model.KMap || v.K == model.KList {
				return v
			}
		}
	}
	genMap := func(r *fw.RNG) model.Val {
		for {
			v := model.Gen(r, model.GenOpts{MaxDepth: 4, MaxWidth: 6, NonUTF8: true, Links: true})
			if v.K == model.KMap {
				return v
			}
		}
	}
	genList := func(r *fw.RNG) model.Val {
		for {
			v := model.Gen(r, model.GenOpts{MaxDepth: 4, MaxWidth: 6, NonUTF8: true, Links: true})
			if v.K == model.KList {
				return v
			}
		}
	}
	genMapNoNull := func(r *fw.RNG) model.Val {
		for {
			v := model.Gen(r, model.GenOpts{MaxDepth: 4, MaxWidth: 6, Links: true})
			if v.K == model.KMap {
				return v
			}
		}
	}
	c12Targets = []c12Target{
		{name: "basicnode.Any", proto: basicnode.Prototype.Any, gen: genAny},
		{name: "basicnode.Any", proto: basicnode.Prototype.Any, gen: genAny},
		{name: "basicnode.Map", proto: basicnode.Prototype.Map, gen: genMap},
		{name: "basicnode.List", proto: basicnode.Prototype.List, gen: genList},
		{name: "bindnode.{String:Any}", proto: c01MapAnyP, gen: genMapNoNull, typed: true},
		{childPinned: true, name: "bindnode.Msg3", proto: bMsg3, gen: c12GenMsg3, typed: true},
		{childPinned: true, name: "bindnode.Msg3.Repr", proto: bMsg3.Representation(), gen: c12GenMsg3, typed: true},
		{childPinned: true, name: "bindnode.Map__String__Msg3", proto: bMap, gen: c12GenMapMsg3, typed: true},
		{childPinned: true, name: "bindnode.Map__String__Msg3.Repr", proto: bMap.Representation(), gen: c12GenMapMsg3, typed: true},
		{childPinned: true, name: "bindnode.{String:[Int]}", proto: bindnode.Prototype(nil, ts.TypeByName("MapOfLists")), typed: true, gen: func(r *fw.RNG) model.Val {
			n := r.Intn(5)
			es := make([]model.Entry, n)
			for i := range es {
				xs := make([]model.Val, r.Intn(4))
				for j := range xs {
					xs[j] = model.GenInt(r, false)
				}
				es[i] = model.E(fmt.Sprintf("k%d%s", i, model.GenString(r, false)), model.Val{K: model.KList, L: xs})
			}
			return model.Val{K: model.KMap, M: es}
		}},
		{childPinned: true, name: "bindnode.{String:{String:Int}}", proto: bindnode.Prototype(nil, ts.TypeByName("MapOfMaps")), typed: true, gen: func(r *fw.RNG) model.Val {
			n := r.Intn(5)
			es := make([]model.Entry, n)
			for i := range es {
				in := make([]model.Entry, r.Intn(4))
				for j := range in {
					in[j] = model.E(fmt.Sprintf("i%d%s", j, model.GenString(r, false)), model.GenInt(r, false))
				}
				es[i] = model.E(fmt.Sprintf("k%d%s", i, model.GenString(r, false)), model.Val{K: model.KMap, M: in})
			}
			return model.Val{K: model.KMap, M: es}
		}},
		{childPinned: true, name: "bindnode.Renamed.Repr", proto: bRen.Representation(), typed: true, gen: func(r *fw.RNG) model.Val {
			return model.Map(model.E("x", model.GenInt(r, false)), model.E("y", model.String(model.GenString(r, false))))
		}},
		{childPinned: true, name: "gendemo.Msg3", proto: gendemo.Type.Msg3, gen: c12GenMsg3, typed: true},
		{childPinned: true, name: "gendemo.Msg3.Repr", proto: gendemo.Type.Msg3__Repr, gen: c12GenMsg3, typed: true},
		{childPinned: true, name: "gendemo.Map__String__Msg3", proto: gendemo.Type.Map__String__Msg3, gen: c12GenMapMsg3, typed: true},
		{childPinned: true, name: "gendemo.Map__String__Msg3.Repr", proto: gendemo.Type.Map__String__Msg3__Repr, gen: c12GenMapMsg3, typed: true},
		// values not nullable: the Go slot is a bare datamodel.Node (kept last: other checks refer to targets by index)
		{name: "bindnode.{String:Any}", proto: c01MapAnyNNP, typed: true, gen: func(r *fw.RNG) model.Val {
			for {
				v := genMapNoNull(r)
				ok := true
				for _, e := range v.M {
					if e.V.K == model.KNull {
						ok = false
					}
				}
				if ok {
					return v
				}
			}
		}},
	}
}

type c12Seq struct {
	c        *fw.Ctx
	rng      *fw.RNG
	target   string
	dupAt    int // ordinal of the map entry (over the whole tree) before which a repeated key is injected; -1 none
	dupForm  int
	badAt    int // ordinal of the assembler position at which a wrong-kind assignment is injected; -1 none
	entryN   int
	posN     int
	trace    []string
	injected string
	ended    bool // a wrong-kind injection ended the sequence
	typed    bool // children pin their kind
}

func (s *c12Seq) log(f string, a ...any) {
	if len(s.trace) < 60 {
		s.trace = append(s.trace, fmt.Sprintf(f, a...))
	}
}

var errC12Stop = errors.New("sequence ended by the injected wrong-kind assignment")

// wrongKind performs an assignment the position cannot hold and checks that it is an error.
func (s *c12Seq) wrongKindOnKey(ma datamodel.MapAssembler) {
	forms := []struct {
		name string
		f    func(datamodel.NodeAssembler) error
	}{
		{"AssignInt(5)", func(a datamodel.NodeAssembler) error { return a.AssignInt(5) }},
		{"AssignBool(true)", func(a datamodel.NodeAssembler) error { return a.AssignBool(true) }},
		{"AssignNull()", func(a datamodel.NodeAssembler) error { return a.AssignNull() }},
		{"AssignFloat(1.5)", func(a datamodel.NodeAssembler) error { return a.AssignFloat(1.5) }},
		{"AssignBytes(x)", func(a datamodel.NodeAssembler) error { return a.AssignBytes([]byte("x")) }},
		{"AssignNode(int node)", func(a datamodel.NodeAssembler) error { return a.AssignNode(basicnode.NewInt(3)) }},
		{"AssignNode(foreign list)", func(a datamodel.NodeAssembler) error { return a.AssignNode(fnode.New(model.List())) }},
		{"BeginMap(0)", func(a datamodel.NodeAssembler) error { _, e := a.BeginMap(0); return e }},
		{"BeginList(0)", func(a datamodel.NodeAssembler) error { _, e := a.BeginList(0); return e }},
	}
	fm := forms[s.rng.Intn(len(forms))]
	s.injected = "wrong kind into key assembler: " + fm.name
	s.log("AssembleKey().%s  [injected wrong kind]", fm.name)
	var err error
	if s.c.Guard("C12:wrong-kind-key:"+s.target, func() { err = fm.f(ma.AssembleKey()) }) {
		return
	}
	s.c.Count("wrong_kind_injections", 1)
	if err == nil {
		s.c.Deviate("C12:wrong-kind-accepted:key:"+s.target, fmt.Sprintf("%s on a key assembler of %s returned no error\nsequence: %s", fm.name, s.target, strings.Join(s.trace, "; ")))
	}
}

func kindOfVal(v model.Val) datamodel.Kind {
	return fnode.New(v).Kind()
}

// wrongKindAt assigns something of a kind that differs from what v needs, on positions that pin their kind.
func (s *c12Seq) wrongKindOnTyped(na datamodel.NodeAssembler, want model.Val, where string) {
	type form struct {
		name string
		kind datamodel.Kind
		f    func(datamodel.NodeAssembler) error
	}
	forms := []form{
		{"AssignInt(5)", datamodel.Kind_Int, func(a datamodel.NodeAssembler) error { return a.AssignInt(5) }},
		{"AssignBool(true)", datamodel.Kind_Bool, func(a datamodel.NodeAssembler) error { return a.AssignBool(true) }},
		{"AssignFloat(1.5)", datamodel.Kind_Float, func(a datamodel.NodeAssembler) error { return a.AssignFloat(1.5) }},
		{"AssignString(x)", datamodel.Kind_String, func(a datamodel.NodeAssembler) error { return a.AssignString("x") }},
		{"AssignBytes(x)", datamodel.Kind_Bytes, func(a datamodel.NodeAssembler) error { return a.AssignBytes([]byte("x")) }},
		{"AssignNode(int node)", datamodel.Kind_Int, func(a datamodel.NodeAssembler) error { return a.AssignNode(basicnode.NewInt(3)) }},
		{"AssignNode(string node)", datamodel.Kind_String, func(a datamodel.NodeAssembler) error { return a.AssignNode(basicnode.NewString("s")) }},
		{"AssignNode(foreign list)", datamodel.Kind_List, func(a datamodel.NodeAssembler) error { return a.AssignNode(fnode.New(model.List(model.Int(1)))) }},
		{"AssignNode(foreign map)", datamodel.Kind_Map, func(a datamodel.NodeAssembler) error {
			return a.AssignNode(fnode.New(model.Map(model.E("zz", model.Int(1)))))
		}},
		{"BeginMap(1)", datamodel.Kind_Map, func(a datamodel.NodeAssembler) error { _, e := a.BeginMap(1); return e }},
		{"BeginList(1)", datamodel.Kind_List, func(a datamodel.NodeAssembler) error { _, e := a.BeginList(1); return e }},
	}
	wk := kindOfVal(want)
	var fm form
	for {
		fm = forms[s.rng.Intn(len(forms))]
		if fm.kind != wk {
			break
		}
	}
	s.injected = fmt.Sprintf("wrong kind at %s (position holds %v): %s", where, wk, fm.name)
	s.log("%s  [injected wrong kind at %s]", fm.name, where)
	var err error
	if s.c.Guard("C12:wrong-kind:"+s.target, func() { err = fm.f(na) }) {
		return
	}
	s.c.Count("wrong_kind_injections", 1)
	if err == nil {
		s.c.Deviate("C12:wrong-kind-accepted:"+s.target, fmt.Sprintf("%s at %s (which holds a %v) returned no error\nsequence: %s", fm.name, where, wk, strings.Join(s.trace, "; ")))
	}
}

// pinned reports whether the assembler position pins its kind (so a wrong kind must be refused).
func (s *c12Seq) assemble(na datamodel.NodeAssembler, v model.Val, pinned bool, where string) error {
	pos := s.posN
	s.posN++
	if pos == s.badAt && pinned {
		s.wrongKindOnTyped(na, v, where)
		s.ended = true
		return errC12Stop
	}
	// one scalar in four arrives as a finished node (basicnode or the harness's own implementation) through
	// AssignNode instead of Assign<Kind>: an accepted entry must be there whichever way its value came
	// (round-3 seed C12-9: an AssignNode shortcut for Any positions that skips the assembler's finish step)
	if v.K != model.KList && v.K != model.KMap && v.K != model.KUint && s.rng.Chance(1, 4) {
		impl := s.rng.Intn(2)
		s.log("AssignNode(%s node, impl %d)", v.K, impl)
		s.c.Count("scalar_via_assignnode", 1)
		return na.AssignNode(build.Source(v, impl))
	}
	switch v.K {
	case model.KNull:
		s.log("AssignNull")
		return na.AssignNull()
	case model.KBool:
		s.log("AssignBool")
		return na.AssignBool(v.B)
	case model.KInt:
		s.log("AssignInt(%d)", v.I)
		return na.AssignInt(v.I)
	case model.KUint:
		s.log("AssignNode(uint)")
		return na.AssignNode(basicnode.NewUint(v.U))
	case model.KFloat:
		s.log("AssignFloat")
		return na.AssignFloat(v.F)
	case model.KString:
		s.log("AssignString(%q)", clipS(v.S, 12))
		return na.AssignString(v.S)
	case model.KBytes:
		s.log("AssignBytes")
		return na.AssignBytes([]byte(v.S))
	case model.KLink:
		s.log("AssignLink")
		return na.AssignLink(fnode.LinkOf(v.S))
	case model.KList:
		s.log("BeginList(%d)", len(v.L))
		la, err := na.BeginList(int64(len(v.L)))
		if err != nil {
			return err
		}
		for i, x := range v.L {
			if err := s.assemble(la.AssembleValue(), x, s.typed, fmt.Sprintf("%s/%d", where, i)); err != nil {
				return err
			}
		}
		s.log("Finish")
		return la.Finish()
	case model.KMap:
		s.log("BeginMap(%d)", len(v.M))
		ma, err := na.BeginMap(int64(len(v.M)))
		if err != nil {
			return err
		}
		for i, e := range v.M {
			en := s.entryN
			s.entryN++
			if en == s.dupAt && i >= 1 {
				dup := v.M[s.rng.Intn(i)].K
				if err := s.injectDup(ma, dup, where); err != nil {
					return err
				}
			}
			if s.posN == s.badAt && !pinned && s.rng.Bool() {
				s.posN++
				s.wrongKindOnKey(ma)
				s.ended = true
				return errC12Stop
			}
			var va datamodel.NodeAssembler
			if s.rng.Bool() {
				s.log("AssembleEntry(%q)", clipS(e.K, 12))
				va, err = ma.AssembleEntry(e.K)
				if err != nil {
					return fmt.Errorf("AssembleEntry(%q): %w", e.K, err)
				}
			} else {
				s.log("AssembleKey().AssignString(%q); AssembleValue()", clipS(e.K, 12))
				if err := ma.AssembleKey().AssignString(e.K); err != nil {
					return fmt.Errorf("AssembleKey().AssignString(%q): %w", e.K, err)
				}
				va = ma.AssembleValue()
			}
			// (not for Any-typed positions: a bindnode prototype bound directly to Any is the known finding of C01)
			if (e.V.K == model.KMap || e.V.K == model.KList) && s.posN != s.badAt && s.target != "bindnode.{String:Any}" && s.rng.Chance(1, 3) {
				// build the child separately on the position's own prototype, then AssignNode it
				var child datamodel.Node
				func() {
					defer func() { recover() }() // some ValuePrototype methods are unimplemented (panic TODO)
					vp := ma.ValuePrototype(e.K)
					if vp == nil {
						return
					}
					nb := vp.NewBuilder()
					sub := &c12Seq{c: s.c, rng: s.rng, target: s.target, dupAt: -1, badAt: -1, typed: s.typed}
					if sub.assemble(nb, e.V, false, "") == nil {
						child = nb.Build()
					}
				}()
				if child != nil {
					s.log("AssignNode(child built on ValuePrototype(%q))", clipS(e.K, 12))
					s.c.Count("assignnode_same_prototype", 1)
					// keep the position counter in step with the normal path
					s.posN += e.V.Stats().Nodes
					if err := va.AssignNode(child); err != nil {
						return fmt.Errorf("AssignNode(child of the position's own prototype): %w", err)
					}
					continue
				}
			}
			if err := s.assemble(va, e.V, s.typed, where+"/"+clipS(e.K, 12)); err != nil {
				return err
			}
		}
		s.log("Finish")
		return ma.Finish()
	}
	return fmt.Errorf("unassemblable kind %v", v.K)
}

func (s *c12Seq) injectDup(ma datamodel.MapAssembler, dup, where string) error {
	forms := []string{"AssembleEntry", "AssembleKey().AssignString", "AssembleKey().AssignNode(basicnode string)", "AssembleKey().AssignNode(foreign string)"}
	form := forms[s.dupForm%len(forms)]
	s.injected = fmt.Sprintf("repeated key %q at %s through %s", dup, where, form)
	s.log("%s(%q)  [injected repeated key]", form, clipS(dup, 12))
	var err error
	if s.c.Guard("C12:repeated-key:"+s.target, func() {
		switch s.dupForm % len(forms) {
		case 0:
			_, err = ma.AssembleEntry(dup)
		case 1:
			err = ma.AssembleKey().AssignString(dup)
		case 2:
			err = ma.AssembleKey().AssignNode(basicnode.NewString(dup))
		default:
			err = ma.AssembleKey().AssignNode(fnode.New(model.String(dup)))
		}
	}) {
		return errC12Stop
	}
	s.c.Count("repeated_key_injections", 1)
	var rk datamodel.ErrRepeatedMapKey
	var rkp *datamodel.ErrRepeatedMapKey
	if err == nil {
		s.c.Deviate("C12:repeated-key-accepted:"+s.target+":"+sanitizeSig(form), fmt.Sprintf("repeated key %q through %s on %s was accepted (no error)\nsequence: %s", dup, form, s.target, strings.Join(s.trace, "; ")))
		return errC12Stop
	}
	if !errors.As(err, &rk) && !errors.As(err, &rkp) {
		s.c.Deviate("C12:repeated-key-other-error:"+s.target, fmt.Sprintf("repeated key %q through %s on %s was rejected with %T (%v), not a repeated-key error", dup, form, s.target, err, err))
	}
	return nil
}

func (c12) RunCase(c *fw.Ctx, rng *fw.RNG, batch, i int) {
	c12Init()
	if i%40 == 7 {
		c12TypedMaps(c, rng)
		return
	}
	t := c12Targets[rng.Intn(len(c12Targets))]
	v := t.gen(rng)
	st := v.Stats()
	entries := 0
	v.Walk(func(x model.Val) { entries += len(x.M) })
	s := &c12Seq{c: c, rng: rng, target: t.name, dupAt: -1, badAt: -1, typed: t.childPinned}
	mode := rng.Intn(10)
	switch {
	case mode < 5 && entries >= 2:
		s.dupAt = 1 + rng.Intn(entries-1)
		s.dupForm = rng.Intn(4)
	case mode < 8:
		s.badAt = rng.Intn(st.Nodes + 1)
	}
	c.SetCase(func() any {
		return map[string]any{"target": t.name, "value": v.Dump(), "injected": s.injected, "calls": s.trace}
	})
	c.Count("sequences", 1)
	c.Count("target:"+t.name, 1)

	nb := t.proto.NewBuilder()
	rootPinned := t.typed || t.name == "basicnode.Map" || t.name == "basicnode.List"
	var err error
	if c.Guard("C12:sequence:"+t.name, func() { err = s.assemble(nb, v, rootPinned, "") }) {
		return
	}
	c.Seen(fw.Mix(fw.HashString(t.name), v.Hash(), uint64(s.dupAt+1), uint64(s.badAt+1), uint64(s.dupForm)), s.injected != "")
	if c.WantSample() && s.injected != "" && len(s.trace) < 30 {
		c.Sample(map[string]any{"target": t.name, "value": v.Dump(), "injected": s.injected, "calls": s.trace})
	}
	if s.ended || errors.Is(err, errC12Stop) {
		return
	}
	if err != nil {
		c.Deviate("C12:legal-sequence-fails:"+t.name+":"+errClass(err), fmt.Sprintf("a legal call sequence on %s failed: %v\ninjected: %s\nsequence: %s", t.name, err, s.injected, strings.Join(s.trace, "; ")))
		return
	}
	var n datamodel.Node
	if c.Guard("C12:build:"+t.name, func() { n = nb.Build() }) {
		return
	}
	check := func(n datamodel.Node, what string) {
		if tn, ok := n.(schema.TypedNode); ok && strings.HasSuffix(t.name, ".Repr") {
			n = tn.Representation() // representation builders hand back the typed node
		}
		ro := obs.ReadOut(n, obs.Options{Light: st.Nodes > 400, Typed: t.typed})
		if !model.Equal(ro.Val, v) {
			c.Deviate("C12:result-differs:"+t.name, fmt.Sprintf("%s on %s reads back as %s\nthe accepted entries are %s\ninjected: %s\nsequence: %s", what, t.name, ro.Val.Dump(), v.Dump(), s.injected, strings.Join(s.trace, "; ")))
		} else if len(ro.Issues) > 0 {
			c.Deviate("C12:"+ro.Issues[0].Sig+":"+t.name, fmt.Sprintf("%s on %s: %s\ninjected: %s", what, t.name, ro.FirstIssue(), s.injected))
		}
	}
	check(n, "Build()")
	// Reset, then the same builder builds again (after a Build, or after an abandoned partial assembly)
	if i%3 == 0 {
		v2 := t.gen(rng)
		s2 := &c12Seq{c: c, rng: rng, target: t.name, dupAt: -1, badAt: -1, typed: t.childPinned}
		var err2 error
		abandoned := rng.Bool()
		if c.Guard("C12:reset:"+t.name, func() {
			nb.Reset()
			if abandoned && (v2.K == model.KMap && len(v2.M) > 0) {
				// start a map, assemble one entry, abandon, Reset
				ma, e := nb.BeginMap(int64(len(v2.M)))
				if e == nil {
					if va, e := ma.AssembleEntry(v2.M[0].K); e == nil {
						s3 := &c12Seq{c: c, rng: rng, target: t.name, dupAt: -1, badAt: -1, typed: t.childPinned}
						s3.assemble(va, v2.M[0].V, false, "")
					}
				}
				nb.Reset()
			}
			err2 = s2.assemble(nb, v2, false, "")
		}) {
			return
		}
		c.Count("resets", 1)
		if err2 != nil {
			c.Deviate("C12:legal-sequence-fails-after-reset:"+t.name+":"+errClass(err2), fmt.Sprintf("after Reset (abandoned partial assembly first: %v) a legal sequence on %s failed: %v", abandoned, t.name, err2))
			return
		}
		var n2 datamodel.Node
		if c.Guard("C12:build-after-reset:"+t.name, func() { n2 = nb.Build() }) {
			return
		}
		saved := v
		v = v2
		check(n2, "Build() after Reset")
		v = saved
		check(n, "the first Build() result, re-read after the builder was reset and reused")
	}
}

// c12TypedMaps: typed maps of random type systems bound with bindnode (inferred and user-supplied Go
// types), with string, enum and recursively assembled struct keys: a repeated key injected at a random
// position must be refused and leave no trace (typedmon.CheckRejectedKey; generated code gets the same
// monitor inside C13's driver).
func c12TypedMaps(c *fw.Ctx, rng *fw.RNG) {
	ts := schemagen.Gen(rng, schemagen.Opts{Types: 6 + rng.Intn(6)})
	lib, err := schemagen.ToLibrary(ts)
	if err != nil {
		c.Inconclusive("library rejects type system: " + err.Error())
		return
	}
	eng := newBindEngine(lib)
	if rng.Bool() {
		eng = newShapedBindEngine(lib, ts, rng)
	}
	c.SetCase(func() any { return map[string]any{"type_system": schemagen.Describe(ts), "engine": eng.Name()} })
	c.Count("sequences", 1)
	for _, t := range ts.Types {
		if (t.Kind != "map" && t.Kind != "struct" && t.Kind != "union") || t.Name[0] != 'T' {
			continue
		}
		for k := 0; k < 6; k++ {
			tv := schemagen.GenValue(rng, ts, t, 0)
			if len(tv.M) == 0 {
				continue
			}
			c.Count("typed_map_sequences", 1)
			c.Seen(fw.Mix(fw.HashString(schemagen.Describe(ts)+t.Name), tv.Hash()), true)
			typedmon.CheckRejectedKey(c, eng, ts, t, tv, false, rng)
			typedmon.CheckRejectedKey(c, eng, ts, t, tv, true, rng)
		}
	}
}
