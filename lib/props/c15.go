package props

import (
	"fmt"
	"github.com/ipld/go-ipld-prime/linking"
	"github.com/ipld/go-ipld-prime/node/basicnode"
	"github.com/ipld/go-ipld-prime/traversal"
	"strings"
	"verif/lib/model"
	"verif/lib/obs"

	"github.com/ipld/go-ipld-prime/datamodel"

	"verif/lib/fw"
	"verif/lib/graphgen"
	"verif/lib/selgen"
)

// C15 — traversal controls only restrict a walk.
type c15 struct{}

func init() { fw.Register(c15{}) }

func (c15) ID() string { return "C15" }

func (c15) Plan(tier string) fw.Plan {
	p := fw.Plan{
		Batches: 16, Cases: 3000, TimeoutSec: 900, Level: "exploration",
		Rule:        "one case = one (graph of 1–8 linked blocks incl. raw/bytes blocks with shared and repeated links, random selector over all clause kinds) pair whose unrestricted WalkAdv gives the visit sequence U and load sequence L; then metamorphic relations against the implementation's own unrestricted walk, each control on its own: node budget N for EVERY N in 0…|U|+2 (visits = U[:min(N,|U|)], budget error iff N<|U|); link budget M for EVERY M in 0…|L|+1 (loads = L[:min(M,|L|)], visits = the prefix of U before the refused load, budget error iff M<|L|); start-at path = path of U[i] for every i (≤40 per case, sampled beyond; selectors without overlapping union interests): visits = U[i:], loads = the spine loads plus those of L made while visiting U[i:]; visit-links-once: each distinct link loaded at most once and visits = U minus exactly the sub-walks of repeated occurrences; skip sets S (loader answers SkipMe): visits = U minus exactly the sub-walks under links in S, no error, the skipped link is still requested once per occurrence. Non-trivial: |U|≥4 and |L|≥1; distinct by hash of (graph root, selector).",
		Assumptions: []string{"the oracle is the implementation's own unrestricted walk (no hand-written selector semantics involved)", "no preloader (documented as approximate)"},
		MinEvents:   []string{"pairs", "node_budget_walks", "link_budget_walks", "startat_walks", "visitonce_walks", "skip_walks", "pairs_with_repeated_links"},
	}
	if tier == "thorough" {
		p.Batches, p.Cases, p.TimeoutSec = 64, 1000, 3300
	}
	return p
}

func (c15) RunCase(c *fw.Ctx, rng *fw.RNG, batch, i int) {
	gopts := graphgen.Opts{MaxBlocks: 8, MaxDepth: 3, MaxWidth: 4, RawBlocks: true, NumLookalikes: true}
	sopts := selgen.Opts{MaxDepth: 4}
	if deepCase(c, i) {
		gopts.MaxBlocks, gopts.MaxDepth, gopts.MaxWidth, sopts.MaxDepth = 12, 4, 5, 6
	}
	g, root, s, sel, err := travSetup(rng, gopts, sopts)
	if err != nil || sel == nil {
		c.Count("selector_compile_errors", 1)
		c.Seen(0, false)
		return
	}
	c.SetCase(func() any {
		return map[string]any{"selector": s.String(), "root": g.Root.Dump(), "blocks": len(g.Blocks)}
	})
	c.Count("pairs", 1)
	base := travWalk(g, root, sel, travCfg{NodeBudget: -1, LinkBudget: -1})
	if base.Err != nil {
		c.Count("unrestricted_walk_errors:"+errClass(base.Err), 1)
		c.Seen(0, false)
		return
	}
	U, L := base.Visits, base.Loads
	c.Seen(fw.Mix(g.Root.Hash(), fw.HashString(s.String())), len(U) >= 4 && len(L) >= 1)
	c.Max("max_visits_in_a_walk", int64(len(U)))
	if len(U) > 4000 {
		// Only the larger bounds of the thorough tier get here (the quick tier's largest walk has ≈ 1200 visits):
		// every restricted walk below repeats this one with a full read-out at each visit, and a handful of such
		// cases kept a batch busy for a quarter of an hour each. Counted, not judged.
		c.Count("walks_too_large_to_enumerate_restrictions", 1)
		return
	}
	if c.WantSample() && len(U) >= 4 && len(U) < 25 && len(L) >= 1 {
		c.Sample(map[string]any{"selector": s.String(), "root": g.Root.Dump(), "unrestricted_visits": len(U), "loads": len(L)})
	}
	fail := func(sig, detail string) {
		c.Deviate("C15:"+sig, fmt.Sprintf("%s\nselector %s\nunrestricted walk (%d visits, %d loads):\n%s", detail, s.String(), len(U), len(L), visitsDump(U, 25)))
	}
	// determinism of the oracle itself
	again := travWalk(g, root, sel, travCfg{NodeBudget: -1, LinkBudget: -1})
	if ok, why := sameVisits(again.Visits, U); !ok {
		fail("unrestricted-walk-not-deterministic", why)
		return
	}
	// 1. node budgets
	maxN := len(U) + 2
	for n := 0; n <= maxN; n++ {
		if len(U) > 60 && n > 5 && n < len(U)-5 && rng.Intn(len(U)) > 20 {
			continue
		}
		r := travWalk(g, root, sel, travCfg{NodeBudget: int64(n), LinkBudget: -1})
		c.Count("node_budget_walks", 1)
		want := U
		if n < len(U) {
			want = U[:n]
		}
		if ok, why := sameVisits(r.Visits, want); !ok {
			fail("node-budget-changes-visits", fmt.Sprintf("node budget %d: %s", n, why))
		}
		if n < len(U) {
			if !isBudgetErr(r.Err, "node") {
				fail("node-budget-no-error", fmt.Sprintf("node budget %d < %d visits but the walk ended with err=%v", n, len(U), r.Err))
			}
		} else if r.Err != nil {
			fail("node-budget-spurious-error", fmt.Sprintf("node budget %d suffices for %d visits but the walk ended with %v", n, len(U), r.Err))
		}
	}
	// 1b. the local walk (WalkLocal: every node of the in-memory tree, links not followed) under node budgets,
	// against an enumeration of the tree's positions made by the harness; and a visit callback answering SkipMe,
	// which removes exactly the subtree below that visit
	c15Local(c, rng, g, root, fail)
	// 1c. the transforming walk with visit-links-once: no link is loaded twice
	{
		lsys, _ := g.LinkSystem()
		var run travRun
		lsys.StorageReadOpener = wrapOpener(lsys.StorageReadOpener, &run, nil)
		cfg := &traversal.Config{LinkSystem: lsys, LinkVisitOnlyOnce: true}
		var terr error
		if !c.Guard("C15:WalkTransforming", func() {
			_, terr = traversal.Progress{Cfg: cfg}.WalkTransforming(root, sel, func(_ traversal.Progress, n datamodel.Node) (datamodel.Node, error) { return n, nil })
		}) && terr == nil {
			c.Count("visitonce_transform_walks", 1)
			cnt := map[string]int{}
			for _, l := range run.Loads {
				cnt[l.Link]++
				if cnt[l.Link] == 2 {
					fail("visitonce-loads-twice:WalkTransforming", fmt.Sprintf("WalkTransforming with visit-links-once: link …%x loaded twice", tail4(l.Link)))
				}
			}
		}
	}
	// 1d. the transforming walk under link budgets, against its own unrestricted load sequence: a budget of M
	// lets it make exactly its first M loads and then end with a link-budget error; a sufficient one changes
	// nothing (round-4 seed C15-12: the budget charged in a function the transforming walk does not go through)
	{
		tload := func(m int64) ([]travLoad, error) {
			lsys, _ := g.LinkSystem()
			var run travRun
			lsys.StorageReadOpener = wrapOpener(lsys.StorageReadOpener, &run, nil)
			cfg := &traversal.Config{LinkSystem: lsys, LinkTargetNodePrototypeChooser: func(datamodel.Link, linking.LinkContext) (datamodel.NodePrototype, error) {
				return basicnode.Prototype.Any, nil
			}}
			prog := traversal.Progress{Cfg: cfg}
			if m >= 0 {
				prog.Budget = &traversal.Budget{NodeBudget: 1 << 40, LinkBudget: m}
			}
			var terr error
			if c.Guard("C15:WalkTransforming", func() {
				_, terr = prog.WalkTransforming(root, sel, func(_ traversal.Progress, n datamodel.Node) (datamodel.Node, error) { return n, nil })
			}) {
				return nil, fmt.Errorf("panic")
			}
			return run.Loads, terr
		}
		if Lt, err := tload(-1); err == nil {
			for m := 0; m <= len(Lt)+1; m++ {
				if len(Lt) > 12 && m > 3 && m < len(Lt)-2 && rng.Intn(len(Lt)) > 6 {
					continue
				}
				got, err := tload(int64(m))
				c.Count("transform_link_budget_walks", 1)
				want := Lt
				if m < len(Lt) {
					want = Lt[:m]
				}
				if ok, why := sameLoads(got, want); !ok {
					fail("link-budget-changes-loads:WalkTransforming", fmt.Sprintf("WalkTransforming, link budget %d (unrestricted: %d loads): %s", m, len(Lt), why))
				}
				if m < len(Lt) && !isBudgetErr(err, "link") {
					fail("link-budget-no-error:WalkTransforming", fmt.Sprintf("WalkTransforming, link budget %d < %d loads but the walk ended with err=%v", m, len(Lt), err))
				} else if m >= len(Lt) && err != nil {
					fail("link-budget-spurious-error:WalkTransforming", fmt.Sprintf("WalkTransforming, link budget %d suffices for %d loads but the walk ended with %v", m, len(Lt), err))
				}
			}
		}
	}
	// 2. link budgets
	for m := 0; m <= len(L)+1; m++ {
		r := travWalk(g, root, sel, travCfg{NodeBudget: -1, LinkBudget: int64(m)})
		c.Count("link_budget_walks", 1)
		wantL := L
		if m < len(L) {
			wantL = L[:m]
		}
		if ok, why := sameLoads(r.Loads, wantL); !ok {
			fail("link-budget-changes-loads", fmt.Sprintf("link budget %d: %s", m, why))
		}
		if m < len(L) {
			if !isBudgetErr(r.Err, "link") {
				fail("link-budget-no-error", fmt.Sprintf("link budget %d < %d loads but the walk ended with err=%v", m, len(L), r.Err))
			}
			// visits: the prefix of U before the refused load (= everything visited before the block at L[m].Path)
			cut := len(U)
			for k, v := range U {
				if v.Path == L[m].Path && visitIsBlockRoot(U, L, k, m) {
					cut = k
					break
				}
			}
			if ok, why := sameVisits(r.Visits, U[:cut]); !ok {
				fail("link-budget-changes-visits", fmt.Sprintf("link budget %d: %s", m, why))
			}
		} else {
			if r.Err != nil {
				fail("link-budget-spurious-error", fmt.Sprintf("link budget %d suffices for %d loads but the walk ended with %v", m, len(L), r.Err))
			}
			if ok, why := sameVisits(r.Visits, U); !ok {
				fail("link-budget-changes-visits", fmt.Sprintf("link budget %d: %s", m, why))
			}
		}
	}
	// 3. start-at
	dupPath := false
	seenP := map[string]bool{}
	for _, v := range U {
		if seenP[v.Path] {
			dupPath = true
		}
		seenP[v.Path] = true
	}
	if !selgen.HasOverlap(s) && !dupPath {
		for k := range U {
			if len(U) > 40 && rng.Intn(len(U)) >= 40 {
				continue
			}
			if len(U[k].Segs) == 0 {
				continue // the empty path means "no start-at"
			}
			hasOdd := false
			var segs []datamodel.PathSegment
			for _, sgm := range U[k].Segs {
				segs = append(segs, datamodel.PathSegmentOfString(sgm))
				_ = hasOdd
			}
			p := datamodel.NewPath(segs)
			r := travWalk(g, root, sel, travCfg{NodeBudget: -1, LinkBudget: -1, StartAt: &p})
			c.Count("startat_walks", 1)
			if r.Err != nil {
				fail("startat-error", fmt.Sprintf("start-at <%s>: walk ended with %v", U[k].Path, r.Err))
				continue
			}
			if ok, why := sameVisits(r.Visits, U[k:]); !ok {
				fail("startat-changes-visits", fmt.Sprintf("start-at <%s> (visit #%d): %s", U[k].Path, k, why))
			}
			// loads: spine (links on proper prefixes of the start path and at it) + loads whose path is not wholly before
			var wantL []travLoad
			for _, l := range L {
				lsegs := pathSegsOf(l.Path, U)
				if segsPrefix(lsegs, U[k].Segs) || loadBelongsToTail(l, U, k) {
					wantL = append(wantL, l)
				}
			}
			if ok, why := sameLoads(r.Loads, wantL); !ok {
				fail("startat-changes-loads", fmt.Sprintf("start-at <%s> (visit #%d): %s", U[k].Path, k, why))
			}
		}
	}
	if dupPath {
		// the same path visited twice makes "the sub-walk under a path" ambiguous; C07 decides those walks
		c.Count("pairs_with_duplicate_paths_skipped_for_relations_3_to_5", 1)
		return
	}
	// 4. visit links once
	{
		r := travWalk(g, root, sel, travCfg{NodeBudget: -1, LinkBudget: -1, VisitOnce: true})
		c.Count("visitonce_walks", 1)
		seen := map[string]bool{}
		var removed [][]string
		var wantL []travLoad
		repeated := false
		for _, l := range L {
			ls := pathSegsOf(l.Path, U)
			inside := false
			for _, rp := range removed {
				if segsPrefix(rp, ls) {
					inside = true
				}
			}
			if inside {
				continue
			}
			if seen[l.Link] {
				removed = append(removed, ls)
				repeated = true
				continue
			}
			seen[l.Link] = true
			wantL = append(wantL, l)
		}
		if repeated {
			c.Count("pairs_with_repeated_links", 1)
		}
		var wantU []travVisit
		for _, v := range U {
			drop := false
			for _, rp := range removed {
				if segsPrefix(rp, v.Segs) {
					drop = true
				}
			}
			if !drop {
				wantU = append(wantU, v)
			}
		}
		if r.Err != nil {
			fail("visitonce-error", fmt.Sprintf("visit-links-once: walk ended with %v", r.Err))
		} else {
			if ok, why := sameLoads(r.Loads, wantL); !ok {
				fail("visitonce-changes-loads", "visit-links-once: "+why)
			}
			if ok, why := sameVisits(r.Visits, wantU); !ok {
				fail("visitonce-changes-visits", "visit-links-once: "+why)
			}
			cnt := map[string]int{}
			for _, l := range r.Loads {
				cnt[l.Link]++
				if cnt[l.Link] > 1 {
					fail("visitonce-loads-twice", fmt.Sprintf("visit-links-once: link …%x loaded %d times", tail4(l.Link), cnt[l.Link]))
				}
			}
		}
	}
	// 5. skip sets
	if len(L) > 0 {
		for t := 0; t < 3; t++ {
			skip := map[string]bool{}
			for _, l := range L {
				if rng.Chance(1, 3) {
					skip[l.Link] = true
				}
			}
			if len(skip) == 0 {
				skip[L[rng.Intn(len(L))].Link] = true
			}
			r := travWalk(g, root, sel, travCfg{NodeBudget: -1, LinkBudget: -1, Skip: skip})
			c.Count("skip_walks", 1)
			var removed [][]string
			var wantL []travLoad
			for _, l := range L {
				ls := pathSegsOf(l.Path, U)
				inside := false
				for _, rp := range removed {
					if segsPrefix(rp, ls) {
						inside = true
					}
				}
				if inside {
					continue
				}
				wantL = append(wantL, l)
				if skip[l.Link] {
					removed = append(removed, ls)
				}
			}
			var wantU []travVisit
			for _, v := range U {
				drop := false
				for _, rp := range removed {
					if segsPrefix(rp, v.Segs) {
						drop = true
					}
				}
				if !drop {
					wantU = append(wantU, v)
				}
			}
			if r.Err != nil {
				fail("skip-error", fmt.Sprintf("loader skipping %d link(s): walk ended with %v", len(skip), r.Err))
				continue
			}
			if ok, why := sameLoads(r.Loads, wantL); !ok {
				fail("skip-changes-loads", "skip set: "+why)
			}
			if ok, why := sameVisits(r.Visits, wantU); !ok {
				fail("skip-changes-visits", "skip set: "+why)
			}
		}
	}
}

// pathSegsOf recovers the segment list of a load's path from the visit at the same path
// (paths are recorded as strings; segments may contain '/').
func pathSegsOf(path string, U []travVisit) []string {
	for _, v := range U {
		if v.Path == path {
			return v.Segs
		}
	}
	if path == "" {
		return nil
	}
	return splitPath(path)
}

func splitPath(p string) []string {
	var out []string
	cur := ""
	for i := 0; i < len(p); i++ {
		if p[i] == '/' {
			out = append(out, cur)
			cur = ""
		} else {
			cur += string(p[i])
		}
	}
	return append(out, cur)
}

// visitIsBlockRoot: U[k] is the visit of the root of the block loaded by L[m] (the m-th load);
// the k-th visit with that path whose occurrence order matches.
func visitIsBlockRoot(U []travVisit, L []travLoad, k, m int) bool {
	// count earlier loads with the same path
	occ := 0
	for j := 0; j < m; j++ {
		if L[j].Path == L[m].Path {
			occ++
		}
	}
	seen := 0
	for j := 0; j < k; j++ {
		if U[j].Path == U[k].Path {
			seen++
		}
	}
	return seen == occ
}

// loadBelongsToTail: the load happened while visiting U[k:] (its block root is visited at or after k).
func loadBelongsToTail(l travLoad, U []travVisit, k int) bool {
	for j := k; j < len(U); j++ {
		if U[j].Path == l.Path {
			return true
		}
	}
	return false
}

// c15Local: WalkLocal against the harness's own enumeration, under every node budget, and with SkipMe from the callback.
func c15Local(c *fw.Ctx, rng *fw.RNG, g *graphgen.Graph, root datamodel.Node, fail func(sig, detail string)) {
	type pos struct {
		path string
		segs []string
		val  model.Val
	}
	var want []pos
	var enum func(v model.Val, segs []string)
	enum = func(v model.Val, segs []string) {
		want = append(want, pos{strings.Join(segs, "/"), segs, v})
		switch v.K {
		case model.KMap:
			for _, e := range v.M {
				enum(e.V, append(append([]string(nil), segs...), e.K))
			}
		case model.KList:
			for i, x := range v.L {
				enum(x, append(append([]string(nil), segs...), fmt.Sprint(i)))
			}
		}
	}
	enum(g.Root, nil)
	type lv struct {
		segs []string
		val  model.Val
	}
	walk := func(budget int64, skipAt int) ([]lv, error) {
		var out []lv
		prog := traversal.Progress{}
		if budget >= 0 {
			prog.Budget = &traversal.Budget{NodeBudget: budget, LinkBudget: 1 << 30}
		}
		var err error
		c.Guard("C15:WalkLocal", func() {
			err = prog.WalkLocal(root, func(p traversal.Progress, n datamodel.Node) error {
				out = append(out, lv{pathSegs(p.Path), obs.ReadOut(n, obs.Options{Light: true}).Val})
				if len(out)-1 == skipAt {
					return traversal.SkipMe{}
				}
				return nil
			})
		})
		return out, err
	}
	same := func(got []lv, exp []pos) (bool, string) {
		for i := 0; i < len(got) || i < len(exp); i++ {
			if i >= len(got) {
				return false, fmt.Sprintf("visit #%d <%s> missing", i, exp[i].path)
			}
			if i >= len(exp) {
				return false, fmt.Sprintf("unexpected extra visit #%d <%s>", i, strings.Join(got[i].segs, "/"))
			}
			if strings.Join(got[i].segs, "\x00") != strings.Join(exp[i].segs, "\x00") || !model.Equal(got[i].val, exp[i].val) {
				return false, fmt.Sprintf("visit #%d is <%s> %s, expected <%s> %s", i, strings.Join(got[i].segs, "/"), clipS(got[i].val.Dump(), 60), exp[i].path, clipS(exp[i].val.Dump(), 60))
			}
		}
		return true, ""
	}
	full, err := walk(-1, -1)
	c.Count("local_walks", 1)
	if err != nil {
		fail("local-walk-error", fmt.Sprintf("WalkLocal ended with %v", err))
		return
	}
	if ok, why := same(full, want); !ok {
		fail("local-walk-differs-from-enumeration", "WalkLocal vs the tree's positions in document order: "+why)
		return
	}
	for n := 0; n <= len(want)+1; n++ {
		if len(want) > 40 && n > 4 && n < len(want)-4 && rng.Intn(len(want)) > 12 {
			continue
		}
		got, err := walk(int64(n), -1)
		c.Count("local_budget_walks", 1)
		exp := want
		if n < len(want) {
			exp = want[:n]
		}
		if ok, why := same(got, exp); !ok {
			fail("node-budget-changes-visits:WalkLocal", fmt.Sprintf("WalkLocal, node budget %d: %s", n, why))
		}
		if n < len(want) && !isBudgetErr(err, "node") {
			fail("node-budget-no-error:WalkLocal", fmt.Sprintf("WalkLocal, node budget %d < %d visits but the walk ended with err=%v", n, len(want), err))
		} else if n >= len(want) && err != nil {
			fail("node-budget-spurious-error:WalkLocal", fmt.Sprintf("WalkLocal, node budget %d suffices for %d visits but the walk ended with %v", n, len(want), err))
		}
	}
	for t := 0; t < 3 && len(want) > 1; t++ {
		k := rng.Intn(len(want))
		got, err := walk(-1, k)
		c.Count("local_skipme_walks", 1)
		var exp []pos
		for i, p := range want {
			if i != k && len(p.segs) > len(want[k].segs) && segsPrefix(want[k].segs, p.segs) {
				continue
			}
			exp = append(exp, p)
		}
		if err != nil {
			fail("skipme-error:WalkLocal", fmt.Sprintf("WalkLocal with SkipMe answered at visit #%d: walk ended with %v", k, err))
		} else if ok, why := same(got, exp); !ok {
			fail("skipme-changes-visits:WalkLocal", fmt.Sprintf("WalkLocal with SkipMe answered at visit #%d <%s>: %s", k, want[k].path, why))
		}
	}
}
