package props

import (
	"fmt"
	"strconv"
	"strings"
	"verif/lib/schemagen"
	"verif/lib/typedmon"

	cid "github.com/ipfs/go-cid"
	"github.com/ipld/go-ipld-prime/datamodel"
	"github.com/ipld/go-ipld-prime/linking"
	cidlink "github.com/ipld/go-ipld-prime/linking/cid"
	"github.com/ipld/go-ipld-prime/node/basicnode"
	"github.com/ipld/go-ipld-prime/traversal"

	"verif/lib/fw"
	"verif/lib/graphgen"
	"verif/lib/model"
	"verif/lib/obs"
	"verif/lib/selgen"
)

// C14 — paths address what was visited.
type c14 struct{}

func init() { fw.Register(c14{}) }

func (c14) ID() string { return "C14" }

func (c14) Plan(tier string) fw.Plan {
	p := fw.Plan{
		Batches: 16, Cases: 2500, TimeoutSec: 900, Level: "exploration",
		Rule:        "one case = one graph of 1–8 linked blocks (keys incl. \"\", \"a/b\", \".\", \"..\", \"-1\", \"+1\", \"00\"; some links to missing blocks). (a) during an explore-all recursive walk and a random-selector walk every visit (P,N) is resolved from the root by Progress.Get, by Focus and by a harness-side stepwise descent (LookupBySegment one segment at a time, links loaded through the same link system); all must succeed and read out as N, and P is kept and resolved again after the walk has ended; (b) every position of the graph is enumerated from the nodes' own keys and indices (string- and int-built segments) and resolved the same three ways against a reference resolver over the abstract graph; (c) partially existing paths (valid prefix + missing key, index = length, negative and non-numeric segments on lists, one segment past a scalar, through a missing block) must fail exactly when the reference says so, with an error, never a panic; (d) for every path whose segments are non-empty and slash-free, ParsePath(p.String()) must give the same segments. Non-trivial: graph with ≥1 link and ≥6 positions; distinct by root hash.",
		Assumptions: []string{"reference resolver internal to this file: maps by key, lists by strconv base-10 index, links dereferenced after each step (as Get documents), nothing below scalars"},
		MinEvents:   []string{"graphs", "visits_resolved", "positions_enumerated", "error_paths_checked", "string_roundtrips", "kept_paths_rechecked", "resolutions_through_links"},
	}
	if tier == "thorough" {
		p.Batches, p.Cases, p.TimeoutSec = 64, 2000, 3300
	}
	return p
}

// c14Resolve is the reference resolver. through counts link dereferences.
func c14Resolve(g *graphgen.Graph, root model.Val, segs []string) (v model.Val, ok bool, through int) {
	cur := root
	for _, s := range segs {
		switch cur.K {
		case model.KMap:
			x, found := cur.Lookup(s)
			if !found {
				return model.Val{}, false, through
			}
			cur = x
		case model.KList:
			i, err := strconv.ParseInt(s, 10, 64)
			if err != nil || i < 0 || i >= int64(len(cur.L)) {
				return model.Val{}, false, through
			}
			cur = cur.L[i]
		default:
			return model.Val{}, false, through
		}
		for cur.K == model.KLink {
			b, present := g.Vals[cur.S]
			if !present {
				return model.Val{}, false, through
			}
			cur = b
			through++
		}
	}
	return cur, true, through
}

// c14Typed: paths through TYPED nodes. A bindnode node of a random type system (inferred or user-supplied Go
// types; renames that collide with other fields' names among them) is walked at representation level and at
// type level with the explore-all selector and with WalkLocal; every visited (path, node) must resolve from the
// root by Get, by Focus and by stepwise LookupBySegment to a node that reads the same. (Round-4 seed C14-11: a
// representation lookup that refuses a key its own iterator lists — C08 and C01 catch it as a lookup/iterator
// disagreement; here it shows as a walk-reported path that does not resolve.)
func c14Typed(c *fw.Ctx, rng *fw.RNG) {
	ts := schemagen.Gen(rng, schemagen.Opts{Types: 4 + rng.Intn(5)})
	lib, err := schemagen.ToLibrary(ts)
	if err != nil {
		return
	}
	eng := newBindEngine(lib)
	if rng.Bool() {
		eng = newShapedBindEngine(lib, ts, rng)
	}
	for _, t := range ts.Types {
		if t.Name[0] != 'T' || (t.Kind != "struct" && t.Kind != "map" && t.Kind != "list" && t.Kind != "union") {
			continue
		}
		typed, _ := eng.Proto(t.Name)
		if typed == nil {
			continue
		}
		tv := schemagen.GenValue(rng, ts, t, 0)
		var o typedmon.Outcome
		if typedmon.HasComplexKeys(ts, t) {
			o = typedmon.FeedTyped(typed, ts, t, ts.TypeInput(t, tv))
		} else {
			o = typedmon.Feed(typed, ts.TypeInput(t, tv))
		}
		if !o.Accepted {
			continue
		}
		for _, lvl := range []string{"representation", "type-level"} {
			root := o.Node
			if lvl == "representation" {
				if _, err := ts.ReprOf(t, tv); err != nil {
					continue
				}
				root = typedmon.Repr(o.Node)
			} else if typedmon.HasComplexKeys(ts, t) {
				continue // a struct key has no path segment
			}
			c.SetCase(func() any {
				return map[string]any{"family": "typed " + lvl, "type_system": schemagen.Describe(ts), "type": t.Name, "engine": eng.Name(), "value": tv.Dump()}
			})
			readT := func(n datamodel.Node) model.Val {
				return obs.ReadOut(n, obs.Options{Light: true, Typed: true, NoWrongKindProbes: true}).Val
			}
			check := func(how string, p datamodel.Path, n datamodel.Node) {
				if n.IsAbsent() || n.Kind() == datamodel.Kind_Link {
					return // an absent optional field is iterated at type level and is not a position; resolving a path loads a link it ends at
				}
				want := readT(n)
				c.Count("typed_visits_resolved", 1)
				var got datamodel.Node
				var gerr error
				if c.Guard("C14:typed:Get", func() { got, gerr = traversal.Get(root, p) }) {
					return
				}
				if gerr != nil {
					c.Deviate("C14:typed:visited-path-does-not-resolve:"+lvl, fmt.Sprintf("%s of a %s %s node (%s) visited <%s> = %s, Get of that path fails: %v", how, eng.Name(), t.Kind, lvl, p.String(), clipS(want.Dump(), 200), gerr))
					return
				}
				if v := readT(got); !model.Equal(v, want) {
					c.Deviate("C14:typed:path-addresses-other-node:"+lvl, fmt.Sprintf("%s visited <%s> = %s, Get returns %s", how, p.String(), clipS(want.Dump(), 200), clipS(v.Dump(), 200)))
				}
				cur := root
				for _, seg := range p.Segments() {
					next, err := cur.LookupBySegment(seg)
					if err != nil {
						c.Deviate("C14:typed:visited-path-does-not-resolve:stepwise:"+lvl, fmt.Sprintf("%s visited <%s>, LookupBySegment(%q) on the way fails: %v", how, p.String(), seg.String(), err))
						return
					}
					cur = next
				}
			}
			c.Guard("C14:typed:WalkAdv", func() {
				traversal.WalkAdv(root, c11ExploreAllSel(), func(pg traversal.Progress, n datamodel.Node, _ traversal.VisitReason) error {
					check("the explore-all walk", pg.Path, n)
					return nil
				})
			})
			c.Guard("C14:typed:WalkLocal", func() {
				traversal.WalkLocal(root, func(pg traversal.Progress, n datamodel.Node) error {
					check("WalkLocal", pg.Path, n)
					return nil
				})
			})
		}
	}
}

func (c14) RunCase(c *fw.Ctx, rng *fw.RNG, batch, i int) {
	if i%25 == 11 {
		c14Typed(c, rng)
		return
	}
	gopts := graphgen.Opts{MaxBlocks: 8, MaxDepth: 3, MaxWidth: 4, RawBlocks: true, OddKeys: true, NumLookalikes: true, Missing: 1}
	sopts := selgen.Opts{MaxDepth: 4, NoSubset: true}
	if deepCase(c, i) {
		gopts.MaxBlocks, gopts.MaxDepth, gopts.MaxWidth, sopts.MaxDepth = 14, 4, 6, 6
	}
	g, root, s, sel, err := travSetup(rng, gopts, sopts)
	if err != nil || root == nil {
		c.Seen(0, false)
		return
	}
	c.Count("graphs", 1)
	var curPath string
	c.SetCase(func() any { return map[string]any{"root": g.Root.Dump(), "selector": s.String(), "path": curPath} })
	lsys, _ := g.LinkSystem()
	cfg := &traversal.Config{LinkSystem: lsys, LinkTargetNodePrototypeChooser: func(datamodel.Link, linking.LinkContext) (datamodel.NodePrototype, error) {
		return basicnode.Prototype.Any, nil
	}}
	val := func(n datamodel.Node) model.Val { return obs.ReadOut(n, obs.Options{Light: true}).Val }

	// the three resolution forms; each returns (value, error)
	type res struct {
		v   model.Val
		err error
	}
	resolve := func(p datamodel.Path) [3]res {
		var out [3]res
		c.Guard("C14:Get", func() {
			n, err := traversal.Progress{Cfg: cfg}.Get(root, p)
			out[0].err = err
			if err == nil {
				out[0].v = val(n)
			}
		})
		c.Guard("C14:Focus", func() {
			called := false
			err := traversal.Progress{Cfg: cfg}.Focus(root, p, func(pg traversal.Progress, n datamodel.Node) error {
				called = true
				out[1].v = val(n)
				if pg.Path.String() != p.String() {
					c.Deviate("C14:focus-progress-path", fmt.Sprintf("Focus at <%s> reports Progress.Path <%s>", p.String(), pg.Path.String()))
				}
				return nil
			})
			out[1].err = err
			if err == nil && !called {
				out[1].err = fmt.Errorf("Focus returned nil without calling the function")
			}
		})
		c.Guard("C14:stepwise", func() {
			cur := root
			for _, seg := range p.Segments() {
				next, err := cur.LookupBySegment(seg)
				if err != nil {
					out[2].err = err
					return
				}
				cur = next
				for cur.Kind() == datamodel.Kind_Link {
					l, _ := cur.AsLink()
					loaded, err := lsys.Load(linking.LinkContext{}, l, basicnode.Prototype.Any)
					if err != nil {
						out[2].err = err
						return
					}
					cur = loaded
				}
			}
			out[2].v = val(cur)
		})
		return out
	}
	names := [3]string{"Get", "Focus", "stepwise LookupBySegment"}
	// agree checks the three forms against an expected outcome
	agree := func(p datamodel.Path, wantV model.Val, wantOK bool, ctx string) {
		curPath = p.String()
		rs := resolve(p)
		for k, r := range rs {
			switch {
			case wantOK && r.err != nil:
				c.Deviate("C14:existing-path-fails:"+names[k], fmt.Sprintf("%s: %s of <%s> failed: %v (the position exists and holds %s)", ctx, names[k], p.String(), r.err, clipS(wantV.Dump(), 200)))
			case wantOK && !model.Equal(r.v, wantV):
				c.Deviate("C14:path-addresses-other-node:"+names[k], fmt.Sprintf("%s: %s of <%s> returned %s, expected %s", ctx, names[k], p.String(), clipS(r.v.Dump(), 200), clipS(wantV.Dump(), 200)))
			case !wantOK && r.err == nil:
				c.Deviate("C14:missing-path-resolves:"+names[k], fmt.Sprintf("%s: %s of <%s> returned %s although some segment does not exist", ctx, names[k], p.String(), clipS(r.v.Dump(), 200)))
			}
		}
	}

	// (a) walks
	type kept struct {
		p datamodel.Path
		s string
		v model.Val
	}
	var keep []kept
	for _, sl := range []struct {
		name string
		run  travRun
	}{{"explore-all walk", travWalkWith(g, root, c11ExploreAllSel(), cfg)}, {"random-selector walk", travWalkWith(g, root, sel, cfg)}} {
		for _, v := range sl.run.Visits {
			segs := make([]datamodel.PathSegment, len(v.Segs))
			for k, sg := range v.Segs {
				segs[k] = datamodel.PathSegmentOfString(sg)
			}
			p := datamodel.NewPath(segs)
			if v.Reason == traversal.VisitReason_SelectionMatch || true {
				agree(v.P, v.Val, true, sl.name+" visit")
				c.Count("visits_resolved", 1)
				rv, ok, through := c14Resolve(g, g.Root, v.Segs)
				if through > 0 {
					c.Count("resolutions_through_links", 1)
				}
				if !ok || !model.Equal(rv, v.Val) {
					c.Deviate("C14:visit-path-vs-reference", fmt.Sprintf("%s visited <%s> = %s but the reference resolver finds ok=%v %s there", sl.name, v.Path, clipS(v.Val.Dump(), 200), ok, clipS(rv.Dump(), 200)))
				}
			}
			keep = append(keep, kept{v.P, v.Path, v.Val})
			_ = p
		}
	}
	// the local walk (WalkLocal: the in-memory tree, links not followed) reports paths too; a visit whose node is
	// a link is left out, because resolving a path loads a link it ends at
	{
		var lerr error
		c.Guard("C14:WalkLocal", func() {
			lerr = traversal.Progress{Cfg: cfg}.WalkLocal(root, func(pg traversal.Progress, n datamodel.Node) error {
				if n.Kind() == datamodel.Kind_Link {
					return nil
				}
				v := val(n)
				agree(pg.Path, v, true, "WalkLocal visit")
				c.Count("local_visits_resolved", 1)
				keep = append(keep, kept{pg.Path, pg.Path.String(), v})
				return nil
			})
		})
		if lerr != nil {
			c.Deviate("C14:local-walk-error", fmt.Sprintf("WalkLocal ended with %v", lerr))
		}
	}
	// paths kept from the visits still mean the same after the walk
	for _, k := range keep {
		c.Count("kept_paths_rechecked", 1)
		if k.p.String() != k.s {
			c.Deviate("C14:kept-path-changed", fmt.Sprintf("a Progress.Path kept from a visit read <%s> during the visit and <%s> after the walk", k.s, k.p.String()))
			continue
		}
		agree(k.p, k.v, true, "path kept from a visit, resolved after the walk")
	}
	// (b) every position, (d) string round trip
	positions := 0
	var walkAll func(v model.Val, segs []string, psegs []datamodel.PathSegment, depth int)
	walkAll = func(v model.Val, segs []string, psegs []datamodel.PathSegment, depth int) {
		for v.K == model.KLink {
			b, ok := g.Vals[v.S]
			if !ok {
				return
			}
			v = b
		}
		if positions > 400 || depth > 12 {
			return
		}
		positions++
		p := datamodel.NewPath(append([]datamodel.PathSegment(nil), psegs...))
		if len(segs) > 0 {
			agree(p, v, true, "enumerated position")
			c.Count("positions_enumerated", 1)
			clean := true
			for _, sg := range segs {
				if sg == "" || strings.Contains(sg, "/") {
					clean = false
				}
			}
			if positions%7 == 0 {
				c14PathAlgebra(c, p, segs)
			}
			if clean {
				c.Count("string_roundtrips", 1)
				var back []string
				c.Guard("C14:ParsePath", func() { back = pathSegs(datamodel.ParsePath(p.String())) })
				if strings.Join(back, "\x00") != strings.Join(segs, "\x00") || len(back) != len(segs) {
					c.Deviate("C14:string-roundtrip", fmt.Sprintf("path with segments %q formats as %q and parses back as %q", segs, p.String(), back))
				}
			}
		}
		switch v.K {
		case model.KMap:
			for _, e := range v.M {
				walkAll(e.V, append(append([]string(nil), segs...), e.K), append(append([]datamodel.PathSegment(nil), psegs...), datamodel.PathSegmentOfString(e.K)), depth+1)
			}
		case model.KList:
			for idx, x := range v.L {
				seg := datamodel.PathSegmentOfInt(int64(idx))
				if rng.Bool() {
					seg = datamodel.PathSegmentOfString(strconv.Itoa(idx))
				}
				walkAll(x, append(append([]string(nil), segs...), strconv.Itoa(idx)), append(append([]datamodel.PathSegment(nil), psegs...), seg), depth+1)
			}
		}
	}
	walkAll(g.Root, nil, nil, 0)
	// (c) error side: perturb existing positions
	for t := 0; t < 25 && len(keep) > 0; t++ {
		base := keep[rng.Intn(len(keep))]
		segs := pathSegs(base.p)
		bad := []string{"nokey", strconv.Itoa(len(base.v.L)), "-1", "x", "", "0", "1", "00", "+0", "9999999999999999999", "-"}[rng.Intn(11)]
		if rng.Chance(1, 3) {
			// near-numeric segments: digits with one foreign byte below '0', above '9' or outside ASCII, in front,
			// inside or behind; other spellings of numbers; numbers at the int64 edge (round-3 seed C14-8: a
			// hand-rolled digit loop that folds bytes below '0' in as negative digits)
			d := strconv.Itoa(rng.Intn(3))
			f := []string{" ", "&", "'", ".", ",", "-", "+", "$", "%", "/"[:0] + "!", "*", ":", ";", "a", "e", "x", "_", "\x00", "\x7f", "\x80", "\xff", "\u0661", "\uff11"}[rng.Intn(23)]
			switch rng.Intn(8) {
			case 0:
				bad = d + f
			case 1:
				bad = f + d
			case 2:
				bad = d + f + d
			case 3:
				bad = d + f + f
			case 4:
				bad = []string{"1e0", "0x1", "0b1", "0o1", "1.0", "1_0", "١", "１", "²", "0 ", " 0", "\t0", "0\n", "--1", "++1", "+-1"}[rng.Intn(16)]
			case 5:
				bad = []string{"9223372036854775807", "9223372036854775808", "-9223372036854775808", "18446744073709551615", "18446744073709551616", "4294967296", "4294967297", "-0", "+1", "01", "001", "0000000000000000000000001"}[rng.Intn(12)]
			case 6:
				bad = d + strings.Repeat(f, 1+rng.Intn(16))
			default:
				bad = strings.Repeat(d, 1+rng.Intn(17)) + f
			}
		}
		if rng.Chance(1, 4) && len(segs) > 0 {
			segs = segs[:rng.Intn(len(segs))]
		}
		segs = append(append([]string(nil), segs...), bad)
		if rng.Chance(1, 3) {
			segs = append(segs, "deeper")
		}
		ps := make([]datamodel.PathSegment, len(segs))
		for k, sg := range segs {
			ps[k] = datamodel.PathSegmentOfString(sg)
		}
		wantV, wantOK, _ := c14Resolve(g, g.Root, segs)
		agree(datamodel.NewPath(ps), wantV, wantOK, "perturbed path")
		c.Count("error_paths_checked", 1)
		if !wantOK {
			c.Count("error_paths_expected_to_fail", 1)
		}
	}
	nlinks := 0
	g.Root.Walk(func(x model.Val) {
		if x.K == model.KLink {
			nlinks++
		}
	})
	c.Seen(g.Root.Hash(), nlinks >= 1 && positions >= 6)
	if c.WantSample() && positions >= 6 && positions < 30 {
		c.Sample(map[string]any{"root": g.Root.Dump(), "positions": positions, "selector": s.String()})
	}
	_ = cid.Undef
	_ = cidlink.Link{}
}

// c14PathAlgebra: the Path helpers a caller combines walk-reported paths with (Parent, Pop, Truncate, Last,
// Shift, Join, AppendSegment) are list operations on the segments, and none of them changes the path it was
// called on. (A surviving mechanical mutant made Parent return the path itself.)
func c14PathAlgebra(c *fw.Ctx, p datamodel.Path, segs []string) {
	c.Guard("C14:path-helpers", func() {
		c.Count("path_algebra_checks", 1)
		n := len(segs)
		same := func(what string, got datamodel.Path, want []string) {
			g := pathSegs(got)
			if len(g) != len(want) || strings.Join(g, "\x00") != strings.Join(want, "\x00") {
				c.Deviate("C14:path-helper:"+what, fmt.Sprintf("Path%q.%s has segments %q, expected %q", segs, what, g, want))
			}
		}
		if p.Len() != n {
			c.Deviate("C14:path-helper:Len", fmt.Sprintf("Path%q.Len() = %d", segs, p.Len()))
		}
		same("Parent()", p.Parent(), segs[:n-1])
		same("Pop()", p.Pop(), segs[:n-1])
		for i := 0; i <= n; i++ {
			same(fmt.Sprintf("Truncate(%d)", i), p.Truncate(i), segs[:i])
		}
		if l := p.Last().String(); l != segs[n-1] {
			c.Deviate("C14:path-helper:Last()", fmt.Sprintf("Path%q.Last() = %q", segs, l))
		}
		first, rest := p.Shift()
		if first.String() != segs[0] {
			c.Deviate("C14:path-helper:Shift()", fmt.Sprintf("Path%q.Shift() yields first segment %q", segs, first.String()))
		}
		same("Shift() remainder", rest, segs[1:])
		same("Join(self)", p.Join(p), append(append([]string(nil), segs...), segs...))
		same("Parent().Join(Truncate(1))", p.Parent().Join(p.Truncate(1)), append(append([]string(nil), segs[:n-1]...), segs[0]))
		a1 := p.Parent().AppendSegmentString("x-sibling")
		a2 := p.Parent().AppendSegmentString("y-sibling")
		same("Parent().AppendSegmentString(x)", a1, append(append([]string(nil), segs[:n-1]...), "x-sibling"))
		same("Parent().AppendSegmentString(y)", a2, append(append([]string(nil), segs[:n-1]...), "y-sibling"))
		same("AppendSegmentInt(7)", p.AppendSegmentInt(7), append(append([]string(nil), segs...), "7"))
		e := datamodel.Path{}
		same("EmptyPath.Parent()", e.Parent(), nil)
		same("EmptyPath.Pop()", e.Pop(), nil)
		same("EmptyPath.Join(p)", e.Join(p), segs)
		// the path itself is what it was
		same("(the path after the helpers were used)", p, segs)
	})
}
