package props

import (
	"bytes"
	"crypto/sha256"
	"errors"
	"fmt"
	"io"
	"strconv"
	"strings"

	cid "github.com/ipfs/go-cid"
	"github.com/ipld/go-ipld-prime/datamodel"
	"github.com/ipld/go-ipld-prime/linking"
	cidlink "github.com/ipld/go-ipld-prime/linking/cid"
	"github.com/ipld/go-ipld-prime/node/basicnode"
	"github.com/ipld/go-ipld-prime/traversal"
	"github.com/ipld/go-ipld-prime/traversal/selector"

	"verif/lib/fnode"
	"verif/lib/fw"
	"verif/lib/graphgen"
	"verif/lib/model"
	"verif/lib/obs"
	refcbor "verif/lib/ref/cbor"
	refsel "verif/lib/ref/sel"
	"verif/lib/selgen"
)

// C16 — transforms are pure functional updates, also across links.
type c16 struct{}

func init() { fw.Register(c16{}) }

func (c16) ID() string { return "C16" }

func (c16) Plan(tier string) fw.Plan {
	p := fw.Plan{
		Batches: 16, Cases: 12000, TimeoutSec: 900, Level: "exploration",
		Rule:        "one case = one graph of 1–6 linked dag-cbor blocks and a sequence of 1–5 focused transforms applied one after another, each with a target path drawn from: an existing map value, an existing list element, a new map key, list append '-', missing parents with and without createParents, through one or more links, beyond scalars, out-of-range and non-numeric list segments, the empty path; operation ∈ {replace with a generated value, identity, delete (nil)}; occasionally the loader answers SkipMe or fails for a block. Oracle: reference functional update over the abstract graph (lib to this file) giving the expected result tree, the expected callback argument, whether an error is expected, and the set of blocks that must be written. Monitors: result read-out = reference (every untouched entry equal and in order, inserted key/element last); callback argument = value at the target (nil for a new position); read-out digest of the INPUT tree unchanged; blocks written to storage = re-encoded spine blocks with reference links; loading everything from the new root through the link system reproduces the reference graph. Second family: WalkTransforming with random selectors over link-free trees: identity ⇒ equal tree; matched nodes (the reference walk's matches not below an earlier replaced match) replaced, everything else equal in order. A separate probe records WalkTransforming across a link (known finding). Non-trivial: target depth ≥2 or through a link; distinct by hash of (root, path, op).",
		Assumptions: []string{"reference update semantics in this file follow the FocusedTransform documentation: replace in place, nil = remove, missing map key / '-' = append last, parents only with createParents, links followed only when the path continues below them"},
		MinEvents:   []string{"transforms", "transforms_through_links", "deletes", "inserts", "identity_transforms", "expected_errors", "callback_args_checked", "input_unchanged_checks", "blocks_written_checked", "reload_checks", "walk_transforms", "walk_transform_replacements"},
	}
	if tier == "thorough" {
		p.Batches, p.Cases, p.TimeoutSec = 64, 14000, 3300
	}
	return p
}

type c16Op struct {
	kind string // replace | identity | delete
	val  model.Val
}

// c16Store is the abstract block store: link -> value (dag-cbor canonical order).
type c16Store map[string]model.Val

func c16Link(like string, v model.Val) string {
	// same prototype as the replaced link: all generated links are CIDv1 dag-cbor sha2-256
	d := sha256.Sum256(refcbor.Encode(v))
	return string(model.MakeCID(1, 0x71, 0x12, d[:]))
}

type c16Result struct {
	root     model.Val
	err      bool
	arg      *model.Val // callback argument (nil pointer = callback gets nil)
	called   bool
	written  map[string]model.Val
	through  int
	inserted bool
}

// c16Update is the reference functional update. unavailable: links whose load fails.
func c16Update(st c16Store, cur model.Val, segs []string, op c16Op, createParents bool, unavailable map[string]bool, res *c16Result) (model.Val, bool) {
	apply := func(target *model.Val) (model.Val, bool) { // returns (new value, keep)
		res.called = true
		res.arg = target
		switch op.kind {
		case "replace":
			return op.val, true
		case "identity":
			if target == nil {
				return model.Val{}, false
			}
			return *target, true
		}
		return model.Val{}, false
	}
	if len(segs) == 0 {
		nv, keep := apply(&cur)
		if !keep {
			res.err = true // removing the root is not a value
			return cur, false
		}
		return nv, true
	}
	seg, rest := segs[0], segs[1:]
	chain := func(rest []string) (model.Val, bool) { // value for a new position below missing parents
		if len(rest) == 0 {
			nv, keep := apply(nil)
			return nv, keep
		}
		inner, keep := model.Val{}, false
		// build from the inside out
		var mk func(i int) (model.Val, bool)
		mk = func(i int) (model.Val, bool) {
			if i == len(rest) {
				return apply(nil)
			}
			v, k := mk(i + 1)
			if !k {
				return model.Val{}, false
			}
			return model.Map(model.E(rest[i], v)), true
		}
		inner, keep = mk(0)
		return inner, keep
	}
	switch cur.K {
	case model.KMap:
		out := model.Val{K: model.KMap, M: []model.Entry{}}
		idx := -1
		for i, e := range cur.M {
			if e.K == seg {
				idx = i
			}
		}
		if len(rest) == 0 {
			var target *model.Val
			if idx >= 0 {
				t := cur.M[idx].V
				target = &t
			}
			nv, keep := apply(target)
			for i, e := range cur.M {
				if i == idx {
					if keep {
						out.M = append(out.M, model.Entry{K: e.K, V: nv})
					}
					continue
				}
				out.M = append(out.M, e)
			}
			if idx < 0 && keep {
				out.M = append(out.M, model.Entry{K: seg, V: nv})
				res.inserted = true
			}
			return out, true
		}
		if idx >= 0 {
			nv, ok := c16Update(st, cur.M[idx].V, rest, op, createParents, unavailable, res)
			if !ok || res.err {
				res.err = true
				return cur, false
			}
			for i, e := range cur.M {
				if i == idx {
					out.M = append(out.M, model.Entry{K: e.K, V: nv})
				} else {
					out.M = append(out.M, e)
				}
			}
			return out, true
		}
		if !createParents {
			res.err = true
			return cur, false
		}
		nv, keep := chain(rest)
		if !keep {
			res.err = true // a removal below parents that do not exist: nothing sensible to build
			return cur, false
		}
		out.M = append(append(out.M, cur.M...), model.Entry{K: seg, V: nv})
		res.inserted = true
		return out, true
	case model.KList:
		if seg == "-" {
			if len(rest) != 0 {
				res.err = true
				return cur, false
			}
			nv, keep := apply(nil)
			out := model.Val{K: model.KList, L: append([]model.Val{}, cur.L...)}
			if keep {
				out.L = append(out.L, nv)
				res.inserted = true
			} else {
				res.err = true // appending "nothing"
				return cur, false
			}
			return out, true
		}
		i, err := strconv.ParseInt(seg, 10, 64)
		if err != nil || i < 0 || i >= int64(len(cur.L)) {
			res.err = true
			return cur, false
		}
		out := model.Val{K: model.KList, L: []model.Val{}}
		if len(rest) == 0 {
			t := cur.L[i]
			nv, keep := apply(&t)
			for k, x := range cur.L {
				if int64(k) == i {
					if keep {
						out.L = append(out.L, nv)
					}
					continue
				}
				out.L = append(out.L, x)
			}
			return out, true
		}
		nv, ok := c16Update(st, cur.L[i], rest, op, createParents, unavailable, res)
		if !ok || res.err {
			res.err = true
			return cur, false
		}
		for k, x := range cur.L {
			if int64(k) == i {
				out.L = append(out.L, nv)
			} else {
				out.L = append(out.L, x)
			}
		}
		return out, true
	case model.KLink:
		b, present := st[cur.S]
		if !present || unavailable[cur.S] {
			res.err = true
			return cur, false
		}
		res.through++
		nb, ok := c16Update(st, b, segs, op, createParents, unavailable, res)
		if !ok || res.err {
			res.err = true
			return cur, false
		}
		stored := model.SortKeys(nb, model.CBORKeyLess)
		// only the top level of the block was rebuilt in memory; nested maps keep their order,
		// but the encoder sorts every map, and what is stored is what the block denotes
		l := c16Link(cur.S, stored)
		res.written[l] = stored
		return model.Link([]byte(l)), true
	}
	res.err = true
	return cur, false
}

func c16Segs(rng *fw.RNG, g *graphgen.Graph, st c16Store, root model.Val) []string {
	// walk down a random existing path, then possibly perturb the end
	var segs []string
	cur := root
	steps := rng.Intn(6)
	for k := 0; k < steps; k++ {
		for cur.K == model.KLink {
			b, ok := st[cur.S]
			if !ok {
				return append(segs, "beyond-missing-block")
			}
			cur = b
		}
		switch cur.K {
		case model.KMap:
			if len(cur.M) == 0 {
				k = steps
				continue
			}
			e := cur.M[rng.Intn(len(cur.M))]
			segs = append(segs, e.K)
			cur = e.V
		case model.KList:
			if len(cur.L) == 0 {
				k = steps
				continue
			}
			i := rng.Intn(len(cur.L))
			segs = append(segs, strconv.Itoa(i))
			cur = cur.L[i]
		default:
			k = steps
		}
	}
	switch rng.Intn(10) {
	case 0:
		segs = append(segs, "new-key")
	case 1:
		segs = append(segs, "-")
	case 2:
		segs = append(segs, "missing-parent", "child")
	case 3:
		segs = append(segs, []string{"99", "x", "-1", ""}[rng.Intn(4)])
	case 4:
		segs = append(segs, "p1", "p2", "leaf")
	}
	return segs
}

func (c16) RunCase(c *fw.Ctx, rng *fw.RNG, batch, i int) {
	if i%4 == 3 {
		if batch == 0 && i == 3 {
			c16LinkProbe(c)
		}
		c16WalkTransform(c, rng)
		if i%8 == 7 {
			c16WalkTransformControls(c, rng)
		}
		return
	}
	gopts := graphgen.Opts{MaxBlocks: 6, MaxDepth: 3, MaxWidth: 4, NumLookalikes: true}
	if deepCase(c, i) {
		gopts.MaxBlocks, gopts.MaxDepth, gopts.MaxWidth = 12, 4, 6
	}
	g := graphgen.Gen(rng, gopts)
	st := c16Store{}
	for l, v := range g.Vals {
		st[l] = v
	}
	// real storage
	blocks := map[string][]byte{}
	for l, b := range g.Blocks {
		blocks[l] = b
	}
	var writes []string
	unavailable := map[string]bool{}
	skipMode := false
	lsys := cidlink.DefaultLinkSystem()
	lsys.StorageReadOpener = func(_ linking.LinkContext, l datamodel.Link) (io.Reader, error) {
		if unavailable[l.Binary()] {
			if skipMode {
				return nil, traversal.SkipMe{}
			}
			return nil, fmt.Errorf("storage says no")
		}
		b, ok := blocks[l.Binary()]
		if !ok {
			return nil, fmt.Errorf("not found")
		}
		return bytes.NewReader(b), nil
	}
	lsys.StorageWriteOpener = func(linking.LinkContext) (io.Writer, linking.BlockWriteCommitter, error) {
		var buf bytes.Buffer
		return &buf, func(l datamodel.Link) error {
			blocks[l.Binary()] = append([]byte(nil), buf.Bytes()...)
			writes = append(writes, l.Binary())
			return nil
		}, nil
	}
	plain := lsys // the harness's own reloads never go through a reifier
	if rng.Chance(1, 4) {
		// A reifier changes what Load *presents*, not what a block *is*: a transform across links re-stores
		// blocks and must work on the raw block (FocusedTransform documents Fill-like loading).
		c.Count("histories_with_node_reifier", 1)
		lsys.NodeReifier = func(_ linking.LinkContext, n datamodel.Node, _ *linking.LinkSystem) (datamodel.Node, error) {
			if n.Kind() == datamodel.Kind_Map || n.Kind() == datamodel.Kind_List {
				return basicnode.NewString("reified view of a " + n.Kind().String()), nil
			}
			return n, nil
		}
	}
	cfg := &traversal.Config{LinkSystem: lsys, LinkTargetNodePrototypeChooser: func(datamodel.Link, linking.LinkContext) (datamodel.NodePrototype, error) {
		return basicnode.Prototype.Any, nil
	}}
	rootVal := g.Root
	rootNode, err := basicBuild(rootVal)
	if err != nil {
		return
	}
	var steps []string
	c.SetCase(func() any { return map[string]any{"family": "focused", "initial_root": g.Root.Dump(), "steps": steps} })
	nontrivial := false
	hh := g.Root.Hash()
	nsteps := 1 + rng.Intn(5)
	for sidx := 0; sidx < nsteps; sidx++ {
		segs := c16Segs(rng, g, st, rootVal)
		op := c16Op{kind: []string{"replace", "replace", "identity", "delete"}[rng.Intn(4)]}
		if op.kind == "replace" {
			op.val = model.Gen(rng, model.GenOpts{MaxDepth: 2, MaxWidth: 3})
		}
		createParents := rng.Bool()
		// keep to meaningful requests: "remove" only where something can be removed (an existing
		// position or a directly missing map key), and a replacement of the root must be of the
		// root's own kind (the root builder is the root's prototype)
		if len(segs) == 0 {
			if op.kind == "delete" {
				op.kind = "identity"
			}
			if op.kind == "replace" {
				for tries := 0; op.val.K != rootVal.K && tries < 50; tries++ {
					op.val = model.Gen(rng, model.GenOpts{MaxDepth: 2, MaxWidth: 3})
				}
				if op.val.K != rootVal.K {
					op.kind = "identity"
				}
			}
		}
		if op.kind != "replace" && len(segs) > 0 {
			last := segs[len(segs)-1]
			if last == "-" || last == "child" || last == "leaf" {
				op = c16Op{kind: "replace", val: model.Gen(rng, model.GenOpts{MaxDepth: 2, MaxWidth: 3})}
			}
		}
		for k := range unavailable {
			delete(unavailable, k)
		}
		if rng.Chance(1, 8) && len(g.Order) > 0 {
			unavailable[g.Order[rng.Intn(len(g.Order))]] = true
			skipMode = rng.Bool()
		}
		step := fmt.Sprintf("%s at %q createParents=%v", op.kind, segs, createParents)
		if op.kind == "replace" {
			step += " with " + clipS(op.val.Dump(), 80)
		}
		if len(unavailable) > 0 {
			step += fmt.Sprintf(" (one block unavailable, SkipMe=%v)", skipMode)
		}
		steps = append(steps, step)
		hh = fw.Mix(hh, fw.HashString(step))
		// reference
		res := &c16Result{written: map[string]model.Val{}}
		wantRoot, ok := c16Update(st, rootVal, segs, op, createParents, unavailable, res)
		wantErr := !ok || res.err
		// implementation
		psegs := make([]datamodel.PathSegment, len(segs))
		for k, sg := range segs {
			psegs[k] = datamodel.PathSegmentOfString(sg)
			// a segment that is the canonical spelling of a non-negative integer is built from the integer half
			// of the time — what a walk's Progress.Path holds for list steps, and what callers build from ids;
			// it addresses the same map key or list element (round-3 seed C16-9: the map step of
			// FocusedTransform comparing segments with == instead of Equals)
			if i, err := strconv.ParseInt(sg, 10, 64); err == nil && i >= 0 && strconv.FormatInt(i, 10) == sg && rng.Bool() {
				psegs[k] = datamodel.PathSegmentOfInt(i)
				c.Count("int_built_segments", 1)
			}
		}
		before := obs.ReadOut(rootNode, obs.Options{Light: true}).Val
		writes = writes[:0]
		var gotArg *model.Val
		calls := 0
		var out datamodel.Node
		var terr error
		fnRepl, ferr := basicBuild(op.val)
		if op.kind == "replace" && ferr != nil {
			return
		}
		// one transform in sixteen: the callback itself fails. The transform must then fail with that error (not
		// build a tree around a missing node), leave the input as it was and write nothing under the root
		if !wantErr && rng.Chance(1, 16) {
			errCB := errors.New("callback says no")
			var o2 datamodel.Node
			var e2 error
			w0 := len(writes)
			if !c.Guard("C16:FocusedTransform:callback-error", func() {
				o2, e2 = traversal.Progress{Cfg: cfg}.FocusedTransform(rootNode, datamodel.NewPath(psegs), func(traversal.Progress, datamodel.Node) (datamodel.Node, error) {
					return nil, errCB
				}, createParents)
			}) {
				c.Count("callback_error_transforms", 1)
				if e2 == nil || !strings.Contains(e2.Error(), errCB.Error()) {
					c.Deviate("C16:callback-error-lost", fmt.Sprintf("the transform callback returned an error at <%s>; FocusedTransform returned node nil=%v, err=%v", strings.Join(segs, "/"), o2 == nil, e2))
				}
				if after := obs.ReadOut(rootNode, obs.Options{Light: true}).Val; !model.Equal(after, before) {
					c.Deviate("C16:input-mutated", "the input tree changed during a transform whose callback failed")
				}
			}
			writes = writes[:w0]
		}
		if c.Guard("C16:FocusedTransform", func() {
			out, terr = traversal.Progress{Cfg: cfg}.FocusedTransform(rootNode, datamodel.NewPath(psegs), func(_ traversal.Progress, n datamodel.Node) (datamodel.Node, error) {
				calls++
				if n == nil {
					gotArg = nil
				} else {
					v := obs.ReadOut(n, obs.Options{Light: true}).Val
					gotArg = &v
				}
				switch op.kind {
				case "replace":
					return fnRepl, nil
				case "identity":
					return n, nil
				}
				return nil, nil
			}, createParents)
		}) {
			return
		}
		c.Count("transforms", 1)
		switch op.kind {
		case "delete":
			c.Count("deletes", 1)
		case "identity":
			c.Count("identity_transforms", 1)
		}
		if res.through > 0 {
			c.Count("transforms_through_links", 1)
		}
		if len(segs) >= 2 || res.through > 0 {
			nontrivial = true
		}
		// the input is untouched, whatever happened
		c.Count("input_unchanged_checks", 1)
		if after := obs.ReadOut(rootNode, obs.Options{Light: true}).Val; !model.Equal(after, before) {
			c.Deviate("C16:input-tree-changed", fmt.Sprintf("step %s: the input tree read %s before and %s after the transform", step, clipS(before.Dump(), 300), clipS(after.Dump(), 300)))
		}
		if wantErr {
			c.Count("expected_errors", 1)
			if terr == nil {
				var got string
				if out != nil {
					got = clipS(obs.ReadOut(out, obs.Options{Light: true}).Val.Dump(), 300)
				}
				c.Deviate("C16:impossible-transform-succeeds", fmt.Sprintf("step %s cannot be performed (missing position / scalar reached / block unavailable) but FocusedTransform returned no error; result %s\ntree: %s", step, got, clipS(rootVal.Dump(), 400)))
			}
			continue // state unchanged
		}
		if terr != nil {
			c.Deviate("C16:valid-transform-fails:"+errClass(terr), fmt.Sprintf("step %s failed: %v\ntree: %s", step, terr, clipS(rootVal.Dump(), 400)))
			return
		}
		if out == nil {
			c.Deviate("C16:nil-result", "FocusedTransform returned a nil node and no error: "+step)
			return
		}
		ro := obs.ReadOut(out, obs.Options{})
		if !model.Equal(ro.Val, wantRoot) {
			c.Deviate("C16:result-differs", fmt.Sprintf("step %s\nresult   %s\nexpected %s\nfrom     %s", step, clipS(ro.Val.Dump(), 500), clipS(wantRoot.Dump(), 500), clipS(rootVal.Dump(), 500)))
			return
		}
		if len(ro.Issues) > 0 {
			c.Deviate("C16:result-node-inconsistent:"+ro.Issues[0].Sig, step+": "+ro.FirstIssue())
		}
		// callback argument
		c.Count("callback_args_checked", 1)
		if res.called {
			if (gotArg == nil) != (res.arg == nil) || (gotArg != nil && !model.Equal(*gotArg, *res.arg)) {
				ga, wa := "nil", "nil"
				if gotArg != nil {
					ga = clipS(gotArg.Dump(), 200)
				}
				if res.arg != nil {
					wa = clipS(res.arg.Dump(), 200)
				}
				c.Deviate("C16:callback-argument-differs", fmt.Sprintf("step %s: the callback received %s, the node at the target is %s", step, ga, wa))
			}
			if calls == 0 {
				c.Deviate("C16:callback-not-called", "step "+step)
			}
		}
		if res.inserted {
			c.Count("inserts", 1)
		}
		// blocks written = the spine
		c.Count("blocks_written_checked", 1)
		wantW := map[string]bool{}
		for l := range res.written {
			wantW[l] = true
		}
		gotW := map[string]bool{}
		for _, l := range writes {
			gotW[l] = true
		}
		for l := range wantW {
			if !gotW[l] {
				c.Deviate("C16:spine-block-not-stored", fmt.Sprintf("step %s: the re-linked block …%x was not written to storage (writes: %d)", step, tail4(l), len(writes)))
			}
		}
		for l := range gotW {
			if !wantW[l] {
				c.Deviate("C16:unexpected-block-stored", fmt.Sprintf("step %s: a block …%x was written that is not on the spine", step, tail4(l)))
			}
		}
		for l, v := range res.written {
			st[l] = v
			if b, ok := blocks[l]; ok && !bytes.Equal(b, refcbor.Encode(v)) {
				c.Deviate("C16:stored-block-content", fmt.Sprintf("step %s: block …%x holds %s, expected %s", step, tail4(l), hexClip(b), hexClip(refcbor.Encode(v))))
			}
		}
		// reload everything from the new root
		c.Count("reload_checks", 1)
		for k := range unavailable {
			delete(unavailable, k)
		}
		c16Reload(c, plain, st, out, wantRoot, step, 0)
		rootVal, rootNode = wantRoot, out
	}
	c.Seen(hh, nontrivial)
	if c.WantSample() && nontrivial && len(steps) <= 3 {
		c.Sample(map[string]any{"initial_root": clipS(g.Root.Dump(), 300), "steps": steps})
	}
}

// c16Reload follows every link of the result through the link system and compares with the reference store.
func c16Reload(c *fw.Ctx, lsys linking.LinkSystem, st c16Store, n datamodel.Node, want model.Val, step string, depth int) {
	if depth > 12 {
		return
	}
	var visit func(v model.Val)
	seen := map[string]bool{}
	visit = func(v model.Val) {
		switch v.K {
		case model.KLink:
			if seen[v.S] {
				return
			}
			seen[v.S] = true
			wantB, ok := st[v.S]
			if !ok {
				return // links to blocks that never existed
			}
			cc, err := cid.Cast([]byte(v.S))
			if err != nil {
				return
			}
			loaded, err := lsys.Load(linking.LinkContext{}, cidlink.Link{Cid: cc}, basicnode.Prototype.Any)
			if err != nil {
				c.Deviate("C16:relinked-block-unloadable", fmt.Sprintf("step %s: loading …%x from the new root fails: %v", step, tail4(v.S), err))
				return
			}
			got := obs.ReadOut(loaded, obs.Options{Light: true}).Val
			if !model.Equal(got, wantB) {
				c.Deviate("C16:reloaded-graph-differs", fmt.Sprintf("step %s: block …%x loads as %s, the updated graph has %s there", step, tail4(v.S), clipS(got.Dump(), 300), clipS(wantB.Dump(), 300)))
				return
			}
			visit(wantB)
		case model.KList:
			for _, x := range v.L {
				visit(x)
			}
		case model.KMap:
			for _, e := range v.M {
				visit(e.V)
			}
		}
	}
	visit(want)
}

// ---- WalkTransforming over link-free trees

func c16WalkTransform(c *fw.Ctx, rng *fw.RNG) {
	g := graphgen.Gen(rng, graphgen.Opts{MaxBlocks: 1, MaxDepth: 4, MaxWidth: 4, NumLookalikes: true})
	root := g.Root
	// make it link-free (a single block has no links anyway)
	s := selgen.Gen(rng, selgen.Opts{MaxDepth: 4, Keys: g.Keys, MaxIndex: g.MaxLen + 1, NoSubset: true})
	sel, err := selector.CompileSelector(fnode.New(s.Spec()))
	if err != nil {
		return
	}
	rootNode, err := basicBuild(root)
	if err != nil {
		return
	}
	c.SetCase(func() any {
		return map[string]any{"family": "walk-transform", "root": root.Dump(), "selector": s.String()}
	})
	c.Count("walk_transforms", 1)
	// identity
	var out datamodel.Node
	var terr error
	if c.Guard("C16:WalkTransforming", func() {
		out, terr = traversal.WalkTransforming(rootNode, sel, func(_ traversal.Progress, n datamodel.Node) (datamodel.Node, error) { return n, nil })
	}) {
		return
	}
	if terr != nil {
		c.Deviate("C16:walk-transform-identity-fails:"+errClass(terr), fmt.Sprintf("identity WalkTransforming failed: %v\nselector %s\ntree %s", terr, s.String(), clipS(root.Dump(), 300)))
		return
	}
	if got := obs.ReadOut(out, obs.Options{Light: true}).Val; !model.Equal(got, root) {
		c.Deviate("C16:walk-transform-identity-differs", fmt.Sprintf("identity WalkTransforming returned %s for %s\nselector %s", clipS(got.Dump(), 400), clipS(root.Dump(), 400), s.String()))
		return
	}
	// replacing: every match (in document order, not below an earlier replaced one) becomes a marker
	want := refsel.Walk(g, root, s)
	// Two interests that spell the same list index differently ("0" and "-0") make the other walks visit one
	// position twice under two paths, each with its own continuation. What a TRANSFORM of that position should
	// be — the two continuations one after the other, or combined — the property does not say; such pairs are
	// left to the identity check above and counted.
	{
		canon := map[string]string{}
		alias := false
		for _, v := range want.Visits {
			cur := root
			var key []string
			for _, sg := range v.Segs {
				switch cur.K {
				case model.KList:
					if i, err := strconv.ParseInt(sg, 10, 64); err == nil && i >= 0 && int(i) < len(cur.L) {
						key = append(key, strconv.FormatInt(i, 10))
						cur = cur.L[i]
						continue
					}
				case model.KMap:
					for _, e := range cur.M {
						if e.K == sg {
							cur = e.V
						}
					}
				}
				key = append(key, sg)
			}
			k := strings.Join(key, "\x00")
			p := strings.Join(v.Segs, "\x00")
			if old, ok := canon[k]; ok && old != p {
				alias = true
			}
			canon[k] = p
		}
		if alias {
			c.Count("walk_transforms_with_aliased_list_interests_skipped", 1)
			return
		}
	}
	marker := model.String("«replaced»")
	exp := root
	var replacedPaths [][]string
	for _, v := range want.Visits {
		if !v.Match {
			continue
		}
		below := false
		for _, rp := range replacedPaths {
			if segsPrefix(rp, v.Segs) {
				below = true
			}
		}
		if below {
			continue
		}
		replacedPaths = append(replacedPaths, v.Segs)
		exp = c16Put(exp, v.Segs, marker)
	}
	c.Count("walk_transform_replacements", int64(len(replacedPaths)))
	before := obs.ReadOut(rootNode, obs.Options{Light: true}).Val
	// a callback that fails at its k-th call: the walk must end with that error, not with a tree built around nothing
	if len(replacedPaths) > 0 && rng.Chance(1, 8) {
		// (how many calls this walk makes is counted by a dry run with the same replacing callback: two
		// interests naming one list element are two visits for the reference and one call here)
		ncalls := 0
		if c.Guard("C16:WalkTransforming", func() {
			traversal.WalkTransforming(rootNode, sel, func(_ traversal.Progress, n datamodel.Node) (datamodel.Node, error) {
				ncalls++
				return basicnode.NewString("«replaced»"), nil
			})
		}) {
			ncalls = 0
		}
		failAt := 0
		if ncalls > 0 {
			failAt = rng.Intn(ncalls)
		}
		errCB := errors.New("callback says no")
		calls := 0
		var o2 datamodel.Node
		var e2 error
		if ncalls > 0 && !c.Guard("C16:WalkTransforming:callback-error", func() {
			o2, e2 = traversal.WalkTransforming(rootNode, sel, func(_ traversal.Progress, n datamodel.Node) (datamodel.Node, error) {
				calls++
				if calls-1 == failAt {
					return nil, errCB
				}
				return basicnode.NewString("«replaced»"), nil
			})
		}) {
			c.Count("callback_error_walk_transforms", 1)
			if e2 == nil || !strings.Contains(e2.Error(), errCB.Error()) {
				c.Deviate("C16:callback-error-lost:WalkTransforming", fmt.Sprintf("the transform callback failed at its call #%d; WalkTransforming returned node nil=%v, err=%v\nselector %s\ntree %s", failAt, o2 == nil, e2, s.String(), clipS(root.Dump(), 300)))
			}
		}
	}
	var visitedBelow string
	if c.Guard("C16:WalkTransforming", func() {
		var done [][]string
		out, terr = traversal.WalkTransforming(rootNode, sel, func(p traversal.Progress, n datamodel.Node) (datamodel.Node, error) {
			ps := pathSegs(p.Path)
			for _, d := range done {
				if segsPrefix(d, ps) && len(ps) > len(d) {
					visitedBelow = p.Path.String()
				}
			}
			done = append(done, ps)
			return basicnode.NewString("«replaced»"), nil
		})
	}) {
		return
	}
	if terr != nil {
		c.Deviate("C16:walk-transform-fails:"+errClass(terr), fmt.Sprintf("WalkTransforming failed: %v\nselector %s", terr, s.String()))
		return
	}
	if visitedBelow != "" {
		c.Deviate("C16:walk-transform-visits-below-replaced", fmt.Sprintf("the transform function was called at <%s>, below a node it had already replaced\nselector %s", visitedBelow, s.String()))
	}
	if got := obs.ReadOut(out, obs.Options{Light: true}).Val; !model.Equal(got, exp) {
		c.Deviate("C16:walk-transform-result-differs", fmt.Sprintf("WalkTransforming returned %s\nexpected %s\nfor %s\nselector %s", clipS(got.Dump(), 400), clipS(exp.Dump(), 400), clipS(root.Dump(), 400), s.String()))
	}
	if after := obs.ReadOut(rootNode, obs.Options{Light: true}).Val; !model.Equal(after, before) {
		c.Deviate("C16:input-tree-changed", "WalkTransforming changed its input tree")
	}
	c.Seen(fw.Mix(root.Hash(), fw.HashString(s.String())), len(replacedPaths) > 0)
	_ = strings.Join
}

// c16Put replaces the value at segs (which exists) by nv.
func c16Put(v model.Val, segs []string, nv model.Val) model.Val {
	if len(segs) == 0 {
		return nv
	}
	switch v.K {
	case model.KMap:
		out := model.Val{K: model.KMap, M: append([]model.Entry{}, v.M...)}
		for i, e := range out.M {
			if e.K == segs[0] {
				out.M[i].V = c16Put(e.V, segs[1:], nv)
			}
		}
		return out
	case model.KList:
		out := model.Val{K: model.KList, L: append([]model.Val{}, v.L...)}
		if i, err := strconv.Atoi(segs[0]); err == nil && i >= 0 && i < len(out.L) {
			out.L[i] = c16Put(out.L[i], segs[1:], nv)
		}
		return out
	}
	return v
}

// c16LinkProbe: identity WalkTransforming over a root that holds a link (recorded known finding).
func c16LinkProbe(c *fw.Ctx) {
	inner := model.Map(model.E("x", model.Int(1)))
	enc := refcbor.Encode(inner)
	d := sha256.Sum256(enc)
	l := string(model.MakeCID(1, 0x71, 0x12, d[:]))
	root := model.Map(model.E("l", model.Link([]byte(l))))
	lsys := cidlink.DefaultLinkSystem()
	lsys.StorageReadOpener = func(linking.LinkContext, datamodel.Link) (io.Reader, error) { return bytes.NewReader(enc), nil }
	lsys.StorageWriteOpener = func(linking.LinkContext) (io.Writer, linking.BlockWriteCommitter, error) {
		return io.Discard, func(datamodel.Link) error { return nil }, nil
	}
	cfg := &traversal.Config{LinkSystem: lsys, LinkTargetNodePrototypeChooser: func(datamodel.Link, linking.LinkContext) (datamodel.NodePrototype, error) {
		return basicnode.Prototype.Any, nil
	}}
	rootNode, _ := basicBuild(root)
	c.SetCase(func() any { return map[string]any{"family": "walk-transform link probe", "root": root.Dump()} })
	var out datamodel.Node
	var err error
	if c.Guard("C16:WalkTransforming", func() {
		out, err = traversal.Progress{Cfg: cfg}.WalkTransforming(rootNode, c11ExploreAllSel(), func(_ traversal.Progress, n datamodel.Node) (datamodel.Node, error) { return n, nil })
	}) || err != nil || out == nil {
		return
	}
	if got := obs.ReadOut(out, obs.Options{Light: true}).Val; !model.Equal(got, root) {
		c.Deviate("C16:walk-transform-inlines-linked-blocks", fmt.Sprintf("identity WalkTransforming of %s through a link returned %s: the loaded block replaces the link instead of being stored and re-linked", root.Dump(), got.Dump()))
	}
}

// c16WalkTransformControls: the walking transform over graphs WITH links while a traversal control keeps some
// links from being followed — visit-links-once with a link that occurs more than once, or a loader that
// answers SkipMe. What the transform returns for a followed link is the known finding (the loaded block is
// inlined); what it must not do, whatever happens at links, is lose or reorder entries: the result has the
// input's skeleton — every map the same keys in the same order, every list the same length, recursively through
// everything that is not a link in the input — and a link that was not followed is still that link.
// (Found by reading a surviving mechanical mutant in walk_transform_iterateList: unfollowed links were dropped
// from lists and wedged the map assembler; repaired, §4.)
func c16WalkTransformControls(c *fw.Ctx, rng *fw.RNG) {
	g, root, s, sel, err := travSetup(rng, graphgen.Opts{MaxBlocks: 6, MaxDepth: 3, MaxWidth: 4, RawBlocks: true}, selgen.Opts{MaxDepth: 3, NoSubset: true})
	if err != nil || sel == nil {
		return
	}
	if rng.Bool() {
		sel = c11ExploreAllSel()
	}
	lsys, _ := g.LinkSystem()
	links := g.Links()
	skip := map[string]bool{}
	once := rng.Bool()
	if !once || rng.Chance(1, 3) {
		for _, l := range links {
			if rng.Chance(1, 2) {
				skip[l] = true
			}
		}
	}
	inner := lsys.StorageReadOpener
	lsys.StorageReadOpener = func(lc linking.LinkContext, l datamodel.Link) (io.Reader, error) {
		if skip[l.Binary()] {
			return nil, traversal.SkipMe{}
		}
		return inner(lc, l)
	}
	cfg := &traversal.Config{LinkSystem: lsys, LinkVisitOnlyOnce: once, LinkTargetNodePrototypeChooser: func(datamodel.Link, linking.LinkContext) (datamodel.NodePrototype, error) {
		return basicnode.Prototype.Any, nil
	}}
	c.SetCase(func() any {
		return map[string]any{"family": "walk-transform under link controls", "root": g.Root.Dump(), "selector": s.String(), "visit_once": once, "skipped_links": len(skip)}
	})
	var out datamodel.Node
	var terr error
	if c.Guard("C16:WalkTransforming:link-controls", func() {
		out, terr = traversal.Progress{Cfg: cfg}.WalkTransforming(root, sel, func(_ traversal.Progress, n datamodel.Node) (datamodel.Node, error) { return n, nil })
	}) {
		return
	}
	c.Count("walk_transforms_under_link_controls", 1)
	if terr != nil {
		if strings.Contains(terr.Error(), "not found") || strings.Contains(terr.Error(), "could not load") {
			return // a link to a block that is not stored: the walk may say so
		}
		c.Deviate("C16:walk-transform-link-controls:error", fmt.Sprintf("identity WalkTransforming (visit-once=%v, %d links skipped by the loader) failed: %v", once, len(skip), terr))
		return
	}
	got := obs.ReadOut(out, obs.Options{Light: true}).Val
	var why string
	var cmp func(in, o model.Val, path string) bool
	cmp = func(in, o model.Val, path string) bool {
		switch in.K {
		case model.KLink:
			if o.K == model.KLink && o.S != in.S {
				why = fmt.Sprintf("at <%s> the link changed", path)
				return false
			}
			if o.K != model.KLink && skip[in.S] {
				why = fmt.Sprintf("at <%s> a link the loader skipped was replaced by a %v", path, o.K)
				return false
			}
			return true // followed: what stands there is the known finding's business
		case model.KMap:
			if o.K != model.KMap || len(o.M) != len(in.M) {
				why = fmt.Sprintf("at <%s> a map of %d entries became %v with %d entries", path, len(in.M), o.K, len(o.M))
				return false
			}
			for i := range in.M {
				if in.M[i].K != o.M[i].K {
					why = fmt.Sprintf("at <%s> entry #%d has key %q, was %q", path, i, o.M[i].K, in.M[i].K)
					return false
				}
				if !cmp(in.M[i].V, o.M[i].V, path+"/"+in.M[i].K) {
					return false
				}
			}
			return true
		case model.KList:
			if o.K != model.KList || len(o.L) != len(in.L) {
				why = fmt.Sprintf("at <%s> a list of %d elements became %v with %d elements", path, len(in.L), o.K, len(o.L))
				return false
			}
			for i := range in.L {
				if !cmp(in.L[i], o.L[i], fmt.Sprintf("%s/%d", path, i)) {
					return false
				}
			}
			return true
		}
		if !model.Equal(in, o) {
			why = fmt.Sprintf("at <%s> %s became %s", path, clipS(in.Dump(), 60), clipS(o.Dump(), 60))
			return false
		}
		return true
	}
	if !cmp(g.Root, got, "") {
		c.Deviate("C16:walk-transform-link-controls:entries-lost-or-changed", fmt.Sprintf("identity WalkTransforming (visit-once=%v, %d links skipped by the loader): %s\ninput  %s\nresult %s", once, len(skip), why, clipS(g.Root.Dump(), 600), clipS(got.Dump(), 600)))
	}
}
