package props

import (
	"fmt"
	"reflect"

	"github.com/ipld/go-ipld-prime/datamodel"
	"github.com/ipld/go-ipld-prime/node/bindnode"
	"github.com/ipld/go-ipld-prime/schema"

	"verif/lib/fw"
	"verif/lib/gobind"
	"verif/lib/model"
	rs "verif/lib/ref/schema"
	"verif/lib/schemagen"
	"verif/lib/typedmon"
)

// bindEngine binds every type of a library type system with bindnode and inferred Go types.
type bindEngine struct {
	lib    *schema.TypeSystem
	protos map[string]schema.TypedPrototype
	failed map[string]string
	// shape, when set, supplies user-side Go types (drawn by reflection over the documented shapes:
	// pointer vs bare nilable, **T, the three link types, int vs int64) instead of letting bindnode infer them.
	shape *gobind.Shape
	ts    *rs.TypeSystem
}

// newShapedBindEngine binds with user-supplied Go types.
func newShapedBindEngine(lib *schema.TypeSystem, ts *rs.TypeSystem, rng *fw.RNG) *bindEngine {
	e := newBindEngine(lib)
	e.shape = gobind.NewShape(ts, rng.Fork())
	e.shape.WideScalars = true
	e.ts = ts
	return e
}

func newBindEngine(lib *schema.TypeSystem) *bindEngine {
	return &bindEngine{lib: lib, protos: map[string]schema.TypedPrototype{}, failed: map[string]string{}}
}

func (e *bindEngine) Name() string {
	if e.shape != nil {
		return "bindnode-usertypes"
	}
	return "bindnode"
}

func (e *bindEngine) Proto(name string) (datamodel.NodePrototype, datamodel.NodePrototype) {
	if _, bad := e.failed[name]; bad {
		return nil, nil
	}
	p, ok := e.protos[name]
	if !ok {
		func() {
			defer func() {
				if r := recover(); r != nil {
					e.failed[name] = fmt.Sprint(r)
				}
			}()
			if e.shape != nil {
				g := e.shape.GoType(e.ts.T(name))
				p = bindnode.Prototype(reflect.Zero(reflect.PointerTo(g)).Interface(), e.lib.TypeByName(name))
			} else {
				p = bindnode.Prototype(nil, e.lib.TypeByName(name))
			}
			e.protos[name] = p
		}()
		if p == nil {
			return nil, nil
		}
	}
	return p, p.Representation()
}

// C08 — type-level and representation views obey the schema's strategy.
type c08 struct{}

func init() { fw.Register(c08{}) }

func (c08) ID() string { return "C08" }

func (c08) Plan(tier string) fw.Plan {
	p := fw.Plan{
		Batches: 16, Cases: 160, TimeoutSec: 900, Level: "exploration",
		Rule:        "one case = one random non-cyclic type system (8–14 composite types over struct map/tuple/stringjoin/listpairs with optional/nullable/both and renames, keyed/kinded/stringprefix unions, string/int enums, typed maps incl. complex stringjoin keys and nullable values, lists, links, Any) bound with bindnode (inferred Go types), and 12 values per composite type drawn from its value space (biased to absents, nulls, empty containers). Monitors per (type, value): type-level builder from the type view (struct fields in random order) → type-level read-out = value, representation read-out = reference reprOf; representation builder from reprOf → the same two read-outs; dag-cbor and dag-json (float-free values) encode of the representation → decode through the representation builder → identical re-encoding and the same typed value up to codec key order of typed maps. Tuple structs only with trailing absents (no other absent has a tuple form). Generated code runs the same monitors inside C13. Non-trivial: composite type of depth ≥2; distinct by (type system, type, value) hash.",
		Assumptions: []string{"lib/ref/schema is the oracle for the strategy relation (written from the IPLD Schema specification)", "floats are kept out of the dag-json leg (C04's known finding)"},
		MinEvents:   []string{"type_systems", "types_checked", "values_checked", "view_readouts", "built_type_level", "built_repr_level", "codec_roundtrips", "kind:struct-map", "kind:struct-tuple", "kind:struct-stringjoin", "kind:struct-listpairs", "kind:union-keyed", "kind:union-kinded", "kind:union-stringprefix", "kind:enum-string", "kind:enum-int", "kind:map", "kind:list"},
	}
	if tier == "thorough" {
		p.Batches, p.Cases, p.TimeoutSec = 64, 320, 3300
	}
	return p
}

func typeKindName(t *rs.Type) string {
	switch t.Kind {
	case "struct":
		return "struct-" + t.StructRepr
	case "union":
		return "union-" + t.UnionRepr
	case "enum":
		return "enum-" + t.EnumRepr
	}
	return t.Kind
}

func (c08) RunCase(c *fw.Ctx, rng *fw.RNG, batch, i int) {
	ntypes := 8 + rng.Intn(7)
	if deepCase(c, i) {
		ntypes = 18 + rng.Intn(10)
	}
	ts := schemagen.Gen(rng, schemagen.Opts{Types: ntypes})
	lib, err := schemagen.ToLibrary(ts)
	if err != nil {
		c.Count("library_rejects_generated_type_system", 1)
		c.Inconclusive("generated type system rejected by the library: " + err.Error())
		return
	}
	c.Count("type_systems", 1)
	eng := newBindEngine(lib)
	if rng.Chance(1, 3) {
		eng = newShapedBindEngine(lib, ts, rng)
		c.Count("type_systems_with_user_go_types", 1)
	}
	var cur string
	c.SetCase(func() any {
		return map[string]any{"type_system": schemagen.Describe(ts), "engine": eng.Name(), "go_types": eng.goTypes(), "current": cur}
	})
	for _, t := range ts.Types {
		if t.Name[0] != 'T' {
			continue
		}
		c.Count("types_checked", 1)
		c.Count("kind:"+typeKindName(t), 1)
		for k := 0; k < 12; k++ {
			tv := schemagen.GenValue(rng, ts, t, 0)
			cur = t.Name + " = " + clipS(tv.Dump(), 300)
			c.Count("values_checked", 1)
			c.Seen(fw.Mix(fw.HashString(schemagen.Describe(ts)), fw.HashString(t.Name), tv.Hash()), tv.Stats().MaxDepth >= 2)
			typedmon.CheckViews(c, eng, ts, t, tv, rng)
			if k < 3 {
				typedmon.CheckOtherLevelNames(c, eng, ts, t, tv)
			}
			if c.WantSample() && k == 0 && tv.Stats().Nodes > 4 && tv.Stats().Nodes < 20 {
				r, _ := ts.ReprOf(t, tv)
				c.Sample(map[string]any{"type": t.Name, "kind": typeKindName(t), "type_view": tv.Dump(), "representation": r.Dump()})
			}
		}
	}
	for name, why := range eng.failed {
		c.Count("bindnode_cannot_infer", 1)
		c.Deviate("C08:bindnode-cannot-bind:"+typeKindName(ts.T(name))+":"+errClass(fmt.Errorf("%s", why)), fmt.Sprintf("bindnode.Prototype(nil, %s) panicked: %s\n%s", name, clipS(why, 300), schemagen.Describe(ts)))
	}
	_ = model.Null
}

// goTypes describes the user-side Go types drawn so far (for replay files).
func (e *bindEngine) goTypes() map[string]string {
	if e.shape == nil {
		return nil
	}
	out := map[string]string{}
	for name := range e.protos {
		func() {
			defer func() { recover() }()
			out[name] = clipS(e.shape.GoType(e.ts.T(name)).String(), 600)
		}()
	}
	return out
}
