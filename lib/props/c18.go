package props

import (
	"bufio"
	"bytes"
	"context"
	"crypto/sha256"
	"encoding/hex"
	"encoding/json"
	"fmt"
	"github.com/ipld/go-ipld-prime/storage"
	"io"
	"os"
	"os/exec"
	"path/filepath"
	"regexp"
	"runtime"
	"sort"
	"strconv"
	"strings"
	"sync"
	"sync/atomic"
	"time"

	"github.com/anishathalye/porcupine"
	"github.com/ipld/go-ipld-prime/storage/fsstore"
	"github.com/ipld/go-ipld-prime/storage/sharding"

	"verif/lib/fw"
)

// C18 — fsstore writes are atomic.
type c18 struct{}

func init() {
	fw.Register(c18{})
	fw.RegisterAux("fschild", c18Child)
	fw.RegisterAux("fsverify", c18Verify)
}

func (c18) ID() string { return "C18" }

func (c18) Plan(tier string) fw.Plan {
	p := fw.Plan{
		Batches: 8, Cases: 25, Race: true, TimeoutSec: 1500, Level: "fault_enumeration", Exhaustive: true,
		Rule:        "part 1 (crash points, exhaustive per scenario): 8 scenarios of fsstore writes (put of a new key with and without an existing shard directory, put of an existing key, put-stream with several chunked writes then commit, abandoned stream, commit with the zero key, second put after a first, put-vec) run in a child whose main thread is traced by strace; a clean run yields the scenario's sequence of file-system syscalls, then for EVERY syscall of that sequence the scenario is re-run and killed (SIGKILL injected by strace before that syscall executes); a fresh verifier process then opens the directory with a new Store and checks: every key absent or complete, every regular file outside .temp complete for the key its name decodes to, Init succeeds, new puts of the crashed key and of a fresh key succeed. Part 2 (fault sequences): the same enumeration with error injection (ENOSPC, EIO, EACCES, …) on every syscall: success ⇒ key complete, error ⇒ absent or complete, store usable. Part 3 (schedules, race build): concurrent histories of writers (same/different keys, put and chunked put-stream) and readers on one Store; every operation recorded at the client boundary; per-key histories checked with porcupine against a write-once register; any read returning something other than not-found or the complete content is a violation; race detector reports are violations. exhaustive=true refers to crash/error points per scenario. Non-trivial: a crash point after the first byte was written / a history in which a read overlapped a write; distinct by (scenario, syscall index, fault) and by history hash.",
		Assumptions: []string{"strace signal/error injection is the crash and fault model (process death between two syscalls; no power-loss / page-cache model)", "porcupine checker timeouts are inconclusive"},
		MinEvents:   []string{"scenarios", "crash_points_enumerated", "error_injections", "verifier_runs", "distinct_post_crash_states", "concurrent_histories", "porcupine_ok", "reads_overlapping_writes"},
	}
	if tier == "thorough" {
		p.Batches, p.Cases, p.TimeoutSec = 32, 150, 3300
	}
	return p
}

// ---------------------------------------------------------------- keys & contents

func c18Content(key string) []byte {
	h := sha256.Sum256([]byte("c18:" + key))
	n := 200 + int(h[0])
	out := make([]byte, n)
	for i := range out {
		out[i] = h[i%32] ^ byte(i*7)
	}
	return out
}

func c18Open(dir string) (*fsstore.Store, error) {
	st := &fsstore.Store{}
	err := st.Init(dir, hexEsc, sharding.Shard_r12)
	return st, err
}

// scenario keys: kA and kB share a shard directory (same last hex chars), kC has its own.
const (
	c18KeyA = "key-one"
	c18KeyB = "yek-one"
	c18KeyC = "other-kez"
)

var c18Scenarios = []string{"put-new-noshard", "put-new-shard-exists", "put-existing", "stream-chunks-commit", "stream-abandon", "stream-commit-zero-key", "second-put", "two-puts-same-shard", "stream-large", "put-vec"}

func c18Keys(scn string) []string {
	if scn == "stress" {
		var ks []string
		for i := 0; i < c18StressKeys; i++ {
			ks = append(ks, c18StressKey(i))
		}
		return ks
	}
	return []string{c18KeyA, c18KeyB, c18KeyC}
}

// stress scenario: several goroutines put a pool of keys over and over; every third key is large so that a
// kill at a random instant has a fair chance of landing inside a write.
const c18StressKeys = 48

func c18StressKey(i int) string {
	if i%3 == 0 {
		return fmt.Sprintf("big-%d", i)
	}
	return fmt.Sprintf("stress-%d", i)
}

// c18ContentFor is the one content a key ever has.
func c18ContentFor(key string) []byte {
	if strings.HasPrefix(key, "big-") {
		return bytes.Repeat(c18Content(key), 600)
	}
	return c18Content(key)
}

// ---------------------------------------------------------------- the traced child

func c18Mark(s string) { os.Stat("/VERIF-MARK-" + s) }

// c18Child: verifrun -aux fschild <setup|run> <scenario> <dir> [resultfile]
func c18Child(args []string) int {
	runtime.LockOSThread()
	if len(args) < 3 {
		return 2
	}
	phase, scn, dir := args[0], args[1], args[2]
	ctx := context.Background()
	st, err := c18Open(dir)
	if err != nil {
		fmt.Fprintln(os.Stderr, "init:", err)
		return 3
	}
	if phase == "setup" {
		switch scn {
		case "put-new-shard-exists", "two-puts-same-shard":
			st.Put(ctx, c18KeyB, c18Content(c18KeyB)) // creates the shard directory kA will use
		case "put-existing":
			st.Put(ctx, c18KeyA, c18Content(c18KeyA))
		}
		return 0
	}
	results := map[string]string{}
	rec := func(k string, err error) {
		if err == nil {
			results[k] = "ok"
		} else {
			results[k] = "error: " + err.Error()
		}
	}
	if scn == "stress" {
		// runs until killed (or for a bounded number of rounds)
		runtime.UnlockOSThread()
		var wg sync.WaitGroup
		for g := 0; g < 6; g++ {
			wg.Add(1)
			go func(g int) {
				defer wg.Done()
				for round := 0; round < 400; round++ {
					for i := g; i < c18StressKeys; i += 3 { // neighbours overlap: the same key is written by two goroutines
						k := c18StressKey(i)
						content := c18ContentFor(k)
						if (i+round)%2 == 0 {
							st.Put(ctx, k, content)
							continue
						}
						w, commit, err := st.PutStream(ctx)
						if err != nil {
							continue
						}
						var werr error
						for lo := 0; lo < len(content) && werr == nil; lo += 8192 {
							hi := lo + 8192
							if hi > len(content) {
								hi = len(content)
							}
							_, werr = w.Write(content[lo:hi])
						}
						if werr != nil {
							commit("")
						} else {
							commit(k)
						}
					}
				}
			}(g)
		}
		wg.Wait()
		return 0
	}
	c18Mark("BEGIN")
	switch scn {
	case "put-new-noshard", "put-new-shard-exists", "put-existing":
		rec(c18KeyA, st.Put(ctx, c18KeyA, c18Content(c18KeyA)))
	case "stream-chunks-commit", "stream-large":
		w, commit, err := st.PutStream(ctx)
		if err != nil {
			rec(c18KeyA, err)
			break
		}
		content := c18Content(c18KeyA)
		if scn == "stream-large" {
			content = bytes.Repeat(content, 400) // > any small buffer
		}
		var werr error
		chunks := 4
		for i := 0; i < chunks && werr == nil; i++ {
			lo, hi := i*len(content)/chunks, (i+1)*len(content)/chunks
			_, werr = w.Write(content[lo:hi])
		}
		if werr != nil {
			commit("")
			rec(c18KeyA, werr)
			break
		}
		rec(c18KeyA, commit(c18KeyA))
	case "stream-abandon":
		w, _, err := st.PutStream(ctx)
		if err == nil {
			w.Write(c18Content(c18KeyA)[:50])
		}
		// the stream is never committed: the process simply goes on (and ends)
		rec(c18KeyC, st.Put(ctx, c18KeyC, c18Content(c18KeyC)))
	case "stream-commit-zero-key":
		w, commit, err := st.PutStream(ctx)
		if err == nil {
			w.Write(c18Content(c18KeyA))
			commit("")
		}
	case "put-vec":
		// the vectored put of the storage package (for this store: the PutStream-based fallback of
		// storage/funcs.go), the content handed over in five pieces — one write per piece, so a fault or a
		// crash can fall between any two of them (a surviving mechanical mutant dropped the fallback's write error)
		content := bytes.Repeat(c18Content(c18KeyA), 3)
		var vec [][]byte
		for i := 0; i < 5; i++ {
			vec = append(vec, content[i*len(content)/5:(i+1)*len(content)/5])
		}
		rec(c18KeyA, storage.PutVec(ctx, st, c18KeyA, vec))
	case "second-put":
		rec(c18KeyA, st.Put(ctx, c18KeyA, c18Content(c18KeyA)))
		rec(c18KeyC, st.Put(ctx, c18KeyC, c18Content(c18KeyC)))
	case "two-puts-same-shard":
		rec(c18KeyA, st.Put(ctx, c18KeyA, c18Content(c18KeyA)))
		rec(c18KeyB, st.Put(ctx, c18KeyB, c18Content(c18KeyB)))
	}
	c18Mark("END")
	if len(args) > 3 {
		b, _ := json.Marshal(results)
		os.WriteFile(args[3], b, 0o644)
	}
	return 0
}

// ---------------------------------------------------------------- the verifier

type c18Verdict struct {
	Problems []string          `json:"problems"`
	State    string            `json:"state"` // canonical description of the directory
	Keys     map[string]string `json:"keys"`  // absent | complete | <problem>
}

// c18Verify: verifrun -aux fsverify <dir> <scenario> <results.json|-> ; prints a c18Verdict
func c18Verify(args []string) int {
	dir, scn := args[0], args[1]
	v := c18Verdict{Keys: map[string]string{}}
	bad := func(f string, a ...any) { v.Problems = append(v.Problems, fmt.Sprintf(f, a...)) }
	ctx := context.Background()
	// canonical state before we touch anything
	var state []string
	filepath.Walk(dir, func(p string, fi os.FileInfo, err error) error {
		if err != nil || p == dir {
			return nil
		}
		rel, _ := filepath.Rel(dir, p)
		if fi.IsDir() {
			state = append(state, rel+"/")
			return nil
		}
		name := rel
		if strings.HasPrefix(rel, ".temp/") {
			name = ".temp/<staging>"
		}
		state = append(state, fmt.Sprintf("%s:%d", name, fi.Size()))
		if !strings.HasPrefix(rel, ".temp/") {
			// every regular file outside .temp must be the complete content of the key its name decodes to
			kb, derr := hex.DecodeString(filepath.Base(p))
			if derr != nil {
				bad("file %s outside .temp does not decode to a key", rel)
				return nil
			}
			got, _ := os.ReadFile(p)
			want := c18ContentFor(string(kb))
			if scn == "stream-large" && string(kb) == c18KeyA {
				want = bytes.Repeat(want, 400)
			}
			if scn == "put-vec" && string(kb) == c18KeyA {
				want = bytes.Repeat(want, 3)
			}
			if !bytes.Equal(got, want) {
				bad("file %s holds %d bytes that are not the complete content (%d bytes) of key %q", rel, len(got), len(want), kb)
			}
		}
		return nil
	})
	sort.Strings(state)
	v.State = strings.Join(state, " ")
	st, err := c18Open(dir)
	if err != nil {
		bad("a new process cannot Init the store directory: %v", err)
		out, _ := json.Marshal(v)
		fmt.Println(string(out))
		return 0
	}
	var results map[string]string
	if len(args) > 2 && args[2] != "-" {
		if b, err := os.ReadFile(args[2]); err == nil {
			json.Unmarshal(b, &results)
		}
	}
	for _, k := range c18Keys(scn) {
		want := c18ContentFor(k)
		if scn == "stream-large" && k == c18KeyA {
			want = bytes.Repeat(want, 400)
		}
		if scn == "put-vec" && k == c18KeyA {
			want = bytes.Repeat(want, 3)
		}
		has, herr := st.Has(ctx, k)
		got, gerr := st.Get(ctx, k)
		switch {
		case herr != nil:
			v.Keys[k] = "has-error"
			bad("Has(%q) failed: %v", k, herr)
		case !has && gerr != nil:
			v.Keys[k] = "absent"
		case has && gerr == nil && bytes.Equal(got, want):
			v.Keys[k] = "complete"
		default:
			v.Keys[k] = "partial-or-inconsistent"
			bad("key %q: Has=%v Get err=%v returned %d bytes, complete content is %d bytes", k, has, gerr, len(got), len(want))
		}
		if r, ok := results[k]; ok {
			if r == "ok" && v.Keys[k] != "complete" {
				bad("the API reported success for key %q but afterwards it is %s", k, v.Keys[k])
			}
		}
	}
	// the directory remains usable: the crashed key and a fresh key can be put and read
	for _, k := range []string{c18KeyA, "fresh-after-crash"} {
		want := c18Content(k)
		if scn == "stream-large" && k == c18KeyA {
			want = bytes.Repeat(want, 400)
		}
		if scn == "put-vec" && k == c18KeyA {
			want = bytes.Repeat(want, 3)
		}
		if err := st.Put(ctx, k, want); err != nil {
			bad("after the crash a new process cannot Put(%q): %v", k, err)
			continue
		}
		got, err := st.Get(ctx, k)
		if err != nil || !bytes.Equal(got, want) {
			bad("after the crash Put then Get of %q returns err=%v, %d bytes (want %d)", k, err, len(got), len(want))
		}
	}
	out, _ := json.Marshal(v)
	fmt.Println(string(out))
	return 0
}

// ---------------------------------------------------------------- parent: enumeration

type c18Sys struct {
	name    string
	ordinal int // ordinal of this syscall name on the main thread since process start
	line    string
}

var c18TraceSet = "openat,open,creat,write,pwrite64,writev,close,rename,renameat,renameat2,mkdir,mkdirat,unlink,unlinkat,newfstatat,fstat,fsync,fdatasync,ftruncate,link,linkat,symlinkat,copy_file_range,sendfile,splice,fallocate,fchmod,fchmodat,utimensat"

var c18LineRe = regexp.MustCompile(`^(\d+)\s+([a-z0-9_]+)\(`)

func c18CopyDir(src, dst string) error {
	return exec.Command("cp", "-a", src, dst).Run()
}

func (c18) Orchestrate(p *fw.Parent) error {
	if _, err := exec.LookPath("strace"); err != nil {
		return fmt.Errorf("strace is required for the crash-point enumeration")
	}
	self := p.ChildBinary(false)
	errnos := []string{"ENOSPC", "EIO", "EACCES"}
	if p.Tier == "thorough" {
		errnos = []string{"ENOSPC", "EIO", "EACCES", "EEXIST", "ENOENT", "EMFILE", "EINTR", "EDQUOT"}
	}
	states := map[string]struct{}{}
	var mu sync.Mutex
	sem := make(chan struct{}, p.Jobs)
	var wg sync.WaitGroup
	for si, scn := range c18Scenarios {
		scn := scn
		root := filepath.Join(p.WorkDir, "scn-"+scn)
		os.MkdirAll(root, 0o755)
		setup := filepath.Join(root, "setup")
		os.MkdirAll(setup, 0o755)
		if out, err := exec.Command(self, "-aux", "fschild", "setup", scn, setup).CombinedOutput(); err != nil {
			return fmt.Errorf("scenario %s setup failed: %v %s", scn, err, out)
		}
		// clean traced run
		clean := filepath.Join(root, "clean")
		c18CopyDir(setup, clean)
		logf := filepath.Join(root, "clean.strace")
		cmd := exec.Command("strace", "-f", "-qq", "-o", logf, "-e", "trace="+c18TraceSet+",stat", self, "-aux", "fschild", "run", scn, clean, filepath.Join(root, "clean.results"))
		if out, err := cmd.CombinedOutput(); err != nil {
			return fmt.Errorf("scenario %s clean traced run failed: %v %s", scn, err, out)
		}
		seq, err := c18ParseTrace(logf)
		if err != nil {
			return fmt.Errorf("scenario %s: %v", scn, err)
		}
		if len(seq) == 0 {
			return fmt.Errorf("scenario %s: the trace shows no file-system syscalls between the markers", scn)
		}
		p.Count("scenarios", 1)
		p.Count("syscalls_in_clean_runs", int64(len(seq)))
		if si < 3 {
			var names []string
			for _, s := range seq {
				names = append(names, s.name)
			}
			p.AddSample(map[string]any{"scenario": scn, "syscall_sequence": names})
		}
		verdict := func(dir, results string) (c18Verdict, error) {
			out, err := exec.Command(self, "-aux", "fsverify", dir, scn, results).Output()
			var v c18Verdict
			if err != nil {
				return v, err
			}
			err = json.Unmarshal(bytes.TrimSpace(out), &v)
			return v, err
		}
		if v, err := verdict(clean, filepath.Join(root, "clean.results")); err != nil || len(v.Problems) > 0 {
			p.AddDeviation(fw.Deviation{Sig: "C18:clean-run-inconsistent:" + scn, Detail: fmt.Sprintf("scenario %s without any fault: verifier says %v (err %v)", scn, v.Problems, err), Batch: 9000 + si, Index: -1})
			continue
		}
		run := func(idx int, s c18Sys, inject, label string) {
			defer wg.Done()
			defer func() { <-sem }()
			dir := filepath.Join(root, fmt.Sprintf("r-%s-%d", label, idx))
			c18CopyDir(setup, dir)
			resf := dir + ".results"
			traceOut, traceSet := "/dev/null", s.name
			if !strings.HasPrefix(inject, "signal") {
				traceOut, traceSet = dir+".strace", c18TraceSet+",stat" // what the process does AFTER the fault is enumerated below
				defer os.Remove(dir + ".strace")
			}
			args := []string{"-f", "-qq", "-o", traceOut, "-e", "trace=" + traceSet, "-e", "inject=" + s.name + ":" + inject + ":when=" + strconv.Itoa(s.ordinal),
				self, "-aux", "fschild", "run", scn, dir, resf}
			c := exec.Command("strace", args...)
			done := make(chan struct{})
			var out []byte
			go func() { out, _ = c.CombinedOutput(); close(done) }()
			select {
			case <-done:
			case <-time.After(60 * time.Second):
				c.Process.Kill()
				<-done
				p.AddInconclusive(fmt.Sprintf("scenario %s %s at syscall %d: watchdog", scn, label, idx))
				os.RemoveAll(dir)
				return
			}
			_ = out
			if _, err := os.Stat(resf); err != nil {
				resf = "-"
			}
			v, err := verdict(dir, resf)
			p.Count("verifier_runs", 1)
			if err != nil {
				p.AddInconclusive(fmt.Sprintf("scenario %s %s at syscall %d: verifier failed to run: %v", scn, label, idx, err))
				os.RemoveAll(dir)
				return
			}
			mu.Lock()
			states[scn+"|"+v.State] = struct{}{}
			mu.Unlock()
			p.AddEvaluations(1)
			p.Seen(fw.HashString(fmt.Sprintf("%s|%d|%s", scn, idx, label)), idx > 0)
			if len(v.Problems) > 0 {
				sig := "C18:not-atomic-after-crash:" + scn
				if !strings.HasPrefix(inject, "signal") {
					sig = "C18:not-atomic-after-fault:" + scn + ":" + s.name
				}
				p.AddDeviation(fw.Deviation{Sig: sig, Detail: fmt.Sprintf("scenario %s, %s injected at syscall #%d of the scenario (%s, ordinal %d on the thread): %s\n  syscall: %s\n  directory afterwards: %s", scn, inject, idx, s.name, s.ordinal, strings.Join(v.Problems, "; "), clipS(s.line, 300), v.State),
					Batch: 9000 + si, Index: -1, Case: json.RawMessage(fmt.Sprintf(`{"scenario":%q,"syscall_index":%d,"syscall":%q,"inject":%q}`, scn, idx, s.name, inject))})
			}
			os.RemoveAll(dir)
			os.Remove(resf)
			// fault THEN crash: where the fault sends the process down another path (cleanup, a fallback),
			// every syscall of that path is a crash point too
			if strings.HasPrefix(inject, "signal") {
				return
			}
			fseq, ferr := c18ParseTrace(dir + ".strace")
			if ferr != nil || len(fseq) <= idx {
				return
			}
			same := len(fseq) == len(seq)
			for j := idx + 1; same && j < len(fseq); j++ {
				same = fseq[j].name == seq[j].name
			}
			if same {
				return
			}
			for j := idx + 1; j < len(fseq); j++ {
				s2 := fseq[j]
				if s2.name == s.name {
					p.Count("fault_then_crash_skipped_same_syscall", 1)
					continue // strace takes one injection per syscall name
				}
				dir2 := filepath.Join(root, fmt.Sprintf("r-%s-%d-then-kill-%d", label, idx, j))
				c18CopyDir(setup, dir2)
				args2 := []string{"-f", "-qq", "-o", "/dev/null", "-e", "trace=" + s.name + "," + s2.name,
					"-e", "inject=" + s.name + ":" + inject + ":when=" + strconv.Itoa(s.ordinal),
					"-e", "inject=" + s2.name + ":signal=KILL:when=" + strconv.Itoa(s2.ordinal),
					self, "-aux", "fschild", "run", scn, dir2, dir2 + ".results"}
				c2 := exec.Command("strace", args2...)
				done2 := make(chan struct{})
				go func() { c2.CombinedOutput(); close(done2) }()
				select {
				case <-done2:
				case <-time.After(60 * time.Second):
					c2.Process.Kill()
					<-done2
					p.AddInconclusive(fmt.Sprintf("scenario %s %s at syscall %d then kill at %d: watchdog", scn, label, idx, j))
					os.RemoveAll(dir2)
					continue
				}
				v2, err := verdict(dir2, "-")
				os.Remove(dir2 + ".results")
				p.Count("fault_then_crash_points", 1)
				p.Count("verifier_runs", 1)
				if err != nil {
					p.AddInconclusive(fmt.Sprintf("scenario %s %s at syscall %d then kill at %d: verifier failed to run: %v", scn, label, idx, j, err))
					os.RemoveAll(dir2)
					continue
				}
				p.AddEvaluations(1)
				p.Seen(fw.HashString(fmt.Sprintf("%s|%d|%s|%d", scn, idx, label, j)), true)
				mu.Lock()
				states[scn+"|"+v2.State] = struct{}{}
				mu.Unlock()
				if len(v2.Problems) > 0 {
					p.AddDeviation(fw.Deviation{Sig: "C18:not-atomic-after-fault-then-crash:" + scn + ":" + s.name, Detail: fmt.Sprintf("scenario %s, %s injected at syscall #%d (%s), then SIGKILL before syscall #%d of the path the process took after the fault (%s): %s\n  directory afterwards: %s", scn, inject, idx, s.name, j, clipS(s2.line, 200), strings.Join(v2.Problems, "; "), v2.State),
						Batch: 9000 + si, Index: -1, Case: json.RawMessage(fmt.Sprintf(`{"scenario":%q,"syscall_index":%d,"syscall":%q,"inject":%q,"then_kill_before":%d}`, scn, idx, s.name, inject, j))})
				}
				os.RemoveAll(dir2)
			}
		}
		for idx, s := range seq {
			wg.Add(1)
			sem <- struct{}{}
			p.Count("crash_points_enumerated", 1)
			go run(idx, s, "signal=KILL", "kill")
			ens := errnos
			if p.Tier != "thorough" && strings.HasPrefix(s.name, "rename") {
				ens = append(append([]string{}, errnos...), "EEXIST", "ENOENT") // what rename itself is documented to say
			}
			for _, en := range ens {
				if s.name == "close" && en != "EIO" {
					continue
				}
				wg.Add(1)
				sem <- struct{}{}
				p.Count("error_injections", 1)
				go run(idx, s, "error="+en, en)
			}
		}
	}
	wg.Wait()
	p.Count("distinct_post_crash_states", int64(len(states)))
	// random-instant kills of a child whose goroutines put continuously (no strace: the kill lands wherever
	// the process happens to be, including inside another goroutine's write). The instant is wall-clock —
	// it only chooses where the crash lands, the verdict is the verifier's.
	trials := 24
	if p.Tier == "thorough" {
		trials = 300
	}
	kr := fw.NewRNG(fw.Mix(p.Seed, fw.HashString("C18-random-kill"), fw.HashString(p.Tier)))
	delays := make([]time.Duration, trials)
	for i := range delays {
		delays[i] = time.Duration(2+kr.Intn(120)) * time.Millisecond
	}
	rkStates := map[string]struct{}{}
	for t := 0; t < trials; t++ {
		t := t
		wg.Add(1)
		sem <- struct{}{}
		go func() {
			defer wg.Done()
			defer func() { <-sem }()
			dir := filepath.Join(p.WorkDir, fmt.Sprintf("rk-%d", t))
			os.MkdirAll(dir, 0o755)
			defer os.RemoveAll(dir)
			cmd := exec.Command(self, "-aux", "fschild", "run", "stress", dir)
			if err := cmd.Start(); err != nil {
				p.AddInconclusive("random kill: cannot start the child: " + err.Error())
				return
			}
			time.Sleep(delays[t])
			cmd.Process.Kill()
			cmd.Wait()
			out, err := exec.Command(self, "-aux", "fsverify", dir, "stress", "-").Output()
			var v c18Verdict
			if err == nil {
				err = json.Unmarshal(bytes.TrimSpace(out), &v)
			}
			if err != nil {
				p.AddInconclusive(fmt.Sprintf("random kill %d: verifier failed to run: %v", t, err))
				return
			}
			p.Count("random_kills", 1)
			p.AddEvaluations(1)
			complete := 0
			for _, st := range v.Keys {
				if st == "complete" {
					complete++
				}
			}
			if strings.Contains(v.State, ".temp/<staging>") {
				p.Count("random_kills_with_staging_file_left", 1)
			}
			if complete > 0 && complete < c18StressKeys {
				p.Count("random_kills_mid_workload", 1)
			}
			mu.Lock()
			rkStates[fmt.Sprintf("%d|%v", complete, strings.Contains(v.State, ".temp/<staging>"))] = struct{}{}
			mu.Unlock()
			p.Seen(fw.HashString(fmt.Sprintf("rk|%d|%d", t, complete)), complete > 0)
			if len(v.Problems) > 0 {
				p.AddDeviation(fw.Deviation{Sig: "C18:not-atomic-after-random-kill", Detail: fmt.Sprintf("6 goroutines putting %d keys continuously, SIGKILL after %v: %s\n  directory afterwards: %s", c18StressKeys, delays[t], strings.Join(v.Problems, "; "), clipS(v.State, 1500)),
					Batch: 9500, Index: t, Case: json.RawMessage(fmt.Sprintf(`{"scenario":"stress","trial":%d,"delay_ms":%d}`, t, delays[t].Milliseconds()))})
			}
		}()
	}
	wg.Wait()
	p.Count("random_kill_distinct_outcomes", int64(len(rkStates)))
	// part 3: concurrent histories in the race build
	p.RunBatches()
	c18ScanRaceLogs(p)
	return nil
}

// c18ParseTrace returns the main thread's file-system syscalls between the markers.
func c18ParseTrace(logf string) ([]c18Sys, error) {
	f, err := os.Open(logf)
	if err != nil {
		return nil, err
	}
	defer f.Close()
	sc := bufio.NewScanner(f)
	sc.Buffer(make([]byte, 1<<20), 16<<20)
	counts := map[string]int{}
	mainTid := ""
	in := false
	var seq []c18Sys
	for sc.Scan() {
		line := sc.Text()
		m := c18LineRe.FindStringSubmatch(line)
		if m == nil {
			continue
		}
		tid, name := m[1], m[2]
		if mainTid == "" {
			mainTid = tid
		}
		if tid != mainTid {
			continue
		}
		if strings.Contains(line, "unfinished") {
			// count at entry
		}
		if strings.Contains(line, "resumed>") {
			continue
		}
		counts[name]++
		if strings.Contains(line, "/VERIF-MARK-BEGIN") {
			in = true
			continue
		}
		if strings.Contains(line, "/VERIF-MARK-END") {
			in = false
			continue
		}
		if in && name != "stat" {
			seq = append(seq, c18Sys{name: name, ordinal: counts[name], line: line})
		}
	}
	return seq, nil
}

// ---------------------------------------------------------------- part 3: concurrent histories (race build)

type c18Op struct {
	Key   string
	Write bool
}

type c18Out struct {
	OK      bool // write: success; read: found complete
	Missing bool // read: not found
	Bad     string
}

var c18Model = porcupine.Model{
	Partition: func(history []porcupine.Operation) [][]porcupine.Operation {
		by := map[string][]porcupine.Operation{}
		for _, o := range history {
			k := o.Input.(c18Op).Key
			by[k] = append(by[k], o)
		}
		var out [][]porcupine.Operation
		for _, v := range by {
			out = append(out, v)
		}
		return out
	},
	Init: func() any { return false },
	Step: func(state, in, out any) (bool, any) {
		present := state.(bool)
		op, res := in.(c18Op), out.(c18Out)
		if op.Write {
			if res.OK {
				return true, true
			}
			return true, present // a failed put leaves the key absent or complete: modelled as no change
		}
		if res.Bad != "" {
			return false, present
		}
		if res.Missing {
			return !present, present
		}
		return present, present
	},
	Equal: func(a, b any) bool { return a.(bool) == b.(bool) },
}

// c18CountdownCtx is a context that reports cancellation from its n-th Err()/Done() consultation on:
// "cancelled midway" at a deterministic point of whatever loop consults it.
type c18CountdownCtx struct {
	n     int64
	calls int64
}

func (c *c18CountdownCtx) hit() bool                   { return atomic.AddInt64(&c.calls, 1) >= c.n }
func (c *c18CountdownCtx) Deadline() (time.Time, bool) { return time.Time{}, false }
func (c *c18CountdownCtx) Value(any) any               { return nil }
func (c *c18CountdownCtx) Err() error {
	if c.hit() {
		return context.Canceled
	}
	return nil
}
func (c *c18CountdownCtx) Done() <-chan struct{} {
	ch := make(chan struct{})
	if c.hit() {
		close(ch)
	}
	return ch
}

// c18Second: two further families of the schedules part. (A) keys that are given two different complete
// contents of different lengths by alternating writers: a read must return one of them in full ("never a
// partial or mixed block"); (B) puts and streaming writes under a context that is cancelled midway — at the
// n-th time anything consults it, for n = 1..16, and from another goroutine at a PRNG-drawn moment: success
// means the key is complete, an error means it is absent or complete.
func c18Second(c *fw.Ctx, rng *fw.RNG) {
	dir, err := os.MkdirTemp("", "verif-c18b-")
	if err != nil {
		c.Inconclusive(err.Error())
		return
	}
	defer os.RemoveAll(dir)
	st, err := c18Open(dir)
	if err != nil {
		c.Inconclusive(err.Error())
		return
	}
	bg := context.Background()
	c.SetCase(func() any { return map[string]any{"family": "two-content keys and cancelled puts"} })
	// ---- (A)
	keys := []string{"m0-aa", "m1-aa"}
	contents := map[string][2][]byte{}
	for _, k := range keys {
		contents[k] = [2][]byte{c18Content(k + "/short"), bytes.Repeat(c18Content(k+"/long"), 9+rng.Intn(8))}
	}
	var wg sync.WaitGroup
	var mu sync.Mutex
	var bad []string
	var reads, hits int64
	stop := int64(0)
	for w := 0; w < 2; w++ {
		wg.Add(1)
		go func(w int) {
			defer wg.Done()
			for n := 0; n < 40; n++ {
				k := keys[(n+w)%len(keys)]
				content := contents[k][(n/2+w)%2]
				if n%3 == 0 {
					wr, commit, err := st.PutStream(bg)
					if err != nil {
						continue
					}
					half := len(content) / 2
					wr.Write(content[:half])
					runtime.Gosched()
					wr.Write(content[half:])
					commit(k)
				} else {
					st.Put(bg, k, content)
				}
			}
			atomic.AddInt64(&stop, 1)
		}(w)
	}
	for r := 0; r < 4; r++ {
		wg.Add(1)
		go func(r int) {
			defer wg.Done()
			for n := 0; atomic.LoadInt64(&stop) < 2 && n < 4000; n++ {
				k := keys[(n+r)%len(keys)]
				var got []byte
				var err error
				if (n+r)%2 == 0 {
					got, err = st.Get(bg, k)
				} else {
					var rc io.ReadCloser
					if rc, err = st.GetStream(bg, k); err == nil {
						got, err = io.ReadAll(rc)
						rc.Close()
					}
				}
				atomic.AddInt64(&reads, 1)
				if err != nil {
					if !os.IsNotExist(err) {
						mu.Lock()
						bad = append(bad, fmt.Sprintf("key %q: read error %v", k, err))
						mu.Unlock()
					}
					continue
				}
				atomic.AddInt64(&hits, 1)
				if !bytes.Equal(got, contents[k][0]) && !bytes.Equal(got, contents[k][1]) {
					mu.Lock()
					bad = append(bad, fmt.Sprintf("key %q: read %d bytes that are neither of the two complete contents (%d and %d bytes)", k, len(got), len(contents[k][0]), len(contents[k][1])))
					mu.Unlock()
				}
			}
		}(r)
	}
	wg.Wait()
	c.Count("two_content_histories", 1)
	c.Count("two_content_reads", reads)
	c.Count("two_content_reads_of_a_block", hits)
	if len(bad) > 0 {
		c.Deviate("C18:partial-or-mixed-read:two-content-key", fmt.Sprintf("%d of %d reads, e.g. %s", len(bad), reads, bad[0]))
	}
	// ---- (B)
	judge := func(what, k string, want []byte, perr error) {
		got, gerr := st.Get(bg, k)
		c.Count("cancelled_puts", 1)
		switch {
		case gerr == nil && bytes.Equal(got, want):
			c.Count("cancelled_put_key_complete", 1)
		case gerr != nil && os.IsNotExist(gerr) && perr != nil:
			c.Count("cancelled_put_key_absent", 1)
		case gerr != nil && os.IsNotExist(gerr):
			c.Deviate("C18:cancelled-put:success-but-absent", fmt.Sprintf("%s returned nil but the key is absent", what))
		default:
			c.Deviate("C18:cancelled-put:partial-block", fmt.Sprintf("%s (returned %v): afterwards Get gives %d bytes, err %v; the complete content is %d bytes", what, perr, len(got), gerr, len(want)))
		}
	}
	big := bytes.Repeat(c18Content("cancel"), 2500) // ≈ 1 MiB
	for n := int64(1); n <= 16; n++ {
		k := fmt.Sprintf("cancel-put-%d", n)
		perr := st.Put(&c18CountdownCtx{n: n}, k, big)
		judge(fmt.Sprintf("Put under a context cancelled at its %d-th consultation", n), k, big, perr)
		k = fmt.Sprintf("cancel-stream-%d", n)
		cctx := &c18CountdownCtx{n: n}
		wr, commit, err := st.PutStream(cctx)
		if err != nil {
			continue
		}
		var werr error
		for lo := 0; lo < len(big) && werr == nil; lo += 100000 {
			hi := lo + 100000
			if hi > len(big) {
				hi = len(big)
			}
			_, werr = wr.Write(big[lo:hi])
		}
		if werr != nil {
			commit("")
			judge("a stream whose Write failed under a cancelled context", k, big, werr)
			continue
		}
		judge(fmt.Sprintf("PutStream+commit under a context cancelled at its %d-th consultation", n), k, big, commit(k))
	}
	for t := 0; t < 6; t++ {
		k := fmt.Sprintf("cancel-async-%d", t)
		ctx, cancel := context.WithCancel(bg)
		spin := rng.Intn(20000)
		go func() {
			for q := 0; q < spin; q++ {
				runtime.Gosched()
			}
			cancel()
		}()
		perr := st.Put(ctx, k, big)
		cancel()
		judge("Put cancelled from another goroutine", k, big, perr)
	}
}

// c18ManyStores: several Store VALUES opened on the same directory (as several processes would have), each
// streaming a different key, their chunk writes interleaved by the harness one at a time — so the schedule is
// decided from the client side and needs no luck: all streams are opened first, then chunks go round-robin or
// in a PRNG-drawn order, commits come in a drawn order, some streams are abandoned. After every commit and at
// the end every key is absent or complete, through each of the Store values and through a freshly opened one.
// (Round-3 seed C18-7: staging files named from a per-Store counter and taken over when the name exists —
// invisible to any number of goroutines sharing ONE Store.)
func c18ManyStores(c *fw.Ctx, rng *fw.RNG) {
	dir, err := os.MkdirTemp("", "verif-c18m-")
	if err != nil {
		c.Inconclusive(err.Error())
		return
	}
	defer os.RemoveAll(dir)
	bg := context.Background()
	n := 2 + rng.Intn(3)
	type stream struct {
		st      *fsstore.Store
		key     string
		content []byte
		w       io.Writer
		commit  func(string) error
		pos     int
		done    bool
		abandon bool
	}
	var streams []*stream
	var log []string
	c.SetCase(func() any { return map[string]any{"family": "several Store values on one directory", "schedule": log} })
	for k := 0; k < n; k++ {
		st, err := c18Open(dir)
		if err != nil {
			c.Inconclusive(err.Error())
			return
		}
		key := fmt.Sprintf("s%d-%s", k, []string{"aa", "aa", "bb"}[rng.Intn(3)])
		content := bytes.Repeat(c18Content(key), 1+rng.Intn(6))
		streams = append(streams, &stream{st: st, key: key, content: content, abandon: rng.Chance(1, 6)})
	}
	check := func(when string) {
		fresh, err := c18Open(dir)
		if err != nil {
			c.Deviate("C18:many-stores:reopen-fails", fmt.Sprintf("%s: a new Store on the directory fails to open: %v", when, err))
			return
		}
		views := []*fsstore.Store{fresh}
		for _, s := range streams {
			views = append(views, s.st)
		}
		for _, s := range streams {
			for vi, v := range views {
				got, gerr := v.Get(bg, s.key)
				c.Count("many_store_reads", 1)
				switch {
				case gerr != nil:
					if has, _ := v.Has(bg, s.key); has {
						c.Deviate("C18:many-stores:has-but-unreadable", fmt.Sprintf("%s: key %q: Has is true but Get fails: %v (view %d)", when, s.key, gerr, vi))
					} else if s.done && !s.abandon {
						c.Deviate("C18:many-stores:committed-key-absent", fmt.Sprintf("%s: key %q was committed without error and is absent (view %d): %v", when, s.key, vi, gerr))
					}
				case !bytes.Equal(got, s.content):
					c.Deviate("C18:many-stores:partial-or-mixed-block", fmt.Sprintf("%s: key %q holds %d bytes that are not its content (%d bytes) — view %d; schedule: %v", when, s.key, len(got), len(s.content), vi, log))
				case !s.done || s.abandon:
					c.Deviate("C18:many-stores:visible-before-commit", fmt.Sprintf("%s: key %q is readable although its stream was not committed (view %d)", when, s.key, vi))
				}
			}
		}
	}
	for _, s := range streams {
		w, commit, err := s.st.PutStream(bg)
		if err != nil {
			c.Deviate("C18:many-stores:putstream-fails", err.Error())
			return
		}
		s.w, s.commit = w, commit
		log = append(log, "open "+s.key)
	}
	c.Count("many_store_histories", 1)
	chunk := []int{1, 7, 64, 500}[rng.Intn(4)]
	for {
		var live []*stream
		for _, s := range streams {
			if !s.done {
				live = append(live, s)
			}
		}
		if len(live) == 0 {
			break
		}
		s := live[rng.Intn(len(live))]
		if s.pos < len(s.content) && !(s.abandon && s.pos > 0 && rng.Chance(1, 3)) {
			end := s.pos + chunk
			if end > len(s.content) {
				end = len(s.content)
			}
			if _, err := s.w.Write(s.content[s.pos:end]); err != nil {
				c.Deviate("C18:many-stores:write-fails", fmt.Sprintf("key %q: %v; schedule: %v", s.key, err, log))
				return
			}
			log = append(log, fmt.Sprintf("write %s[%d:%d]", s.key, s.pos, end))
			s.pos = end
			continue
		}
		k := s.key
		if s.abandon {
			k = ""
		}
		err := s.commit(k)
		s.done = true
		log = append(log, fmt.Sprintf("commit %q -> %v", k, err))
		if err != nil && !s.abandon {
			c.Deviate("C18:many-stores:commit-fails", fmt.Sprintf("key %q: %v; schedule: %v", s.key, err, log))
			return
		}
		check("after " + log[len(log)-1])
	}
	check("at the end")
}

func (c18) RunCase(c *fw.Ctx, rng *fw.RNG, batch, i int) {
	if i%5 == 4 {
		c18Second(c, rng)
		return
	}
	if i%5 == 2 {
		for k := 0; k < 6; k++ {
			c18ManyStores(c, rng)
		}
		return
	}
	dir, err := os.MkdirTemp("", "verif-c18-")
	if err != nil {
		c.Inconclusive(err.Error())
		return
	}
	defer os.RemoveAll(dir)
	st, err := c18Open(dir)
	if err != nil {
		c.Inconclusive(err.Error())
		return
	}
	ctx := context.Background()
	nkeys := 2 + rng.Intn(4)
	keys := make([]string, nkeys)
	for k := range keys {
		// several keys share a shard directory, some do not
		keys[k] = fmt.Sprintf("k%d-%s", k, []string{"aa", "aa", "bb", "cz"}[rng.Intn(4)])
	}
	var clock int64
	var mu sync.Mutex
	var ops []porcupine.Operation
	var overlap int64
	var writing int64
	record := func(client int, in c18Op, f func() c18Out) {
		t0 := atomic.AddInt64(&clock, 1)
		out := f()
		t1 := atomic.AddInt64(&clock, 1)
		mu.Lock()
		ops = append(ops, porcupine.Operation{ClientId: client, Input: in, Call: t0, Output: out, Return: t1})
		mu.Unlock()
	}
	read := func(k string, form int) c18Out {
		if atomic.LoadInt64(&writing) > 0 {
			atomic.AddInt64(&overlap, 1)
		}
		var got []byte
		var err error
		switch form {
		case 0:
			got, err = st.Get(ctx, k)
		case 1:
			var rc io.ReadCloser
			rc, err = st.GetStream(ctx, k)
			if err == nil {
				got, err = io.ReadAll(rc)
				rc.Close()
			}
		default:
			var has bool
			has, err = st.Has(ctx, k)
			if err == nil && !has {
				return c18Out{Missing: true}
			}
			got, err = st.Get(ctx, k)
			if err != nil && has {
				return c18Out{Bad: fmt.Sprintf("Has said present but Get failed: %v", err)}
			}
		}
		if err != nil {
			if os.IsNotExist(err) {
				return c18Out{Missing: true}
			}
			return c18Out{Bad: "read error: " + err.Error()}
		}
		if !bytes.Equal(got, c18Content(k)) {
			return c18Out{Bad: fmt.Sprintf("read %d bytes, complete content is %d bytes", len(got), len(c18Content(k)))}
		}
		return c18Out{OK: true}
	}
	nw, nr := 2+rng.Intn(3), 2+rng.Intn(3)
	seeds := make([]uint64, nw+nr)
	for k := range seeds {
		seeds[k] = rng.U64()
	}
	var wg sync.WaitGroup
	for w := 0; w < nw; w++ {
		wg.Add(1)
		go func(w int) {
			defer wg.Done()
			r := fw.NewRNG(seeds[w])
			for n := 0; n < 6; n++ {
				k := keys[r.Intn(len(keys))]
				content := c18Content(k)
				record(w, c18Op{Key: k, Write: true}, func() c18Out {
					atomic.AddInt64(&writing, 1)
					defer atomic.AddInt64(&writing, -1)
					if r.Bool() {
						return c18Out{OK: st.Put(ctx, k, content) == nil}
					}
					wr, commit, err := st.PutStream(ctx)
					if err != nil {
						return c18Out{}
					}
					chunks := 1 + r.Intn(4)
					for q := 0; q < chunks; q++ {
						lo, hi := q*len(content)/chunks, (q+1)*len(content)/chunks
						if _, err := wr.Write(content[lo:hi]); err != nil {
							commit("")
							return c18Out{}
						}
						// the harness probes the key between chunks: the staging window
						if o := read(k, 0); o.Bad != "" {
							c.Deviate("C18:partial-read-during-write", fmt.Sprintf("while a stream for key %q was half written a read returned: %s", k, o.Bad))
						}
						runtime.Gosched()
					}
					return c18Out{OK: commit(k) == nil}
				})
			}
		}(w)
	}
	for rd := 0; rd < nr; rd++ {
		wg.Add(1)
		go func(rd int) {
			defer wg.Done()
			r := fw.NewRNG(seeds[nw+rd])
			for n := 0; n < 25; n++ {
				k := keys[r.Intn(len(keys))]
				form := r.Intn(3)
				record(nw+rd, c18Op{Key: k, Write: false}, func() c18Out { return read(k, form) })
			}
		}(rd)
	}
	wg.Wait()
	c.Count("concurrent_histories", 1)
	c.Count("history_ops", int64(len(ops)))
	c.Count("reads_overlapping_writes", overlap)
	c.SetCase(func() any {
		return map[string]any{"family": "concurrent history", "writers": nw, "readers": nr, "keys": keys, "ops": len(ops)}
	})
	hh := uint64(len(ops))
	for _, o := range ops {
		out := o.Output.(c18Out)
		if out.Bad != "" {
			c.Deviate("C18:partial-or-mixed-read", fmt.Sprintf("a reader observed for key %q: %s", o.Input.(c18Op).Key, out.Bad))
		}
		hh = fw.Mix(hh, fw.HashString(o.Input.(c18Op).Key), uint64(o.Call), uint64(o.Return))
	}
	res, info := porcupine.CheckOperationsVerbose(c18Model, ops, 20*time.Second)
	switch res {
	case porcupine.Ok:
		c.Count("porcupine_ok", 1)
	case porcupine.Unknown:
		c.Inconclusive("porcupine timed out")
	default:
		_ = info
		var sb strings.Builder
		sort.Slice(ops, func(a, b int) bool { return ops[a].Call < ops[b].Call })
		for _, o := range ops {
			fmt.Fprintf(&sb, "[%d..%d] client %d %+v -> %+v\n", o.Call, o.Return, o.ClientId, o.Input, o.Output)
		}
		c.Deviate("C18:history-not-linearizable", "the recorded history is not linearizable against a write-once register per key (e.g. not-found after a completed put):\n"+clipS(sb.String(), 4000))
	}
	c.Seen(hh, overlap > 0)
	// the directory afterwards: only complete files
	filepath.Walk(dir, func(p string, fi os.FileInfo, err error) error {
		if err != nil || fi.IsDir() || strings.Contains(p, "/.temp/") {
			return nil
		}
		kb, derr := hex.DecodeString(filepath.Base(p))
		got, _ := os.ReadFile(p)
		if derr != nil || !bytes.Equal(got, c18Content(string(kb))) {
			c.Deviate("C18:incomplete-file-after-history", fmt.Sprintf("file %s holds %d bytes which is not the complete content of its key", p, len(got)))
		}
		return nil
	})
}

// c18ScanRaceLogs turns race detector reports of the children into deviations.
func c18ScanRaceLogs(p *fw.Parent) {
	files, _ := filepath.Glob(filepath.Join(p.WorkDir, "race.b*"))
	seen := map[string]bool{}
	for _, f := range files {
		b, err := os.ReadFile(f)
		if err != nil {
			continue
		}
		for _, blk := range strings.Split(string(b), "WARNING: DATA RACE")[1:] {
			p.Count("race_reports", 1)
			key := raceKey(blk)
			if seen[key] {
				continue
			}
			seen[key] = true
			p.AddDeviation(fw.Deviation{Sig: "C18:data-race:" + key, Detail: "race detector report:\nWARNING: DATA RACE" + clipS(blk, 3000), Index: -1})
		}
	}
}

var raceFrameRe = regexp.MustCompile(`(?m)^  ([A-Za-z0-9_./*()\-]+)\(`)

// raceKey de-duplicates race reports by the innermost go-ipld-prime frames of the two accesses.
func raceKey(blk string) string {
	// one recorded class: the write side is bindnode's schema inference accumulating into
	// the process-wide default type system (the reading side varies with what the readers do)
	if strings.Contains(blk, "bindnode.inferSchema") && strings.Contains(blk, "schema.(*TypeSystem).Accumulate") {
		return "bindnode.inferSchema-writes-default-typesystem"
	}
	var frames []string
	for _, part := range strings.Split(blk, "\n\n") {
		for _, m := range raceFrameRe.FindAllStringSubmatch(part, -1) {
			if strings.Contains(m[1], "go-ipld-prime") {
				fn := m[1]
				if i := strings.LastIndex(fn, "/"); i >= 0 {
					fn = fn[i+1:]
				}
				frames = append(frames, fn)
				break
			}
		}
		if len(frames) == 2 {
			break
		}
	}
	sort.Strings(frames)
	if len(frames) == 0 {
		return "unattributed"
	}
	return strings.Join(frames, "+")
}
