package props

import (
	"bytes"
	"fmt"
	"io"
	"math"
	"strconv"

	"github.com/ipld/go-ipld-prime/codec"
	"github.com/ipld/go-ipld-prime/codec/dagjson"
	"github.com/ipld/go-ipld-prime/datamodel"
	"github.com/ipld/go-ipld-prime/multicodec"
	"github.com/ipld/go-ipld-prime/node/basicnode"

	"verif/lib/build"
	"verif/lib/fnode"
	"verif/lib/fw"
	"verif/lib/model"
	"verif/lib/obs"
	refjson "verif/lib/ref/json"
)

// C04 — DAG-JSON round-trips with kinds preserved and is deterministic.
type c04 struct{}

func init() { fw.Register(c04{}) }

func (c04) ID() string { return "C04" }

func (c04) Plan(tier string) fw.Plan {
	p := fw.Plan{
		Batches: 16, Cases: 12000, TimeoutSec: 900, Level: "exploration",
		Rule:        "values in the stated domain (int64 ints, finite floats biased to integral values, ±0, the 1e-6/1e21 formatting cut-offs and 17-digit mantissas; valid-UTF-8 strings and keys with control characters, U+2028/9, BMP-high and astral runes; CIDs; bytes incl. empty; near-reserved shapes such as {\"/\": non-string}, {\"/\": {\"bytes\": non-string}}, two-entry maps with a \"/\" key) built in several insertion orders (all permutations for ≤4 keys in the permutation cases) through basicnode programs and the harness-owned node implementation. Monitors: (1) encodings identical across orders/implementations; (2) an independent reader (encoding/json token stream + DAG-JSON rules) must read the output as the bytewise key-sorted value with identical kinds and see object keys in strictly increasing bytewise order; (3) dagjson.Decode of the output reads out as the same; (4) failed decodes interleaved before decodes must not influence them. Non-trivial: value has a multi-key map, a float, a link or bytes; distinct by canonical hash.",
		Assumptions: []string{"encoding/json is trusted as tokenizer of the output", "go-cid is trusted for the CID string form"},
		MinEvents:   []string{"encodes", "decodes", "ref_reads", "permutation_cases", "near_reserved_cases", "failed_decodes_interleaved", "floats_checked"},
	}
	if tier == "thorough" {
		p.Batches, p.Cases, p.TimeoutSec = 64, 16000, 3000
	}
	return p
}

var c04Opts = model.GenOpts{MaxDepth: 4, MaxWidth: 6, Links: true, AvoidJSONReserved: true}

var c04Keys = []string{"/", "bytes", "Ａ", "😀", "", "𐀀", "￿", "퟿", "a", "b", "~", "\u007f", "\u0080", " ", "\"", "\\", "\u0000", "\n", "é"}

func c04NearReserved(r *fw.RNG) model.Val {
	inner := model.Gen(r, model.GenOpts{MaxDepth: 2, MaxWidth: 3, Links: true, AvoidJSONReserved: true})
	str := model.String(model.GenString(r, false))
	switch r.Intn(11) {
	case 8: // the exact bytes shape under "/", but the outer map has further entries (before and/or after "/")
		es := []model.Entry{model.E("/", model.Map(model.E("bytes", str)))}
		if r.Bool() {
			es = append(es, model.E([]string{"z", "0", "a", "~", "bytes"}[r.Intn(5)], inner))
		}
		if r.Bool() || len(es) == 1 {
			es = append(es, model.E([]string{"!", "#", " ", "", "."}[r.Intn(5)], model.GenScalar(r, model.GenOpts{Links: true})))
		}
		if r.Bool() {
			es[0], es[len(es)-1] = es[len(es)-1], es[0]
		}
		return model.Val{K: model.KMap, M: es}
	case 9: // a link-shaped string under "/" with further entries after it
		return model.Map(model.E("/", model.String("bafkqaaa")), model.E("zz", inner), model.E("zzz", str))
	case 10: // the exact bytes shape one level down inside a multi-entry map, followed by more entries
		return model.Map(model.E("a", model.Map(model.E("/", model.Map(model.E("bytes", str))), model.E("b", inner), model.E("c", str))), model.E("b", model.List(inner, str)))
	case 0: // "/" mapped to a non-string
		for inner.K == model.KString {
			inner = model.Int(1)
		}
		return model.Map(model.E("/", inner))
	case 1: // {"/": {"bytes": non-string}}
		for inner.K == model.KString {
			inner = model.List(model.String("x"), model.String("y"))
		}
		return model.Map(model.E("/", model.Map(model.E("bytes", inner))))
	case 2: // {"/": {"bytes": [..strings..]}}
		n := r.Intn(4)
		xs := make([]model.Val, n)
		for i := range xs {
			xs[i] = model.String(model.GenString(r, false))
		}
		return model.Map(model.E("/", model.Map(model.E("bytes", model.Val{K: model.KList, L: xs}))))
	case 3: // two entries, one of them "/" with a string
		return model.Map(model.E("/", str), model.E(model.GenString(r, false)+"k", inner))
	case 4: // {"/": {"bytes": "str", "more": ...}}
		return model.Map(model.E("/", model.Map(model.E("bytes", str), model.E("more", inner))))
	case 5: // {"/": {"other": "str"}}
		return model.Map(model.E("/", model.Map(model.E("byte", str))))
	case 6: // nested inside a list
		return model.List(model.Map(model.E("/", model.Map(model.E("bytes", model.Map())))), model.Map(model.E("/", model.Null())))
	default: // {"/": {"bytes": {"/": ...}}}
		return model.Map(model.E("/", model.Map(model.E("bytes", model.Map(model.E("/", model.Int(0)))))))
	}
}

func c04KeyMap(r *fw.RNG) model.Val {
	n := 2 + r.Intn(3)
	p := r.Perm(len(c04Keys))
	es := make([]model.Entry, n)
	for i := range es {
		es[i] = model.E(c04Keys[p[i]], model.GenScalar(r, model.GenOpts{Links: true}))
	}
	v := model.Val{K: model.KMap, M: es}
	return v
}

var c04BadDocs = []string{`{"/":"notacid"}`, `{"/":{"bytes":"!!!"}}`, `{"a":[1,2`, `{"/":"bafkqaaa","x":1}`, `[{"/":{"bytes":"AA=="}}]`, `{"a":{"/":"zzzz"}}`, `{"/":{"bytes":5}}x`, `tru`, `{"a":1}}`}

func (c04) RunCase(c *fw.Ctx, rng *fw.RNG, batch, i int) {
	var v model.Val
	mode := "random"
	switch {
	case i%7 == 0:
		mode = "near-reserved"
		v = c04NearReserved(rng)
		if model.IsJSONReserved(v) {
			return
		}
		c.Count("near_reserved_cases", 1)
	case i%5 == 0:
		mode = "perm"
		v = c04KeyMap(rng)
		if model.IsJSONReserved(v) {
			return
		}
		c.Count("permutation_cases", 1)
	case i%11 == 0:
		mode = "float"
		v = model.List(model.GenFloat(rng, false), model.GenFloat(rng, false), model.Map(model.E("f", model.GenFloat(rng, false))))
	default:
		v = model.Gen(rng, c04Opts)
	}
	c04CheckValue(c, rng, v, mode, i)
}

// c04CheckValue runs every C04 monitor on one value of the property's domain (also called by the corpus
// replay and the fuzz target, which obtain their values from decoded DAG-JSON text).
func c04CheckValue(c *fw.Ctx, rng *fw.RNG, v model.Val, mode string, i int) {
	reserved := false
	v.Walk(func(x model.Val) {
		if model.IsJSONReserved(x) {
			reserved = true
		}
	})
	if reserved {
		return
	}
	st := v.Stats()
	c.SetCase(func() any { return map[string]any{"mode": mode, "value": v.Dump()} })
	c.Seen(v.Hash(), st.MultiKeyMaps > 0 || st.Floats > 0 || st.Links > 0 || v.K == model.KBytes)
	sorted := model.SortKeys(v, model.BytewiseLess)

	// failed encodes before the real ones: an encode that fails midway (a value the codec refuses late in a
	// list or map, a writer that fails) must leave nothing behind that changes a later encode (round-3 seed
	// C04-9: a pooled encoder handed back dirty).
	if i%3 == 0 {
		c04FailedEncodes(c, rng)
	}
	// canonical text: encoding of the plainly built, sorted value
	canonNode, err := build.Plain(basicnode.Prototype.Any, sorted)
	if err != nil {
		c.Deviate("C04:build-error", err.Error())
		return
	}
	var canon bytes.Buffer
	if c.Guard("C04:encode", func() { err = dagjson.Encode(canonNode, &canon) }) {
		return
	}
	c.Count("encodes", 1)
	if err != nil {
		c.Deviate("C04:encode-error:"+errClass(err), fmt.Sprintf("Encode failed: %v", err))
		return
	}
	if c.WantSample() && st.Nodes > 3 && st.Nodes < 25 {
		c.Sample(map[string]any{"value": v.Dump(), "dagjson": canon.String()})
	}

	var variants []model.Val
	if mode == "perm" {
		permutations(len(v.M), func(p []int) {
			es := make([]model.Entry, len(p))
			for k, j := range p {
				es[k] = v.M[j]
			}
			variants = append(variants, model.Val{K: model.KMap, M: es})
		})
	} else {
		variants = append(variants, v)
		if st.MultiKeyMaps > 0 {
			variants = append(variants, model.Permute(v, rng.Perm), reverseKeys(sorted))
		}
	}
	enc := func(label string, n datamodel.Node) {
		var buf bytes.Buffer
		var err error
		if c.Guard("C04:encode", func() { err = dagjson.Encode(n, &buf) }) {
			return
		}
		c.Count("encodes", 1)
		if err != nil {
			c.Deviate("C04:encode-error:"+errClass(err), fmt.Sprintf("%s: Encode failed: %v", label, err))
			return
		}
		if !bytes.Equal(buf.Bytes(), canon.Bytes()) {
			c.Deviate("C04:encoding-not-a-function-of-value", fmt.Sprintf("%s encodes as\n %s\nthe same value in sorted insertion order encodes as\n %s", label, clipS(buf.String(), 500), clipS(canon.String(), 500)))
		}
	}
	for vi, vv := range variants {
		if vi == 1 && i%3 == 1 {
			c04FailedEncodes(c, rng)
		}
		if n, err := build.With(basicnode.Prototype.Any, vv, &build.Prog{R: rng.Fork()}); err == nil {
			enc(fmt.Sprintf("basicnode variant %d", vi), n)
		}
		enc(fmt.Sprintf("foreign-node variant %d", vi), fnode.New(vv))
	}
	if i%16 == 0 {
		if e, err := multicodec.LookupEncoder(0x0129); err == nil {
			var buf bytes.Buffer
			if err := e(fnode.New(v), &buf); err != nil || !bytes.Equal(buf.Bytes(), canon.Bytes()) {
				c.Deviate("C04:registry-encoder", fmt.Sprintf("registry encoder 0x0129: err=%v text=%s", err, clipS(buf.String(), 300)))
			}
		}
	}

	// float classification for the known finding
	integralFloat, hugeIntegralFloat := false, false
	v.Walk(func(x model.Val) {
		if x.K == model.KFloat {
			c.Count("floats_checked", 1)
			if x.F == math.Trunc(x.F) && math.Abs(x.F) < 1e21 {
				integralFloat = true
				if math.Abs(x.F) >= 1<<63 {
					hugeIntegralFloat = true
				}
			}
		}
	})
	floatSig := func(sig string, got model.Val) string {
		// the one recorded deviation: an integral float written without '.'/exponent
		if integralFloat && model.Equal(floatsIntegralToInt(sorted), got) {
			return "C04:float-integral-decodes-as-int"
		}
		return sig
	}

	// (2) independent reader
	res, rerr := refjson.Decode(canon.Bytes())
	c.Count("ref_reads", 1)
	if rerr != nil {
		sig := "C04:output-not-readable:" + errClass(rerr)
		if hugeIntegralFloat {
			sig = "C04:float-integral-beyond-int64-undecodable"
		}
		c.Deviate(sig, fmt.Sprintf("the output is not readable as DAG-JSON by the reference reader: %v\n text: %s", rerr, clipS(canon.String(), 400)))
	} else {
		if res.UnsortedObject != "" {
			c.Deviate("C04:keys-not-bytewise-sorted", fmt.Sprintf("object keys are not in bytewise order: %s\n text: %s", res.UnsortedObject, clipS(canon.String(), 400)))
		}
		if !model.Equal(res.Val, sorted) {
			c.Deviate(floatSig("C04:output-denotes-other-value:"+kindPairDeep(res.Val, sorted), res.Val), fmt.Sprintf("the output text\n %s\ndenotes %s\nbut the encoded value is %s", clipS(canon.String(), 400), res.Val.Dump(), sorted.Dump()))
		}
	}
	// (4) failed decodes before the real one
	if rng.Chance(1, 3) {
		for k := 0; k < 1+rng.Intn(2); k++ {
			doc := c04BadDocs[rng.Intn(len(c04BadDocs))]
			var proto datamodel.NodePrototype = basicnode.Prototype.Any
			if rng.Chance(1, 3) {
				proto = basicnode.Prototype.Int
			}
			c.Guard("C04:decode-bad-doc", func() { dagjson.Decode(proto.NewBuilder(), bytes.NewReader([]byte(doc))) })
			c.Count("failed_decodes_interleaved", 1)
		}
	}
	// (3) library decoder
	nb := basicnode.Prototype.Any.NewBuilder()
	var derr error
	if c.Guard("C04:decode", func() { derr = dagjson.Decode(nb, bytes.NewReader(canon.Bytes())) }) {
		return
	}
	c.Count("decodes", 1)
	if derr != nil {
		sig := "C04:decode-of-own-output-fails:" + errClass(derr)
		if hugeIntegralFloat {
			sig = "C04:float-integral-beyond-int64-undecodable"
		}
		c.Deviate(sig, fmt.Sprintf("Decode of the encoder's own output failed: %v\n text: %s\n value: %s", derr, clipS(canon.String(), 400), sorted.Dump()))
		return
	}
	ro := obs.ReadOut(nb.Build(), obs.Options{Light: st.Nodes > 2000})
	if !model.Equal(ro.Val, sorted) {
		c.Deviate(floatSig("C04:roundtrip-differs:"+kindPairDeep(ro.Val, sorted), ro.Val), fmt.Sprintf("round trip returned %s\n for the value      %s\n text: %s", ro.Val.Dump(), sorted.Dump(), clipS(canon.String(), 400)))
	} else if len(ro.Issues) > 0 {
		c.Deviate("C04:decoded-node-inconsistent:"+ro.Issues[0].Sig, ro.FirstIssue())
	}
}

// floatsIntegralToInt maps every integral float that fits int64 to the equal
// integer (the recorded shape of the known finding).
func floatsIntegralToInt(v model.Val) model.Val {
	switch v.K {
	case model.KFloat:
		if v.F == math.Trunc(v.F) && math.Abs(v.F) < 1e21 {
			// the digits the encoder writes (shortest round-trip digits, zero padded)
			s := strconv.FormatFloat(v.F, 'f', -1, 64)
			if i, err := strconv.ParseInt(s, 10, 64); err == nil {
				return model.Int(i)
			}
			if u, err := strconv.ParseUint(s, 10, 64); err == nil {
				return model.Uint(u)
			}
		}
	case model.KList:
		out := make([]model.Val, len(v.L))
		for i := range v.L {
			out[i] = floatsIntegralToInt(v.L[i])
		}
		return model.Val{K: model.KList, L: out}
	case model.KMap:
		out := make([]model.Entry, len(v.M))
		for i := range v.M {
			out[i] = model.Entry{K: v.M[i].K, V: floatsIntegralToInt(v.M[i].V)}
		}
		return model.Val{K: model.KMap, M: out}
	}
	return v
}

// kindPairDeep names the first differing kinds of two values.
func kindPairDeep(got, want model.Val) string {
	if got.K != want.K {
		return got.K.String() + "-for-" + want.K.String()
	}
	switch want.K {
	case model.KList:
		for i := range want.L {
			if i >= len(got.L) {
				return "list-length"
			}
			if !model.Equal(got.L[i], want.L[i]) {
				return kindPairDeep(got.L[i], want.L[i])
			}
		}
		return "list-length"
	case model.KMap:
		for i := range want.M {
			if i >= len(got.M) {
				return "map-length"
			}
			if got.M[i].K != want.M[i].K {
				return "map-key"
			}
			if !model.Equal(got.M[i].V, want.M[i].V) {
				return kindPairDeep(got.M[i].V, want.M[i].V)
			}
		}
		return "map-length"
	}
	return want.K.String() + "-value"
}

// c04FailedEncodes runs one to three encodes that must fail: NaN / an infinity late in a list or map (DAG-JSON
// cannot express them), through the package-level Encode, the registry's encoder and EncodeOptions, some into
// a writer that fails after k bytes.
func c04FailedEncodes(c *fw.Ctx, rng *fw.RNG) {
	for k := 0; k < 1+rng.Intn(3); k++ {
		bad := model.Float(math.NaN())
		if rng.Bool() {
			bad = model.Float(math.Inf(1 - 2*rng.Intn(2)))
		}
		var v model.Val
		switch rng.Intn(4) {
		case 0:
			v = model.List(model.Float(1.5), bad)
		case 1:
			v = model.List(model.Int(1), model.Map(model.E("a", model.String("x")), model.E("b", bad)), model.Int(3))
		case 2:
			v = model.Map(model.E("a", model.List(model.Int(1), model.Int(2))), model.E("b", model.Map(model.E("c", bad))))
		default:
			v = model.List(model.List(model.List(model.String("deep"), bad)))
		}
		n := fnode.New(v)
		var err error
		var w io.Writer = &bytes.Buffer{}
		if rng.Chance(1, 3) {
			w = &failAfterWriter{left: rng.Intn(12)}
		}
		switch rng.Intn(3) {
		case 0:
			c.Guard("C04:encode-failing", func() { err = dagjson.Encode(n, w) })
		case 1:
			if e, lerr := multicodec.LookupEncoder(0x0129); lerr == nil {
				c.Guard("C04:encode-failing", func() { err = e(n, w) })
			} else {
				err = lerr
			}
		default:
			c.Guard("C04:encode-failing", func() {
				err = dagjson.EncodeOptions{EncodeLinks: true, EncodeBytes: true, MapSortMode: codec.MapSortMode_Lexical}.Encode(n, w)
			})
		}
		c.Count("failed_encodes_interleaved", 1)
		if err == nil {
			c.Deviate("C04:encode-accepts-nonfinite-float", fmt.Sprintf("Encode of %s returned no error", v.Dump()))
		}
	}
}

type failAfterWriter struct{ left int }

func (w *failAfterWriter) Write(p []byte) (int, error) {
	if len(p) <= w.left {
		w.left -= len(p)
		return len(p), nil
	}
	n := w.left
	w.left = 0
	return n, fmt.Errorf("injected write failure")
}
