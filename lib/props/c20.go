package props

import (
	"bytes"
	"context"
	"errors"
	"fmt"
	"github.com/ipld/go-ipld-prime/storage/fsstore"
	"io"
	"os"
	"os/exec"
	"path/filepath"
	"runtime"
	"strings"
	"sync"
	"sync/atomic"
	"verif/lib/schemagen"
	"verif/lib/typedmon"

	cid "github.com/ipfs/go-cid"
	"github.com/ipld/go-ipld-prime/codec/dagcbor"
	"github.com/ipld/go-ipld-prime/codec/dagjson"
	"github.com/ipld/go-ipld-prime/datamodel"
	"github.com/ipld/go-ipld-prime/linking"
	cidlink "github.com/ipld/go-ipld-prime/linking/cid"
	"github.com/ipld/go-ipld-prime/multicodec"
	"github.com/ipld/go-ipld-prime/node/basicnode"
	"github.com/ipld/go-ipld-prime/node/bindnode"
	"github.com/ipld/go-ipld-prime/node/gendemo"
	"github.com/ipld/go-ipld-prime/schema"
	"github.com/ipld/go-ipld-prime/storage/memstore"
	"github.com/ipld/go-ipld-prime/traversal"
	"github.com/ipld/go-ipld-prime/traversal/selector"
	"github.com/ipld/go-ipld-prime/traversal/selector/builder"

	"verif/lib/build"
	"verif/lib/fnode"
	"verif/lib/fw"
	"verif/lib/graphgen"
	"verif/lib/model"
	"verif/lib/obs"
	refcbor "verif/lib/ref/cbor"
	"verif/lib/selgen"
)

// C20 — shared immutable objects are safe to use from many goroutines.
type c20 struct{}

func init() {
	fw.Register(c20{})
	// separate process: first-time inference of new Go types while others read (known finding);
	// a fatal "concurrent map read and map write" there must not take a batch down with it
	fw.RegisterAux("c20probe", func([]string) int { c20InferenceProbe(); return 0 })
}

func (c20) ID() string { return "C20" }

func (c20) Plan(tier string) fw.Plan {
	p := fw.Plan{
		Batches: 8, Cases: 16, Race: true, TimeoutSec: 1500, Level: "exploration",
		Rule:        "race-detector build. One case = one pool of shared objects (basicnode trees; bindnode typed and representation views of wrapped Go values with explicit and inferred schemas; generated-code typed and representation nodes; decoded nodes; subset matches incl. stream-backed bytes; compiled selectors; type systems and typed prototypes; the default multicodec registry; a LinkSystem over a pre-filled read-only memstore; one shared *traversal.Config with nil defaults) whose per-operation result digests are computed sequentially first; then G ∈ {4,16,64} goroutines each run a seeded sequence of read-only operations on the SHARED objects (full read-out, DeepEqual, Copy into a fresh builder, encode with each codec, WalkAdv/WalkMatching with the shared selector and config, Load/LoadRaw/ComputeLink through the shared link system, bindnode.Wrap/Prototype with explicit and (already inferred) inferred schemas, NewBuilder from shared prototypes then build) under varying GOMAXPROCS; every goroutine's digests must equal the sequential ones; race reports (halt_on_error=0, log files) are de-duplicated by the innermost go-ipld-prime frames of both accesses and each distinct one is a violation; a fatal 'concurrent map' death is a violation. An atomic table counts which operation kinds were in flight on the same object at the same time. Non-trivial: a run with ≥20 distinct overlapping operation pairs; distinct by pool hash.",
		Assumptions: []string{"the race detector only reports races that occur in an execution it watches", "first-time schema inference for a new Go type while other goroutines use inferred-schema nodes is probed separately (known finding, see known_findings.json)"},
		MinEvents:   []string{"concurrent_ops", "distinct_overlapping_pairs", "digest_comparisons", "op:readout", "op:walk", "op:load", "op:bind", "op:encode", "op:build", "goroutines_started"},
	}
	if tier == "thorough" {
		p.Batches, p.Cases, p.TimeoutSec = 32, 60, 3300
	}
	return p
}

type c20Inferred struct {
	Name  string
	Count int64
	Tags  []string
}

type c20Op struct {
	kind string
	obj  int
	f    func() uint64 // returns a digest of the result
}

type c20Pool struct {
	ops     []c20Op
	want    []uint64
	lazyObj int
	// freshObj: a type system nobody has touched before the concurrent phase (-1: none)
	freshObj int
}

func digestVal(v model.Val, issues []obs.Issue) uint64 {
	h := v.Hash()
	for _, is := range issues {
		h = fw.Mix(h, fw.HashString(is.Sig))
	}
	return h
}

func digestNode(n datamodel.Node, typed bool) uint64 {
	ro := obs.ReadOut(n, obs.Options{Typed: typed})
	return digestVal(ro.Val, ro.Issues)
}

func c20Build(rng *fw.RNG) *c20Pool {
	c12Init()
	c11Init()
	p := &c20Pool{}
	objN := 0
	poolCfg := &traversal.Config{}
	add := func(kind string, obj int, f func() uint64) { p.ops = append(p.ops, c20Op{kind, obj, f}) }
	nodeOps := func(n datamodel.Node, typed bool) {
		obj := objN
		objN++
		add("readout", obj, func() uint64 { return digestNode(n, typed) })
		add("deepequal", obj, func() uint64 {
			if datamodel.DeepEqual(n, n) {
				return 1
			}
			return 0
		})
		add("copy", obj, func() uint64 {
			nb := basicnode.Prototype.Any.NewBuilder()
			if err := datamodel.Copy(n, nb); err != nil {
				return fw.HashString("copy-error")
			}
			return digestNode(nb.Build(), false)
		})
		add("encode", obj, func() uint64 {
			var b1, b2 bytes.Buffer
			e1 := dagcbor.Encode(n, &b1)
			e2 := dagjson.Encode(n, &b2)
			return fw.Mix(fw.HashString(b1.String()), fw.HashString(b2.String()), fw.HashString(fmt.Sprint(e1 != nil, e2 != nil)))
		})
		add("walk", obj, func() uint64 {
			h := uint64(0)
			cfgShared := poolCfg
			traversal.Progress{Cfg: cfgShared}.WalkAdv(n, c11ExploreAll, func(pg traversal.Progress, x datamodel.Node, r traversal.VisitReason) error {
				h = fw.Mix(h, fw.HashString(pg.Path.String()), uint64(x.Kind()), uint64(r))
				return nil
			})
			return h
		})
	}
	// basicnode trees
	for k := 0; k < 3; k++ {
		v := model.Gen(rng, model.GenOpts{MaxDepth: 4, MaxWidth: 6, Uint: true, NonUTF8: true, Links: true})
		if n, err := build.With(basicnode.Prototype.Any, v, &build.Prog{R: rng.Fork()}); err == nil {
			nodeOps(n, false)
		}
		// decoded
		nb := basicnode.Prototype.Any.NewBuilder()
		if dagcbor.Decode(nb, bytes.NewReader(refcbor.Encode(v))) == nil {
			nodeOps(nb.Build(), false)
		}
		// produced by datamodel.Copy into a builder that keeps what it is given (integers above MaxInt64 travel
		// as nodes there): whatever Copy hands over ends up inside this shared node (round-4 seed C20-10: a
		// hand-over flag that lives in the finished node and is toggled by every later Copy of it)
		cb := basicnode.Prototype.Any.NewBuilder()
		withBig := model.List(v, model.Uint(1<<63+uint64(rng.Intn(1000))), model.Map(model.E("u", model.Uint(1<<64-1))))
		if src, err := build.With(basicnode.Prototype.Any, withBig, &build.Prog{R: rng.Fork()}); err == nil && datamodel.Copy(src, cb) == nil {
			nodeOps(cb.Build(), false)
		}
		// ... and the scalar itself copied at top level (only there does Copy, not AssignNode, hand it over)
		cb2 := basicnode.Prototype.Any.NewBuilder()
		if datamodel.Copy(basicnode.NewUint(1<<63+uint64(rng.Intn(1000))), cb2) == nil {
			nodeOps(cb2.Build(), false)
		}
	}
	// bindnode: explicit schema, wrapped Go value (typed + repr views)
	g := &c05Struct{A: int64(rng.Intn(1000)), B: model.GenString(rng, false)}
	for _, tn := range []string{"Renamed", "Tuple"} {
		tn := tn
		w := bindnode.Wrap(g, c05TS.TypeByName(tn))
		nodeOps(w, true)
		nodeOps(w.Representation(), true)
	}
	// bindnode typed map built through its prototype
	if n, err := build.Plain(c12Targets[7].proto, c12GenMapMsg3(rng)); err == nil {
		nodeOps(n, true)
		if tn, ok := n.(schema.TypedNode); ok {
			nodeOps(tn.Representation(), true)
		}
	}
	// bindnode unions (keyed and stringprefix) and a hand-built map value
	c20Init()
	one, str := int64(41), "forty-one"
	for _, gv := range []*c20Union{{Int: &one}, {String: &str}} {
		w := bindnode.Wrap(gv, c20TS.TypeByName("UKeyed"))
		nodeOps(w, true)
		nodeOps(w.Representation(), true)
	}
	for _, gv := range []*c20Union2{{String: &str}, {Str2: &str}} {
		w := bindnode.Wrap(gv, c20TS.TypeByName("UPrefix"))
		nodeOps(w, true)
		nodeOps(w.Representation(), true)
	}
	hm := &c20Map{Values: map[string]int64{"b": 2, "a": 1, "c": 3}}
	if rng.Bool() {
		hm.Keys = []string{"b", "a", "c"}
	}
	p.lazyObj = objN // an object that a lazily completing implementation would write on first read
	nodeOps(bindnode.Wrap(hm, c20TS.TypeByName("MapSI")), true)
	// bindnode inferred schema (inferred here, sequentially, before the goroutines start)
	inf := &c20Inferred{Name: "n", Count: 3, Tags: []string{"a", "b"}}
	nodeOps(bindnode.Wrap(inf, nil), true)
	// generated code
	if n, err := build.Plain(gendemo.Type.Map__String__Msg3, c12GenMapMsg3(rng)); err == nil {
		nodeOps(n, true)
		if tn, ok := n.(schema.TypedNode); ok {
			nodeOps(tn.Representation(), true)
		}
	}
	// subset matches (string, bytes, stream-backed bytes)
	for _, src := range []datamodel.Node{basicnode.NewString("0123456789abcdef"), basicnode.NewBytes(rng.Bytes(32)), basicnode.NewBytesFromReader(bytes.NewReader(rng.Bytes(32)))} {
		ssb := builder.NewSelectorSpecBuilder(basicnode.Prototype.Any)
		sel, _ := ssb.MatcherSubset(2, 9).Selector()
		traversal.WalkMatching(src, sel, func(_ traversal.Progress, m datamodel.Node) error {
			if _, isStream := src.(datamodel.LargeBytesNode); isStream && src.Kind() == datamodel.Kind_Bytes {
				if _, plain := m.(interface{ Len() int }); !plain {
					// stream-backed: concurrent readers share the user's reader — only a sequential op
					return nil
				}
			}
			nodeOps(m, false)
			return nil
		})
	}
	// link system over a read-only store + graph walks with shared selectors
	gr := graphgen.Gen(rng, graphgen.Opts{MaxBlocks: 6, MaxDepth: 3, MaxWidth: 4, RawBlocks: true})
	ms := &memstore.Store{Bag: map[string][]byte{}}
	for l, b := range gr.Blocks {
		ms.Bag[l] = b
	}
	lsys := cidlink.DefaultLinkSystem()
	lsys.SetReadStorage(ms)
	// every other pool keeps the same blocks in a filesystem store that is only read from here on
	if rng.Bool() {
		if dir, err := os.MkdirTemp("", "verif-c20-fs-"); err == nil {
			c20TempDirs = append(c20TempDirs, dir)
			fs := &fsstore.Store{}
			if fs.InitDefaults(dir) == nil {
				ok := true
				for l, b := range gr.Blocks {
					if fs.Put(context.Background(), l, b) != nil {
						ok = false
					}
				}
				if ok {
					lsys.SetReadStorage(fs)
					c20FSPools++
				}
			}
		}
	}
	cfg := &traversal.Config{LinkSystem: lsys, LinkTargetNodePrototypeChooser: func(datamodel.Link, linking.LinkContext) (datamodel.NodePrototype, error) {
		return basicnode.Prototype.Any, nil
	}}
	rootNode, _ := build.Plain(basicnode.Prototype.Any, gr.Root)
	for k := 0; k < 3; k++ {
		s := selgen.Gen(rng, selgen.Opts{MaxDepth: 4, Keys: gr.Keys, MaxIndex: 4, Links: gr.Links()})
		sel, err := selector.CompileSelector(fnode.New(s.Spec()))
		if err != nil {
			continue
		}
		obj := objN
		objN++
		add("walk", obj, func() uint64 {
			h := uint64(0)
			traversal.Progress{Cfg: cfg}.WalkAdv(rootNode, sel, func(pg traversal.Progress, x datamodel.Node, r traversal.VisitReason) error {
				h = fw.Mix(h, fw.HashString(pg.Path.String()), uint64(x.Kind()), uint64(r))
				return nil
			})
			traversal.Progress{Cfg: cfg}.WalkMatching(rootNode, sel, func(pg traversal.Progress, x datamodel.Node) error {
				h = fw.Mix(h, fw.HashString(pg.Path.String()))
				return nil
			})
			return h
		})
	}
	for _, l := range gr.Links() {
		l := l
		cc, _ := cid.Cast([]byte(l))
		lnk := cidlink.Link{Cid: cc}
		obj := objN
		objN++
		// a load whose decode FAILS (a prototype that refuses the block's kind): the rest of the block is drained
		// into the hasher and the decoder's error — not a hash mismatch — comes back, also when several such
		// loads run at once (round-4 seed C20-11: the drain going through one process-wide buffer)
		add("load", obj, func() uint64 {
			var rej datamodel.NodePrototype = basicnode.Prototype.String
			if raw, _ := lsys.LoadRaw(linking.LinkContext{}, lnk); len(raw) > 0 && raw[0]>>5 == 3 {
				rej = basicnode.Prototype.Int
			}
			_, err := lsys.Load(linking.LinkContext{}, lnk, rej)
			var hm linking.ErrHashMismatch
			return fw.HashString(fmt.Sprint(err == nil, errors.As(err, &hm)))
		})
		add("load", obj, func() uint64 {
			n, err := lsys.Load(linking.LinkContext{}, lnk, basicnode.Prototype.Any)
			if err != nil {
				return fw.HashString("load-error")
			}
			raw, _ := lsys.LoadRaw(linking.LinkContext{}, lnk)
			l2, _ := lsys.ComputeLink(lnk.Prototype(), n)
			return fw.Mix(digestNode(n, false), fw.HashString(string(raw)), fw.HashString(l2.Binary()))
		})
	}
	// a FRESH type system: built here, never used before the goroutines run (in cold mode), and then bound by all
	// of them at once — bindnode.Prototype(nil, T) for every type, an inhabitant built and read at both levels,
	// the schema types' own accessors. State that a schema type, the type system or the binding machinery fills
	// lazily on first use is written concurrently here and nowhere else (round-3 seeds C20-8: union members
	// cached inside the shared type on first call; C20-9: a process-wide Go-type inference memo whose
	// in-progress marker doubles as the cycle detector — no data race, a spurious panic).
	p.freshObj = -1
	if fts := schemagen.Gen(rng, schemagen.Opts{Types: 5 + rng.Intn(4)}); fts != nil {
		if lib, err := schemagen.ToLibrary(fts); err == nil {
			type inh struct {
				name string
				rv   model.Val
			}
			var ins []inh
			for _, t := range fts.Types {
				if t.Name[0] != 'T' {
					continue
				}
				tv := schemagen.GenValue(rng, fts, t, 0)
				if rv, err := fts.ReprOf(t, tv); err == nil {
					ins = append(ins, inh{t.Name, rv})
				}
			}
			fobj := objN
			objN++
			p.freshObj = fobj
			add("bind", fobj, func() uint64 {
				h := uint64(0)
				for _, in := range ins {
					func() {
						defer func() {
							if r := recover(); r != nil {
								h = fw.Mix(h, fw.HashString(fmt.Sprint("panic: ", r)))
							}
						}()
						typ := lib.TypeByName(in.name)
						pr := bindnode.Prototype(nil, typ)
						o := typedmon.Feed(pr.Representation(), in.rv)
						if !o.Accepted {
							h = fw.Mix(h, fw.HashString("rejected:"+in.name))
							return
						}
						h = fw.Mix(h, digestNode(o.Node, true), digestNode(typedmon.Repr(o.Node), true))
						switch tt := typ.(type) {
						case *schema.TypeUnion:
							for _, m := range tt.Members() {
								h = fw.Mix(h, fw.HashString(string(m.Name())))
							}
						case *schema.TypeStruct:
							for _, f := range tt.Fields() {
								h = fw.Mix(h, fw.HashString(f.Name()), fw.HashString(string(f.Type().Name())))
							}
						case *schema.TypeMap:
							h = fw.Mix(h, fw.HashString(string(tt.KeyType().Name())), fw.HashString(string(tt.ValueType().Name())))
						case *schema.TypeList:
							h = fw.Mix(h, fw.HashString(string(tt.ValueType().Name())))
						}
					}()
				}
				return h
			})
		}
	}
	// bindings and builders from shared prototypes / types / registry
	obj := objN
	objN++
	add("bind", obj, func() uint64 {
		g2 := &c05Struct{A: 7, B: "seven"}
		h := digestNode(bindnode.Wrap(g2, c05TS.TypeByName("Renamed")).Representation(), true)
		pr := bindnode.Prototype((*c05Struct)(nil), c05TS.TypeByName("Tuple"))
		nb := pr.Representation().NewBuilder()
		la, _ := nb.BeginList(2)
		la.AssembleValue().AssignInt(1)
		la.AssembleValue().AssignString("x")
		la.Finish()
		h = fw.Mix(h, digestNode(nb.Build(), true))
		// inferred schema for a Go type that was already inferred
		h = fw.Mix(h, digestNode(bindnode.Wrap(&c20Inferred{Name: "m", Count: 1}, nil), true))
		h = fw.Mix(h, fw.HashString(string(bindnode.Prototype((*c20Inferred)(nil), nil).Type().Name())))
		return h
	})
	for ti := range c12Targets {
		t := c12Targets[ti]
		v := t.gen(rng)
		obj := objN
		objN++
		add("build", obj, func() uint64 {
			n, err := build.Plain(t.proto, v)
			if err != nil {
				return fw.HashString("build-error:" + t.name)
			}
			return digestNode(n, t.typed)
		})
	}
	obj = objN
	objN++
	add("encode", obj, func() uint64 {
		h := uint64(0)
		for _, code := range []uint64{0x71, 0x0129, 0x51, 0x0200, 0x55} {
			e, err1 := multicodec.LookupEncoder(code)
			d, err2 := multicodec.LookupDecoder(code)
			h = fw.Mix(h, uint64(len(multicodec.ListEncoders())), fw.HashString(fmt.Sprint(err1, err2, e != nil, d != nil)))
		}
		return h
	})
	return p
}

type c20Union struct {
	Int    *int64
	String *string
}

type c20Union2 struct {
	String *string
	Str2   *string
}

type c20Map struct {
	Keys   []string
	Values map[string]int64
}

var c20TS *schema.TypeSystem

func c20Init() {
	if c20TS != nil {
		return
	}
	ts := new(schema.TypeSystem)
	ts.Init()
	ts.Accumulate(schema.SpawnString("String"))
	ts.Accumulate(schema.SpawnInt("Int"))
	ts.Accumulate(schema.SpawnUnion("UKeyed", []schema.TypeName{"Int", "String"}, schema.SpawnUnionRepresentationKeyed(map[string]schema.TypeName{"i": "Int", "s": "String"})))
	ts.Accumulate(schema.SpawnString("Str2"))
	ts.Accumulate(schema.SpawnUnion("UPrefix", []schema.TypeName{"String", "Str2"}, schema.SpawnUnionRepresentationStringprefix(":", map[string]schema.TypeName{"s": "String", "t": "Str2"})))
	ts.Accumulate(schema.SpawnMap("MapSI", "String", "Int", false))
	c20TS = ts
}

// (the traversal.Config shared by every walk of every goroutine, defaults left nil on purpose, is made afresh
// for every pool: a library that fills defaults into the caller's Config does so once per Config, so a
// process-wide one would be written — and the write be observable — only in the first pool of a process)

func (c20) RunCase(c *fw.Ctx, rng *fw.RNG, batch, i int) {
	pool := c20Build(rng)
	defer func() {
		for _, d := range c20TempDirs {
			os.RemoveAll(d)
		}
		c20TempDirs = nil
		c.Count("pools_over_fsstore", c20FSPools)
		c20FSPools = 0
	}()
	// Warm mode: sequential reference results first. Cold mode: the very first use of every
	// shared object happens in the goroutines (lazily filled caches are cold); the goroutines'
	// digests are then compared with each other and with a sequential run made afterwards.
	cold := rng.Bool()
	pool.want = make([]uint64, len(pool.ops))
	if !cold {
		for k, op := range pool.ops {
			pool.want[k] = op.f()
		}
		for k, op := range pool.ops { // and once more: the operations must be repeatable at all
			if got := op.f(); got != pool.want[k] {
				c.Deviate("C20:not-repeatable-sequentially:"+op.kind, fmt.Sprintf("operation %s on object %d gives different digests when repeated sequentially", op.kind, op.obj))
				pool.want[k] = got
			}
		}
	}
	gotCold := make([][]uint64, len(pool.ops))
	var coldMu sync.Mutex
	G := []int{4, 16, 64}[rng.Intn(3)]
	procs := []int{2, 4, 8, 16}[rng.Intn(4)]
	c.SetCase(func() any {
		return map[string]any{"goroutines": G, "gomaxprocs": procs, "operations": len(pool.ops), "cold": cold}
	})
	if c.WantSample() {
		kinds := map[string]int{}
		for _, op := range pool.ops {
			kinds[op.kind]++
		}
		c.Sample(map[string]any{"goroutines": G, "gomaxprocs": procs, "shared_operations_by_kind": kinds})
	}
	old := setProcs(procs)
	defer setProcs(old)

	// overlap table: which op kinds were in flight on the same object at the same time
	nobj := 0
	for _, op := range pool.ops {
		if op.obj >= nobj {
			nobj = op.obj + 1
		}
	}
	kinds := []string{"readout", "deepequal", "copy", "encode", "walk", "load", "bind", "build"}
	kidx := map[string]int{}
	for k, s := range kinds {
		kidx[s] = k
	}
	inflight := make([][]int32, nobj)
	for k := range inflight {
		inflight[k] = make([]int32, len(kinds))
	}
	var pairs [8][8]int32
	var mismatches int64
	var wg sync.WaitGroup
	start := make(chan struct{})
	seeds := make([]uint64, G)
	for g := range seeds {
		seeds[g] = rng.U64()
	}
	var nops, firstUseOps int64
	var hot []int
	hotObjs := map[int]bool{pool.lazyObj: true}
	if pool.freshObj >= 0 {
		hotObjs[pool.freshObj] = true
	}
	for len(hotObjs) < 5 {
		hotObjs[pool.ops[rng.Intn(len(pool.ops))].obj] = true
	}
	for k, op := range pool.ops {
		if hotObjs[op.obj] {
			hot = append(hot, k)
		}
	}
	// Cold mode, phase 0: for a sample of operations — every walk, load, bind and build operation (their shared
	// objects are configured link systems, traversal configs, prototypes and type systems) and a few others — ALL
	// goroutines make the FIRST use together, released by a spinning barrier per operation. State that is filled
	// in on first use is written by one goroutine while the others read or write it too: without the barrier
	// that coincidence is luck, and on a loaded machine rare (seed C20-5 went unreported in one run out of two).
	var firstUse []int
	if cold {
		for k, op := range pool.ops {
			if op.kind == "walk" || op.kind == "load" || op.kind == "bind" || op.kind == "build" || rng.Chance(1, 6) {
				firstUse = append(firstUse, k)
			}
		}
		if len(firstUse) > 40 {
			rng.Shuffle(len(firstUse), func(i, j int) { firstUse[i], firstUse[j] = firstUse[j], firstUse[i] })
			firstUse = firstUse[:40]
		}
	}
	arrive := make([]int32, len(firstUse))
	for g := 0; g < G; g++ {
		wg.Add(1)
		go func(g int) {
			defer wg.Done()
			r := fw.NewRNG(seeds[g])
			<-start
			for fi, k := range firstUse {
				atomic.AddInt32(&arrive[fi], 1)
				for atomic.LoadInt32(&arrive[fi]) < int32(G) {
					runtime.Gosched()
				}
				op := pool.ops[k]
				atomic.AddInt32(&inflight[op.obj][kidx[op.kind]], 1)
				got := op.f()
				atomic.AddInt32(&inflight[op.obj][kidx[op.kind]], -1)
				atomic.AddInt64(&nops, 1)
				atomic.AddInt64(&firstUseOps, 1)
				coldMu.Lock()
				gotCold[k] = append(gotCold[k], got)
				coldMu.Unlock()
			}
			for n := 0; n < 80; n++ {
				k := r.Intn(len(pool.ops))
				if n < len(hot) {
					k = hot[(n+g)%len(hot)] // everybody starts on the hot objects: their first use is concurrent
				} else if r.Chance(7, 10) {
					k = hot[r.Intn(len(hot))] // most traffic goes to a few objects so that operations overlap on them
				}
				op := pool.ops[k]
				ki := kidx[op.kind]
				atomic.AddInt32(&inflight[op.obj][ki], 1)
				for o := range kinds {
					if atomic.LoadInt32(&inflight[op.obj][o]) > 0 && (o != ki || atomic.LoadInt32(&inflight[op.obj][o]) > 1) {
						atomic.AddInt32(&pairs[ki][o], 1)
					}
				}
				got := op.f()
				atomic.AddInt32(&inflight[op.obj][ki], -1)
				atomic.AddInt64(&nops, 1)
				if cold {
					coldMu.Lock()
					gotCold[k] = append(gotCold[k], got)
					coldMu.Unlock()
					continue
				}
				if got != pool.want[k] {
					if atomic.AddInt64(&mismatches, 1) <= 3 {
						c.Deviate("C20:result-differs-under-concurrency:"+op.kind, fmt.Sprintf("goroutine %d: operation %s on shared object %d returned digest %x, alone it returns %x", g, op.kind, op.obj, got, pool.want[k]))
					}
				}
			}
		}(g)
	}
	close(start)
	wg.Wait()
	if cold {
		c.Count("cold_runs", 1)
		for k, op := range pool.ops {
			w := op.f()
			for _, g := range gotCold[k] {
				if g != w {
					c.Deviate("C20:result-differs-under-concurrency:"+op.kind, fmt.Sprintf("operation %s on shared object %d (first used concurrently) returned digest %x in a goroutine, a sequential run afterwards returns %x", op.kind, op.obj, g, w))
					break
				}
			}
		}
	}
	c.Count("simultaneous_first_uses", firstUseOps)
	c.Count("goroutines_started", int64(G))
	c.Count("concurrent_ops", nops)
	c.Count("digest_comparisons", nops)
	distinct := 0
	for a := range kinds {
		for b := range kinds {
			if pairs[a][b] > 0 {
				distinct++
			}
		}
	}
	c.Max("max_distinct_overlapping_pairs_in_a_run", int64(distinct))
	c.Count("distinct_overlapping_pairs", int64(distinct))
	for _, op := range pool.ops {
		c.Count("op:"+op.kind, 1)
	}
	if distinct < 5 {
		c.Inconclusive(fmt.Sprintf("only %d distinct overlapping operation pairs were observed", distinct))
	}
	hh := uint64(G)
	for _, w := range pool.want {
		hh = fw.Mix(hh, w)
	}
	c.Seen(hh, distinct >= 20)

}

type c20New1 struct{ A []c20New2 }
type c20New2 struct{ B string }
type c20New3 struct{ C []c20New4 }
type c20New4 struct{ D int64 }

// c20InferenceProbe infers schemas for Go types not seen before while other
// goroutines use nodes whose schema lives in the same process-wide type system.
func c20InferenceProbe() {
	base := bindnode.Wrap(&c20Inferred{Name: "x", Tags: []string{"t"}}, nil)
	var wg sync.WaitGroup
	stop := make(chan struct{})
	for g := 0; g < 4; g++ {
		wg.Add(1)
		go func() {
			defer wg.Done()
			for {
				select {
				case <-stop:
					return
				default:
				}
				digestNode(base, true)
			}
		}()
	}
	for k := 0; k < 50; k++ {
		digestNode(base, true)
	}
	bindnode.Wrap(&c20New1{A: []c20New2{{B: "b"}}}, nil)
	bindnode.Prototype((*c20New3)(nil), nil)
	close(stop)
	wg.Wait()
	// phase 2: several goroutines bind the SAME not-yet-inferred Go types at the same instant; every call
	// must succeed and name the same schema type (binding is a pure function of its arguments, also when
	// the first calls coincide)
	fresh := []func() string{
		func() string { return bindnode.Prototype((*c20F0)(nil), nil).Type().Name() },
		func() string { return bindnode.Wrap(&c20F1{X: []c20F2{{Y: []string{"y"}}}}, nil).Type().Name() },
		func() string { return bindnode.Prototype((*c20F3)(nil), nil).Type().Name() },
		func() string { return bindnode.Wrap(&c20F4{Z: [][]int64{{1}}}, nil).Type().Name() },
		func() string { return bindnode.Prototype((*c20F5)(nil), nil).Type().Name() },
		func() string { return bindnode.Wrap(&c20F6{}, nil).Type().Name() },
		func() string { return bindnode.Prototype((*c20G0)(nil), nil).Type().Name() },
		func() string { return bindnode.Wrap(&c20G1{B1: []c20G1b{{C1: 1}}}, nil).Type().Name() },
		func() string { return bindnode.Prototype((*c20G2)(nil), nil).Type().Name() },
		func() string { return bindnode.Wrap(&c20G3{B3: []c20G3b{{C3: 1}}}, nil).Type().Name() },
		func() string { return bindnode.Prototype((*c20G4)(nil), nil).Type().Name() },
		func() string { return bindnode.Wrap(&c20G5{B5: []c20G5b{{C5: 1}}}, nil).Type().Name() },
		func() string { return bindnode.Prototype((*c20G6)(nil), nil).Type().Name() },
		func() string { return bindnode.Wrap(&c20G7{B7: []c20G7b{{C7: 1}}}, nil).Type().Name() },
		func() string { return bindnode.Prototype((*c20G8)(nil), nil).Type().Name() },
		func() string { return bindnode.Wrap(&c20G9{B9: []c20G9b{{C9: 1}}}, nil).Type().Name() },
		func() string { return bindnode.Prototype((*c20G10)(nil), nil).Type().Name() },
		func() string { return bindnode.Wrap(&c20G11{B11: []c20G11b{{C11: 1}}}, nil).Type().Name() },
		func() string { return bindnode.Prototype((*c20G12)(nil), nil).Type().Name() },
		func() string { return bindnode.Wrap(&c20G13{B13: []c20G13b{{C13: 1}}}, nil).Type().Name() },
		func() string { return bindnode.Prototype((*c20G14)(nil), nil).Type().Name() },
		func() string { return bindnode.Wrap(&c20G15{B15: []c20G15b{{C15: 1}}}, nil).Type().Name() },
		func() string { return bindnode.Prototype((*c20G16)(nil), nil).Type().Name() },
		func() string { return bindnode.Wrap(&c20G17{B17: []c20G17b{{C17: 1}}}, nil).Type().Name() },
	}
	for round, f := range fresh {
		// (24 types in turn, 8 to 32 goroutines each, released by a spinning barrier so that the first calls
		// really coincide also on a loaded machine)
		G := []int{8, 16, 32}[round%3]
		names := make([]string, G)
		fails := make([]string, G)
		var ready int32
		start := make(chan struct{})
		var wg2 sync.WaitGroup
		for g := 0; g < G; g++ {
			wg2.Add(1)
			go func(g int) {
				defer wg2.Done()
				defer func() {
					if r := recover(); r != nil {
						fails[g] = fmt.Sprint(r)
					}
				}()
				<-start
				atomic.AddInt32(&ready, 1)
				for atomic.LoadInt32(&ready) < int32(G) {
					runtime.Gosched()
				}
				names[g] = f()
			}(g)
		}
		close(start)
		wg2.Wait()
		for g := 0; g < G; g++ {
			if fails[g] != "" {
				fmt.Printf("CONCURRENT-FIRST-BINDING-FAILED round %d goroutine %d: %s\n", round, g, fails[g])
				os.Exit(3)
			}
			if names[g] != names[0] {
				fmt.Printf("CONCURRENT-FIRST-BINDING-DIFFERS round %d: %q vs %q\n", round, names[g], names[0])
				os.Exit(3)
			}
		}
	}
}

type (
	c20F0 struct {
		A string
		B []c20F0b
	}
	c20F0b struct{ C int64 }
	c20F1  struct{ X []c20F2 }
	c20F2  struct{ Y []string }
	c20F3  struct {
		P c20F0b
		Q []bool
	}
	c20F4 struct{ Z [][]int64 }
	c20F5 struct {
		R []float64
		S c20F2
	}
	c20F6 struct {
		T []c20F0b
		U []float64
	}
	c20G0 struct {
		A0 string
		B0 []c20G0b
	}
	c20G0b struct{ C0 int64 }
	c20G1  struct {
		A1 string
		B1 []c20G1b
	}
	c20G1b struct{ C1 int64 }
	c20G2  struct {
		A2 string
		B2 []c20G2b
	}
	c20G2b struct{ C2 int64 }
	c20G3  struct {
		A3 string
		B3 []c20G3b
	}
	c20G3b struct{ C3 int64 }
	c20G4  struct {
		A4 string
		B4 []c20G4b
	}
	c20G4b struct{ C4 int64 }
	c20G5  struct {
		A5 string
		B5 []c20G5b
	}
	c20G5b struct{ C5 int64 }
	c20G6  struct {
		A6 string
		B6 []c20G6b
	}
	c20G6b struct{ C6 int64 }
	c20G7  struct {
		A7 string
		B7 []c20G7b
	}
	c20G7b struct{ C7 int64 }
	c20G8  struct {
		A8 string
		B8 []c20G8b
	}
	c20G8b struct{ C8 int64 }
	c20G9  struct {
		A9 string
		B9 []c20G9b
	}
	c20G9b struct{ C9 int64 }
	c20G10 struct {
		A10 string
		B10 []c20G10b
	}
	c20G10b struct{ C10 int64 }
	c20G11  struct {
		A11 string
		B11 []c20G11b
	}
	c20G11b struct{ C11 int64 }
	c20G12  struct {
		A12 string
		B12 []c20G12b
	}
	c20G12b struct{ C12 int64 }
	c20G13  struct {
		A13 string
		B13 []c20G13b
	}
	c20G13b struct{ C13 int64 }
	c20G14  struct {
		A14 string
		B14 []c20G14b
	}
	c20G14b struct{ C14 int64 }
	c20G15  struct {
		A15 string
		B15 []c20G15b
	}
	c20G15b struct{ C15 int64 }
	c20G16  struct {
		A16 string
		B16 []c20G16b
	}
	c20G16b struct{ C16 int64 }
	c20G17  struct {
		A17 string
		B17 []c20G17b
	}
	c20G17b struct{ C17 int64 }
)

func setProcs(n int) int { return runtime.GOMAXPROCS(n) }

// c20TempDirs: fsstore directories of the pools of this process (removed at the end of each case).
var c20TempDirs []string

var c20FSPools int64

// Orchestrate runs the batches and then turns race reports into deviations.
func (c20) Orchestrate(p *fw.Parent) error {
	p.RunBatches()
	for k := 0; k < 6; k++ {
		cmd := exec.Command(p.ChildBinary(true), "-aux", "c20probe")
		cmd.Env = append(os.Environ(), "GORACE=halt_on_error=0 log_path="+filepath.Join(p.WorkDir, fmt.Sprintf("race.bprobe%d", k)))
		out, err := cmd.CombinedOutput()
		p.Count("inference_probe_runs", 1)
		if err != nil && strings.Contains(string(out), "concurrent map") {
			p.AddDeviation(fw.Deviation{Sig: "C20:data-race:bindnode.inferSchema-writes-default-typesystem", Detail: "the inference probe process died: " + clipS(string(out), 1500), Index: -1})
		} else if strings.Contains(string(out), "CONCURRENT-FIRST-BINDING") {
			line := string(out)[strings.Index(string(out), "CONCURRENT-FIRST-BINDING"):]
			if i := strings.IndexByte(line, '\n'); i > 0 {
				line = line[:i]
			}
			p.AddDeviation(fw.Deviation{Sig: "C20:concurrent-first-binding-fails", Detail: "several goroutines binding the same not-yet-inferred Go type at the same instant: " + clipS(line, 600), Index: -1})
		} else if err != nil && fatalFirst(string(out)) != "" {
			// (a bare non-zero exit is the race detector's exit code after it has reported; the reports are read below)
			p.AddDeviation(fw.Deviation{Sig: "C20:inference-probe-died:" + fatalFirst(string(out)), Detail: "the inference probe process died: " + clipS(string(out), 1500), Index: -1})
		}
	}
	files, _ := filepath.Glob(filepath.Join(p.WorkDir, "race.b*"))
	seen := map[string]bool{}
	for _, f := range files {
		b, err := os.ReadFile(f)
		if err != nil {
			continue
		}
		for _, blk := range strings.Split(string(b), "WARNING: DATA RACE")[1:] {
			p.Count("race_reports", 1)
			key := raceKey(blk)
			if seen[key] {
				continue
			}
			seen[key] = true
			p.Count("race_reports_distinct", 1)
			p.AddDeviation(fw.Deviation{Sig: "C20:data-race:" + key, Detail: "race detector report (" + filepath.Base(f) + "):\nWARNING: DATA RACE" + clipS(blk, 3500), Index: -1})
		}
	}
	return nil
}

var _ = io.Discard
