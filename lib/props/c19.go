package props

// C19 — binding Go values is faithful, reversible and a pure function of its
// inputs. Monitor: an independent reflection walk (lib/gobind) between Go
// values and typed abstract values is the oracle for Wrap (read-out of the
// node = walk of the Go value), Unwrap (walk of the Go value behind a built
// node = what was assembled), Marshal/Unmarshal (bytes = reference encoding
// of the representation; the fresh value walks to the same data) and for
// integers that do not fit the Go field (must be refused, never stored
// changed). Every case ends with a history of repeated and interleaved
// Wrap/Prototype/Unwrap/Marshal/Unmarshal calls, with explicit and inferred
// schemas, over the bindings of this case and of earlier cases of the process.

import (
	"bytes"
	"fmt"
	"reflect"
	"strings"
	"verif/lib/build"

	ipld "github.com/ipld/go-ipld-prime"
	"github.com/ipld/go-ipld-prime/codec"
	"github.com/ipld/go-ipld-prime/codec/dagcbor"
	"github.com/ipld/go-ipld-prime/codec/dagjson"
	"github.com/ipld/go-ipld-prime/datamodel"
	"github.com/ipld/go-ipld-prime/node/bindnode"
	"github.com/ipld/go-ipld-prime/schema"

	"verif/lib/fnode"
	"verif/lib/fw"
	"verif/lib/gobind"
	"verif/lib/model"
	"verif/lib/obs"
	refcbor "verif/lib/ref/cbor"
	rs "verif/lib/ref/schema"
	"verif/lib/schemagen"
	"verif/lib/typedmon"
)

type c19 struct{}

func init() { fw.Register(c19{}) }

func (c19) ID() string              { return "C19" }
func (c19) ReplayNeedsPrefix() bool { return true }

func (c19) Plan(tier string) fw.Plan {
	p := fw.Plan{
		Batches: 16, Cases: 2000, TimeoutSec: 900, Level: "exploration",
		Rule:        "one case = one to three bindings (Go type, schema type) — a Go type drawn by reflection over every documented shape for a freshly drawn type system (integer widths and signedness, float32, the three link types, pointer vs nilable for optional/nullable, ** for both, {Keys,Values} structs with string, enum and struct keys, union structs), a user-declared named Go type with a hand-written schema, or a Go type whose schema bindnode infers — with several typed values each (integers redrawn on the boundaries of the Go kind, one case in five also just outside) checked through Wrap, Prototype+Unwrap at both levels, Marshal/Unmarshal with dag-cbor and dag-json, followed by a history of 8-24 repeated/interleaved binding calls over the bindings of this and earlier cases of the same process. Non-trivial: every case; distinct by hash of (Go type, schema, values).",
		Assumptions: []string{"float64 values that float32 cannot hold are not fed to float32 fields (the property speaks of integer widths)", "dag-json round trips skip values containing floats (C04 known finding: integral floats decode as ints)", "inference is exercised for the shapes api.go documents as inferable (named structs, slices, bool/int64/float64/string/[]byte/links/Node)"},
		MinEvents:   []string{"bindings:dynamic", "bindings:declared", "bindings:inferred", "wrap_readouts", "unwrap_walks", "marshal_roundtrips", "nofit_inputs", "history_ops", "inferred_calls"},
	}
	if tier == "thorough" {
		p.Batches, p.Cases, p.TimeoutSec = 64, 3000, 3000
	}
	return p
}

type c19Binding struct {
	src  string // dynamic | declared | inferred
	ts   *rs.TypeSystem
	t    *rs.Type
	g    reflect.Type
	st   schema.Type
	desc string
}

func (b *c19Binding) sig() string { return b.src + ":" + b.t.Kind + c19ReprName(b.t) }

func c19ReprName(t *rs.Type) string {
	switch t.Kind {
	case "struct":
		return "-" + t.StructRepr
	case "union":
		return "-" + t.UnionRepr
	case "enum":
		return "-" + t.EnumRepr
	}
	return ""
}

type c19Entry struct {
	b  *c19Binding
	gv reflect.Value // addressable Go value holding tv
	tv model.Val
}

// c19Pool: bindings and values of earlier cases of this process (the state bindnode keeps is process-wide).
var c19Pool []c19Entry

type c19H struct {
	c   *fw.Ctx
	rng *fw.RNG
	cur string
}

func (h *c19H) ctx(b *c19Binding, tv model.Val) string {
	return fmt.Sprintf("binding %s\nvalue %s", b.desc, clipS(tv.Dump(), 700))
}

var (
	c19Declared      *rs.TypeSystem
	c19DeclaredGo    map[string]reflect.Type
	c19DeclaredLib   *schema.TypeSystem
	c19DeclaredNames []string
)

func c19Init() error {
	if c19Declared != nil {
		return nil
	}
	ts, gos := gobind.Declared()
	lib, err := schemagen.ToLibrary(ts)
	if err != nil {
		return err
	}
	c19Declared, c19DeclaredGo, c19DeclaredLib = ts, gos, lib
	for _, t := range ts.Types {
		if _, ok := gos[t.Name]; ok {
			c19DeclaredNames = append(c19DeclaredNames, t.Name)
		}
	}
	return nil
}

func (c19) RunCase(c *fw.Ctx, rng *fw.RNG, batch, i int) {
	if i%40 == 17 {
		c19Converters(c, rng.Fork())
	}
	if err := c19Init(); err != nil {
		c.Inconclusive("declared library does not load: " + err.Error())
		return
	}
	h := &c19H{c: c, rng: rng}
	var bs []*c19Binding
	switch x := rng.Intn(10); {
	case x < 5:
		ts := schemagen.Gen(rng, schemagen.Opts{Types: 3 + rng.Intn(5)})
		lib, err := schemagen.ToLibrary(ts)
		if err != nil {
			c.Inconclusive("library rejects type system: " + err.Error())
			return
		}
		shape := gobind.NewShape(ts, rng)
		shape.Plain = rng.Chance(1, 6)
		var cands []*rs.Type
		for _, t := range ts.Types {
			if t.Name[0] == 'T' {
				cands = append(cands, t)
			}
		}
		for k := 0; k < 2 && len(cands) > 0; k++ {
			t := cands[rng.Intn(len(cands))]
			var g reflect.Type
			func() {
				defer func() {
					if r := recover(); r != nil {
						g = nil // reflect cannot build the shape (e.g. more than 2^16 bytes of struct): skip
					}
				}()
				g = shape.GoType(t)
			}()
			if g == nil {
				continue
			}
			bs = append(bs, &c19Binding{src: "dynamic", ts: ts, t: t, g: g, st: lib.TypeByName(t.Name),
				desc: fmt.Sprintf("dynamic: schema type %s of {%s}, Go type %s", t.Name, clipS(schemagen.Describe(ts), 1500), clipS(g.String(), 1200))})
		}
	case x < 8:
		for k := 0; k < 1+rng.Intn(2); k++ {
			name := c19DeclaredNames[rng.Intn(len(c19DeclaredNames))]
			bs = append(bs, &c19Binding{src: "declared", ts: c19Declared, t: c19Declared.T(name), g: c19DeclaredGo[name], st: c19DeclaredLib.TypeByName(name),
				desc: "declared: gobind." + name})
		}
	default:
		inf := gobind.Inferable()
		ts := &rs.TypeSystem{}
		var picked []reflect.Type
		for k := 0; k < 2+rng.Intn(2); k++ {
			picked = append(picked, inf[rng.Intn(len(inf))])
		}
		var ts2 []*rs.Type
		for _, g := range picked {
			t, err := gobind.RefInfer(ts, g)
			if err != nil {
				c.Inconclusive("reference inference: " + err.Error())
				return
			}
			ts2 = append(ts2, t)
		}
		lib, err := schemagen.ToLibrary(ts)
		if err != nil {
			c.Inconclusive("library rejects the reference-inferred type system: " + err.Error())
			return
		}
		for k, g := range picked {
			bs = append(bs, &c19Binding{src: "inferred", ts: ts, t: ts2[k], g: g, st: lib.TypeByName(ts2[k].Name), desc: "inferred: " + g.String()})
		}
	}
	if len(bs) == 0 {
		return
	}
	c.SetCase(func() any {
		var ds []string
		for _, b := range bs {
			ds = append(ds, b.desc)
		}
		return map[string]any{"bindings": ds, "current": h.cur}
	})
	hash := uint64(i)
	var mine []c19Entry
	for _, b := range bs {
		c.Count("bindings:"+b.src, 1)
		hash = fw.Mix(hash, fw.HashString(b.g.String()), fw.HashString(b.t.Name))
		for k := 0; k < 4; k++ {
			if e, ok := h.value(b); ok {
				mine = append(mine, e)
				hash = fw.Mix(hash, e.tv.Hash())
			}
		}
	}
	c.Seen(hash, true)
	if c.WantSample() && len(mine) > 0 {
		var ds []string
		for _, b := range bs {
			ds = append(ds, clipS(b.desc, 600))
		}
		c.Sample(map[string]any{"bindings": ds, "values_checked": len(mine), "first_value": clipS(mine[0].tv.Dump(), 400),
			"checked": "Wrap read-out (both levels), Prototype+Unwrap (both levels), Marshal/Unmarshal dag-cbor+dag-json, history of repeated calls"})
	}
	h.history(mine)
	c19Pool = append(c19Pool, mine...)
	if len(c19Pool) > 60 {
		c19Pool = c19Pool[len(c19Pool)-60:]
	}
}

func (h *c19H) value(b *c19Binding) (c19Entry, bool) {
	c, rng := h.c, h.rng
	bd := gobind.Binder{TS: b.ts}
	tv := schemagen.GenValue(rng, b.ts, b.t, 0)
	tv = bd.Fit(rng, b.t, b.g, tv, rng.Chance(1, 5))
	h.cur = b.t.Name + " = " + clipS(tv.Dump(), 600)
	gv, err := bd.ToGo(b.t, b.g, tv)
	if nf, ok := gobind.IsNoFit(err); ok {
		h.reject(b, tv, nf)
		return c19Entry{}, false
	}
	if err != nil {
		c.Inconclusive("oracle cannot build the Go value: " + err.Error())
		return c19Entry{}, false
	}
	if back, err := bd.FromGo(b.t, gv); err != nil || !model.Equal(back, tv) {
		c.Inconclusive(fmt.Sprintf("oracle self-check failed (ToGo then FromGo): %v", err))
		return c19Entry{}, false
	}
	e := c19Entry{b, gv, tv}
	h.wrapCheck(e, false, "")
	if b.src == "inferred" {
		h.wrapCheck(e, true, "")
	}
	h.buildCheck(e, false, false, "")
	h.buildCheck(e, true, false, "")
	if b.src == "inferred" {
		h.buildCheck(e, rng.Bool(), true, "")
	}
	h.marshalCheck(e, false, "")
	if b.src == "inferred" {
		h.marshalCheck(e, true, "")
	}
	return e, true
}

func (h *c19H) schemaArg(b *c19Binding, inferred bool) schema.Type {
	if inferred {
		h.c.Count("inferred_calls", 1)
		return nil
	}
	return b.st
}

func mode(inferred bool) string {
	if inferred {
		return "inferred-schema"
	}
	return "explicit-schema"
}

// wrapCheck: the node Wrap returns reads as the walk of the Go value, at both levels, and leaves the value alone.
func (h *c19H) wrapCheck(e c19Entry, inferred bool, when string) {
	c, b := h.c, e.b
	sig := mode(inferred) + ":" + b.sig()
	var n schema.TypedNode
	if c.Guard("C19:wrap:"+sig, func() { n = bindnode.Wrap(e.gv.Addr().Interface(), h.schemaArg(b, inferred)) }) {
		return
	}
	if inferred && n.Type().Name() != b.t.Name {
		c.Deviate("C19:inferred-schema-differs:"+sig, fmt.Sprintf("Wrap with an inferred schema gives type %q, the documented rules give %q\n%s", n.Type().Name(), b.t.Name, h.ctx(b, e.tv)))
	}
	var tr, rr obs.Result
	if c.Guard("C19:wrap-read:"+sig, func() {
		tr = obs.ReadOut(n, obs.Options{Typed: true, NoWrongKindProbes: true})
		rr = obs.ReadOut(n.Representation(), obs.Options{Typed: true, NoWrongKindProbes: true})
	}) {
		return
	}
	c.Count("wrap_readouts", 2)
	if !model.Equal(tr.Val, e.tv) {
		c.Deviate("C19:wrap:type-view-differs:"+sig, fmt.Sprintf("%s\nthe wrapped Go value reads %s\nthe Go value holds %s\n%s", model.FirstDiff(tr.Val, e.tv), clipS(tr.Val.Dump(), 600), clipS(e.tv.Dump(), 600), h.ctx(b, e.tv)))
	} else if len(tr.Issues) > 0 {
		c.Deviate("C19:wrap:type-view-inconsistent:"+tr.Issues[0].Sig+":"+sig, tr.FirstIssue()+"\n"+h.ctx(b, e.tv))
	}
	if want, err := b.ts.ReprOf(b.t, e.tv); err == nil {
		if !model.Equal(rr.Val, want) {
			if c19UintInKinded(b.ts, b.t, e.tv) && strings.Contains(model.FirstDiff(rr.Val, want), ": 0 vs ") {
				sig = "uint-above-int64-in-kinded-union"
			}
			c.Deviate("C19:wrap:representation-differs:"+sig, fmt.Sprintf("%s\nthe wrapped Go value's representation reads %s\nthe strategy gives %s\n%s", model.FirstDiff(rr.Val, want), clipS(rr.Val.Dump(), 600), clipS(want.Dump(), 600), h.ctx(b, e.tv)))
		} else if len(rr.Issues) > 0 {
			c.Deviate("C19:wrap:representation-inconsistent:"+rr.Issues[0].Sig+":"+sig, rr.FirstIssue()+"\n"+h.ctx(b, e.tv))
		}
	}
	if got := bindnode.Unwrap(n); got != e.gv.Addr().Interface() {
		c.Deviate("C19:unwrap-of-wrap-is-another-value:"+sig, fmt.Sprintf("Unwrap(Wrap(p)) = %p (%T), p = %p\n%s", got, got, e.gv.Addr().Interface(), h.ctx(b, e.tv)))
	}
	// The clone idiom: n.Prototype().NewBuilder().AssignNode(n). The built Go value holds what was assembled,
	// and it is its OWN value: no slice, map or pointer of it is the same memory as the corresponding one of the
	// source (decided structurally, by comparing addresses in a parallel walk — nothing is mutated). (Round-4
	// seed C19-11: a same-type AssignNode shortcut that takes the Go value over by shallow assignment.)
	if h.rng.Chance(1, 3) {
		var built datamodel.Node
		var cerr error
		if !c.Guard("C19:clone:"+sig, func() {
			nb := n.Prototype().NewBuilder()
			if cerr = nb.AssignNode(n); cerr == nil {
				built = nb.Build()
			}
		}) {
			c.Count("clones_via_assignnode", 1)
			if cerr != nil {
				c.Deviate("C19:clone:fails:"+sig, fmt.Sprintf("n.Prototype().NewBuilder().AssignNode(n) failed: %v\n%s", cerr, h.ctx(b, e.tv)))
			} else if ptr := bindnode.Unwrap(built); ptr != nil {
				cv := reflect.ValueOf(ptr)
				if cv.Kind() == reflect.Ptr && !cv.IsNil() {
					bdc := gobind.Binder{TS: b.ts}
					if back, err := bdc.FromGo(b.t, cv.Elem()); err != nil || !model.Equal(back, e.tv) {
						c.Deviate("C19:clone:go-value-differs:"+sig, fmt.Sprintf("the clone's Go value holds %s (%v), the source holds %s\n%s", clipS(back.Dump(), 500), err, clipS(e.tv.Dump(), 500), h.ctx(b, e.tv)))
					} else if where := c19SharedMemory(cv.Elem(), e.gv, "", 0); where != "" {
						c.Deviate("C19:clone:shares-memory-with-the-source:"+sig, fmt.Sprintf("the Go value built by AssignNode(n) on n's own prototype shares memory with n's Go value at %s: a later change to one shows in the other\n%s", where, h.ctx(b, e.tv)))
					}
				}
			}
		}
	}
	bd := gobind.Binder{TS: b.ts}
	if back, err := bd.FromGo(b.t, e.gv); err != nil || !model.Equal(back, e.tv) {
		c.Deviate("C19:reading-changed-the-go-value:"+sig, fmt.Sprintf("after reading the wrapped node the Go value holds %s (%v)\nbefore: %s\n%s", clipS(back.Dump(), 600), err, clipS(e.tv.Dump(), 600), h.ctx(b, e.tv)))
	}
}

func (h *c19H) proto(b *c19Binding, inferred bool, sig string) (p schema.TypedPrototype) {
	ptrType := reflect.Zero(reflect.PointerTo(b.g)).Interface()
	if h.c.Guard("C19:prototype:"+sig, func() { p = bindnode.Prototype(ptrType, h.schemaArg(b, inferred)) }) {
		return nil
	}
	return p
}

// buildCheck: a node built through Prototype (type or representation level) unwraps to a Go value holding what was assembled.
func (h *c19H) buildCheck(e c19Entry, reprLevel, inferred bool, when string) {
	c, b := h.c, e.b
	level := "type-level"
	if reprLevel {
		level = "representation-level"
	}
	sig := mode(inferred) + ":" + level + ":" + b.sig()
	p := h.proto(b, inferred, sig)
	if p == nil {
		return
	}
	var o typedmon.Outcome
	if reprLevel {
		in, err := b.ts.ReprOf(b.t, e.tv)
		if err != nil {
			return
		}
		o = typedmon.Feed(p.Representation(), in)
	} else if in := b.ts.TypeInput(b.t, e.tv); typedmon.HasComplexKeys(b.ts, b.t) {
		o = typedmon.FeedTyped(p, b.ts, b.t, in)
	} else {
		o = typedmon.Feed(p, in)
	}
	if o.Panic != "" {
		c.Deviate("C19:build:panic:"+sig, fmt.Sprintf("building panicked: %s\n%s", clipS(o.Panic, 1500), h.ctx(b, e.tv)))
		return
	}
	if !o.Accepted {
		c.Deviate("C19:build:value-rejected:"+sig, fmt.Sprintf("the %s builder rejected a value the Go type can hold: %v\n%s", level, o.Err, h.ctx(b, e.tv)))
		return
	}
	h.unwrapCheck(e, o.Node, "build", sig, e.tv)
}

func (h *c19H) unwrapCheck(e c19Entry, n datamodel.Node, what, sig string, want model.Val) {
	c, b := h.c, e.b
	var ptr interface{}
	if c.Guard("C19:unwrap:"+sig, func() { ptr = bindnode.Unwrap(n) }) {
		return
	}
	if ptr == nil || reflect.TypeOf(ptr) != reflect.PointerTo(b.g) {
		c.Deviate("C19:"+what+":unwrap-wrong-type:"+sig, fmt.Sprintf("Unwrap returned %T, want *%s\n%s", ptr, b.g, h.ctx(b, e.tv)))
		return
	}
	bd := gobind.Binder{TS: b.ts}
	got, err := bd.FromGo(b.t, reflect.ValueOf(ptr).Elem())
	c.Count("unwrap_walks", 1)
	if err != nil {
		c.Deviate("C19:"+what+":go-value-in-impossible-state:"+sig, fmt.Sprintf("the Go value behind the node: %v\n%s", err, h.ctx(b, e.tv)))
		return
	}
	if !model.Equal(got, want) {
		c.Deviate("C19:"+what+":go-value-differs:"+sig, fmt.Sprintf("%s\nthe Go value behind the node holds %s\nexpected %s\n%s", model.FirstDiff(got, want), clipS(got.Dump(), 600), clipS(want.Dump(), 600), h.ctx(b, e.tv)))
	}
}

type c19Codec struct {
	name string
	enc  codec.Encoder
	dec  codec.Decoder
	less func(a, b string) bool
}

var c19Codecs = []c19Codec{
	{"dag-cbor", dagcbor.Encode, dagcbor.Decode, model.CBORKeyLess},
	{"dag-json", dagjson.Encode, dagjson.Decode, model.BytewiseLess},
}

func c19HasUint(v model.Val) bool {
	f := false
	v.Walk(func(x model.Val) {
		if x.K == model.KUint {
			f = true
		}
	})
	return f
}

// c19UintInKinded: the value holds an integer above MaxInt64 directly as the member of a kinded union.
func c19UintInKinded(ts *rs.TypeSystem, t *rs.Type, tv model.Val) bool {
	if tv.K == model.KNull || tv.K == model.KAbsent {
		return false
	}
	switch t.Kind {
	case "union":
		if t.UnionRepr == "kinded" && tv.M[0].V.K == model.KUint {
			return true
		}
		return c19UintInKinded(ts, ts.T(tv.M[0].K), tv.M[0].V)
	case "struct":
		for i, f := range t.Fields {
			if c19UintInKinded(ts, ts.T(f.Type), tv.M[i].V) {
				return true
			}
		}
	case "list":
		for _, x := range tv.L {
			if c19UintInKinded(ts, ts.T(t.ValueType), x) {
				return true
			}
		}
	case "map":
		for _, e := range tv.M {
			if c19UintInKinded(ts, ts.T(t.ValueType), e.V) {
				return true
			}
		}
	}
	return false
}

func c19HasFloat(v model.Val) bool {
	f := false
	v.Walk(func(x model.Val) {
		if x.K == model.KFloat {
			f = true
		}
	})
	return f
}

// marshalCheck: Marshal writes the reference encoding of the representation; Unmarshal into a fresh value
// (and into a typed nil) reproduces the data.
func (h *c19H) marshalCheck(e c19Entry, inferred bool, when string) {
	c, b := h.c, e.b
	rv, err := b.ts.ReprOf(b.t, e.tv)
	if err != nil {
		return
	}
	for _, cd := range c19Codecs {
		if cd.name == "dag-json" && (c19HasFloat(rv) || c19HasUint(rv)) {
			continue // the dag-json codec carries int64 only and says so with an error (C04's domain)
		}
		sig := mode(inferred) + ":" + cd.name + ":" + b.sig()
		var data []byte
		var merr error
		if c.Guard("C19:marshal:"+sig, func() { data, merr = ipld.Marshal(cd.enc, e.gv.Addr().Interface(), h.schemaArg(b, inferred)) }) {
			continue
		}
		if merr != nil {
			if c19UintInKinded(b.ts, b.t, e.tv) && strings.Contains(merr.Error(), "integer overflow") {
				sig = "uint-above-int64-in-kinded-union"
			}
			c.Deviate("C19:marshal:fails:"+sig, fmt.Sprintf("Marshal failed: %v\n%s", merr, h.ctx(b, e.tv)))
			continue
		}
		var want []byte
		if cd.name == "dag-cbor" {
			want = refcbor.Encode(rv)
		} else {
			var buf bytes.Buffer
			if err := dagjson.Encode(fnode.New(rv), &buf); err != nil {
				continue
			}
			want = buf.Bytes()
		}
		if !bytes.Equal(data, want) {
			c.Deviate("C19:marshal:bytes-differ:"+sig, fmt.Sprintf("Marshal wrote %x\nthe representation %s encodes as %x\n%s", clipBytes(data), clipS(rv.Dump(), 400), clipBytes(want), h.ctx(b, e.tv)))
			continue
		}
		wantTV := b.ts.SortCodecMaps(b.t, e.tv, cd.less)
		fresh := reflect.New(b.g)
		var uerr error
		var un datamodel.Node
		if c.Guard("C19:unmarshal:"+sig, func() { un, uerr = ipld.Unmarshal(data, cd.dec, fresh.Interface(), h.schemaArg(b, inferred)) }) {
			continue
		}
		if uerr != nil {
			c.Deviate("C19:unmarshal:own-bytes-rejected:"+sig, fmt.Sprintf("Unmarshal of Marshal's output failed: %v\nbytes %x\n%s", uerr, clipBytes(data), h.ctx(b, e.tv)))
			continue
		}
		c.Count("marshal_roundtrips", 1)
		bd := gobind.Binder{TS: b.ts}
		got, gerr := bd.FromGo(b.t, fresh.Elem())
		if gerr != nil {
			c.Deviate("C19:unmarshal:go-value-in-impossible-state:"+sig, fmt.Sprintf("%v\n%s", gerr, h.ctx(b, e.tv)))
		} else if !model.Equal(got, wantTV) {
			c.Deviate("C19:unmarshal:go-value-differs:"+sig, fmt.Sprintf("%s\nthe unmarshalled Go value holds %s\nexpected %s\n%s", model.FirstDiff(got, wantTV), clipS(got.Dump(), 600), clipS(wantTV.Dump(), 600), h.ctx(b, e.tv)))
		}
		if un != nil {
			if r := typedmon.ReadTyped(un); !model.Equal(r, wantTV) {
				c.Deviate("C19:unmarshal:returned-node-differs:"+sig, fmt.Sprintf("%s\nthe node Unmarshal returned reads %s\nexpected %s\n%s", model.FirstDiff(r, wantTV), clipS(r.Dump(), 600), clipS(wantTV.Dump(), 600), h.ctx(b, e.tv)))
			}
		}
		// the documented nil-bind form: a typed nil still says what to build
		if h.rng.Chance(1, 4) {
			nilPtr := reflect.Zero(reflect.PointerTo(b.g)).Interface()
			var n2 datamodel.Node
			var err2 error
			if !c.Guard("C19:unmarshal-nil-bind:"+sig, func() { n2, err2 = ipld.Unmarshal(data, cd.dec, nilPtr, h.schemaArg(b, inferred)) }) {
				if err2 != nil {
					c.Deviate("C19:unmarshal-nil-bind:fails:"+sig, fmt.Sprintf("Unmarshal with a typed nil failed: %v\n%s", err2, h.ctx(b, e.tv)))
				} else {
					h.unwrapCheck(e, n2, "unmarshal-nil-bind", sig, wantTV)
				}
			}
		}
	}
}

// reject: a conforming value the Go type cannot hold must be refused by every way in, never stored changed.
func (h *c19H) reject(b *c19Binding, tv model.Val, nf gobind.ErrNoFit) {
	c := h.c
	c.Count("nofit_inputs", 1)
	c.Count("nofit:"+nf.GoKind, 1)
	rv, rerr := b.ts.ReprOf(b.t, tv)
	for _, reprLevel := range []bool{false, true} {
		level := "type-level"
		if reprLevel {
			level = "representation-level"
		}
		sig := level + ":" + nf.GoKind + ":" + strings.ReplaceAll(nf.What, " ", "-")
		p := h.proto(b, false, sig)
		if p == nil {
			return
		}
		var o typedmon.Outcome
		switch {
		case reprLevel && rerr != nil:
			continue
		case reprLevel:
			o = typedmon.Feed(p.Representation(), rv)
		case typedmon.HasComplexKeys(b.ts, b.t):
			o = typedmon.FeedTyped(p, b.ts, b.t, b.ts.TypeInput(b.t, tv))
		default:
			o = typedmon.Feed(p, b.ts.TypeInput(b.t, tv))
		}
		if o.Panic != "" {
			c.Deviate("C19:does-not-fit:panic:"+sig, fmt.Sprintf("assembling a value the Go type cannot hold (%v) panicked: %s\n%s", nf, clipS(o.Panic, 1200), h.ctx(b, tv)))
			continue
		}
		if !o.Accepted {
			c.Count("nofit_rejected", 1)
			continue
		}
		stored := "?"
		if ptr := bindnode.Unwrap(o.Node); ptr != nil {
			bd := gobind.Binder{TS: b.ts}
			if got, err := bd.FromGo(b.t, reflect.ValueOf(ptr).Elem()); err == nil {
				stored = clipS(got.Dump(), 500)
			}
		}
		c.Deviate("C19:does-not-fit:stored-changed:"+sig, fmt.Sprintf("a value the Go type cannot hold (%v) was accepted by the %s builder; the Go value now holds %s\n%s", nf, level, stored, h.ctx(b, tv)))
	}
	if rerr == nil {
		data := refcbor.Encode(rv)
		fresh := reflect.New(b.g)
		var uerr error
		sig := "unmarshal:" + nf.GoKind + ":" + strings.ReplaceAll(nf.What, " ", "-")
		if !c.Guard("C19:does-not-fit:"+sig, func() { _, uerr = ipld.Unmarshal(data, dagcbor.Decode, fresh.Interface(), b.st) }) && uerr == nil {
			c.Deviate("C19:does-not-fit:stored-changed:"+sig, fmt.Sprintf("Unmarshal of a value the Go type cannot hold (%v) succeeded\n%s", nf, h.ctx(b, tv)))
		}
	}
}

// history: repeated and interleaved binding calls over this case's entries and earlier ones.
func (h *c19H) history(mine []c19Entry) {
	c, rng := h.c, h.rng
	all := append(append([]c19Entry{}, mine...), c19Pool...)
	if len(all) == 0 {
		return
	}
	n := 8 + rng.Intn(17)
	for k := 0; k < n; k++ {
		var e c19Entry
		if len(mine) > 0 && rng.Bool() {
			e = mine[rng.Intn(len(mine))]
		} else {
			e = all[rng.Intn(len(all))]
		}
		inferred := e.b.src == "inferred" && rng.Bool()
		h.cur = fmt.Sprintf("history step %d on %s", k, e.b.desc)
		c.Count("history_ops", 1)
		switch rng.Intn(6) {
		case 0, 1:
			h.wrapCheck(e, inferred, "history:")
		case 2:
			h.buildCheck(e, rng.Bool(), inferred, "history:")
		case 3:
			h.marshalCheck(e, inferred, "history:")
		case 4:
			// Go type inferred from the schema: pure as well (the Go type bindnode picks holds int64 only)
			if c19HasUint(e.tv) {
				continue
			}
			var p schema.TypedPrototype
			if c.Guard("C19:history:prototype-from-schema:"+e.b.sig(), func() { p = bindnode.Prototype(nil, e.b.st) }) {
				continue
			}
			in := e.b.ts.TypeInput(e.b.t, e.tv)
			var o typedmon.Outcome
			if typedmon.HasComplexKeys(e.b.ts, e.b.t) {
				o = typedmon.FeedTyped(p, e.b.ts, e.b.t, in)
			} else {
				o = typedmon.Feed(p, in)
			}
			if o.Panic != "" || !o.Accepted {
				c.Deviate("C19:history:prototype-from-schema-rejects:"+e.b.sig(), fmt.Sprintf("Prototype(nil, schema) builder: accepted=%v err=%v panic=%s\n%s", o.Accepted, o.Err, clipS(o.Panic, 800), h.ctx(e.b, e.tv)))
			} else if r := typedmon.ReadTyped(o.Node); !model.Equal(r, e.tv) {
				c.Deviate("C19:history:prototype-from-schema-differs:"+e.b.sig(), fmt.Sprintf("%s\nreads %s\nexpected %s\n%s", model.FirstDiff(r, e.tv), clipS(r.Dump(), 600), clipS(e.tv.Dump(), 600), h.ctx(e.b, e.tv)))
			}
		case 5:
			// two prototypes for the same arguments are interchangeable
			p1, p2 := h.proto(e.b, inferred, "history:twice:"+e.b.sig()), h.proto(e.b, inferred, "history:twice:"+e.b.sig())
			if p1 == nil || p2 == nil {
				continue
			}
			if p1.Type().Name() != p2.Type().Name() {
				c.Deviate("C19:history:prototype-not-pure:"+mode(inferred)+":"+e.b.sig(), fmt.Sprintf("two Prototype calls with the same arguments give types %q and %q\n%s", p1.Type().Name(), p2.Type().Name(), h.ctx(e.b, e.tv)))
			}
		}
	}
}

func clipBytes(b []byte) []byte {
	if len(b) > 200 {
		return b[:200]
	}
	return b
}

// c19SharedMemory walks two Go values of the same type in parallel and names the first place where a non-empty
// slice, a map or a pointer of one is the same memory as the other's ("" if there is none). Interface-held
// nodes and links are immutable library values and may be shared; so may byte slices, which the library hands on
// without copying by design (my first version flagged them on the unchanged tree — demanding more than the
// properties state, which exclude callers that write into byte slices; corrected before it was committed).
func c19SharedMemory(a, b reflect.Value, path string, depth int) string {
	if depth > 12 || !a.IsValid() || !b.IsValid() || a.Type() != b.Type() {
		return ""
	}
	switch a.Kind() {
	case reflect.Ptr:
		if a.IsNil() || b.IsNil() {
			return ""
		}
		if a.Pointer() == b.Pointer() {
			return path + " (pointer)"
		}
		return c19SharedMemory(a.Elem(), b.Elem(), path+"*", depth+1)
	case reflect.Slice:
		if a.Len() == 0 || b.Len() == 0 {
			return ""
		}
		if a.Type().Elem().Kind() == reflect.Uint8 {
			return "" // bytes are handed on without copying by design (AsBytes/AssignBytes); the properties exclude callers writing into byte slices
		}
		if a.Pointer() == b.Pointer() {
			return path + " (slice)"
		}
		for i := 0; i < a.Len() && i < b.Len(); i++ {
			if w := c19SharedMemory(a.Index(i), b.Index(i), fmt.Sprintf("%s[%d]", path, i), depth+1); w != "" {
				return w
			}
		}
	case reflect.Map:
		if a.IsNil() || b.IsNil() {
			return ""
		}
		if a.Pointer() == b.Pointer() {
			return path + " (map)"
		}
		for _, k := range a.MapKeys() {
			if bv := b.MapIndex(k); bv.IsValid() {
				if w := c19SharedMemory(a.MapIndex(k), bv, fmt.Sprintf("%s[%v]", path, k), depth+1); w != "" {
					return w
				}
			}
		}
	case reflect.Struct:
		for i := 0; i < a.NumField(); i++ {
			if !a.Type().Field(i).IsExported() {
				continue
			}
			if w := c19SharedMemory(a.Field(i), b.Field(i), path+"."+a.Type().Field(i).Name, depth+1); w != "" {
				return w
			}
		}
	}
	return ""
}

// ---- custom converters (bindnode options) -----------------------------------------------------------------
//
// bindnode.Typed*Converter options let a Go type of the user's own stand for a schema scalar. The options are
// part of the binding's arguments: Wrap, Prototype (type and representation builders, also after Reset) and
// Marshal/Unmarshal given the same options must convert every time. (Round-4 seed C19-10: the representation
// builder forgetting the options on Reset — the first value built is right, every later one is not.)

type cvTook struct{ Ms int64 }   // schema Int x  <->  cvTook{Ms: x * 1000}
type cvBlob struct{ Rev []byte } // schema Bytes b <-> cvBlob{Rev: reverse(b)}
type cvRec struct {
	Took cvTook
	Blob cvBlob
	List []cvTook
	Opt  *cvBlob
}

func cvReverse(b []byte) []byte {
	out := make([]byte, len(b))
	for i := range b {
		out[len(b)-1-i] = b[i]
	}
	return out
}

var cvOpts = []bindnode.Option{
	bindnode.TypedIntConverter(&cvTook{}, func(i int64) (interface{}, error) { return &cvTook{Ms: i * 1000}, nil },
		func(v interface{}) (int64, error) { return v.(*cvTook).Ms / 1000, nil }),
	bindnode.TypedBytesConverter(&cvBlob{}, func(b []byte) (interface{}, error) { return &cvBlob{Rev: cvReverse(b)}, nil },
		func(v interface{}) ([]byte, error) { return cvReverse(v.(*cvBlob).Rev), nil }),
}

var cvTS *schema.TypeSystem

func c19Converters(c *fw.Ctx, rng *fw.RNG) {
	if cvTS == nil {
		ts := new(schema.TypeSystem)
		ts.Init()
		ts.Accumulate(schema.SpawnInt("Took"))
		ts.Accumulate(schema.SpawnBytes("Blob"))
		ts.Accumulate(schema.SpawnList("TookList", "Took", false))
		ts.Accumulate(schema.SpawnStruct("Rec", []schema.StructField{
			schema.SpawnStructField("Took", "Took", false, false), schema.SpawnStructField("Blob", "Blob", false, false),
			schema.SpawnStructField("List", "TookList", false, false), schema.SpawnStructField("Opt", "Blob", true, false),
		}, schema.SpawnStructRepresentationMap(map[string]string{"Took": "t"})))
		cvTS = ts
	}
	typ := cvTS.TypeByName("Rec")
	type val struct {
		took int64
		blob []byte
		list []int64
		opt  []byte // nil = absent
	}
	draw := func() val {
		v := val{took: int64(rng.Intn(2000)) - 1000, blob: rng.Bytes(1 + rng.Intn(6))}
		for k := 0; k < rng.Intn(4); k++ {
			v.list = append(v.list, int64(rng.Intn(500)))
		}
		if rng.Bool() {
			v.opt = rng.Bytes(1 + rng.Intn(4))
		}
		return v
	}
	model2 := func(v val, repr bool) model.Val {
		l := model.Val{K: model.KList, L: []model.Val{}}
		for _, x := range v.list {
			l.L = append(l.L, model.Int(x))
		}
		tk := "Took"
		if repr {
			tk = "t"
		}
		es := []model.Entry{model.E(tk, model.Int(v.took)), model.E("Blob", model.Bytes(v.blob)), model.E("List", l)}
		if v.opt != nil {
			es = append(es, model.E("Opt", model.Bytes(v.opt)))
		} else if !repr {
			es = append(es, model.E("Opt", model.Val{K: model.KAbsent}))
		}
		return model.Val{K: model.KMap, M: es}
	}
	goOf := func(v val) cvRec {
		g := cvRec{Took: cvTook{v.took * 1000}, Blob: cvBlob{cvReverse(v.blob)}}
		for _, x := range v.list {
			g.List = append(g.List, cvTook{x * 1000})
		}
		if v.opt != nil {
			g.Opt = &cvBlob{cvReverse(v.opt)}
		}
		return g
	}
	sameGo := func(a, b cvRec) bool {
		if a.Took != b.Took || !bytes.Equal(a.Blob.Rev, b.Blob.Rev) || len(a.List) != len(b.List) || (a.Opt == nil) != (b.Opt == nil) {
			return false
		}
		for i := range a.List {
			if a.List[i] != b.List[i] {
				return false
			}
		}
		return a.Opt == nil || bytes.Equal(a.Opt.Rev, b.Opt.Rev)
	}
	c.SetCase(func() any { return map[string]any{"family": "custom converters"} })
	c.Guard("C19:converters", func() {
		// Wrap reads the converted data
		v := draw()
		g := goOf(v)
		n := bindnode.Wrap(&g, typ, cvOpts...)
		if got := obs.ReadOut(n, obs.Options{Typed: true, NoWrongKindProbes: true}).Val; !model.Equal(got, model2(v, false)) {
			c.Deviate("C19:converters:wrap-differs", fmt.Sprintf("Wrap with converter options reads %s, the Go value holds %s", got.Dump(), model2(v, false).Dump()))
		}
		c.Count("converter_checks", 1)
		// builders at both levels, reused through Reset three times
		for _, reprLevel := range []bool{false, true} {
			proto := bindnode.Prototype((*cvRec)(nil), typ, cvOpts...)
			var nb datamodel.NodeBuilder = proto.NewBuilder()
			if reprLevel {
				nb = proto.Representation().NewBuilder()
			}
			for round := 0; round < 3; round++ {
				v := draw()
				in := model2(v, reprLevel)
				var plain []model.Entry
				for _, e := range in.M {
					if e.V.K != model.KAbsent {
						plain = append(plain, e)
					}
				}
				if err := build.Assemble(nb, model.Val{K: model.KMap, M: plain}, &build.Prog{Plain: true}); err != nil {
					c.Deviate("C19:converters:build-fails", fmt.Sprintf("round %d after Reset (representation level: %v): %v for %s", round, reprLevel, err, in.Dump()))
					break
				}
				built := nb.Build()
				ptr, _ := bindnode.Unwrap(built).(*cvRec)
				if ptr == nil || !sameGo(*ptr, goOf(v)) {
					c.Deviate("C19:converters:go-value-differs", fmt.Sprintf("round %d of one builder (reused through Reset; representation level: %v): assembled %s, the Go value holds %+v, expected %+v", round, reprLevel, in.Dump(), ptr, goOf(v)))
					break
				}
				c.Count("converter_builds", 1)
				nb.Reset()
			}
		}
		// Marshal / Unmarshal with the same options
		v2 := draw()
		g2 := goOf(v2)
		enc, err := ipld.Marshal(dagcbor.Encode, &g2, typ, cvOpts...)
		if err != nil {
			c.Deviate("C19:converters:marshal-fails", err.Error())
			return
		}
		if want := refcbor.Encode(model2(v2, true)); !bytes.Equal(enc, want) {
			c.Deviate("C19:converters:marshal-bytes-differ", fmt.Sprintf("Marshal gives %x, the representation encodes as %x", enc, want))
		}
		var back cvRec
		if _, err := ipld.Unmarshal(enc, dagcbor.Decode, &back, typ, cvOpts...); err != nil || !sameGo(back, g2) {
			c.Deviate("C19:converters:unmarshal-differs", fmt.Sprintf("Unmarshal(Marshal(v)) gives %+v (%v), v = %+v", back, err, g2))
		}
	})
}
