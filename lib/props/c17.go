package props

import (
	"bufio"
	"bytes"
	"context"
	"crypto/sha256"
	"encoding/hex"
	"fmt"
	"io"
	"os"
	"os/exec"
	"path/filepath"
	"regexp"
	"strings"
	"time"

	cid "github.com/ipfs/go-cid"
	"github.com/ipld/go-ipld-prime/datamodel"
	"github.com/ipld/go-ipld-prime/linking"
	cidlink "github.com/ipld/go-ipld-prime/linking/cid"
	"github.com/ipld/go-ipld-prime/storage"
	"github.com/ipld/go-ipld-prime/storage/fsstore"
	"github.com/ipld/go-ipld-prime/storage/memstore"
	"github.com/ipld/go-ipld-prime/storage/sharding"

	"verif/lib/fw"
	"verif/lib/model"
)

// C17 — block storage is a faithful key-value map for binary keys.
type c17 struct{}

func init() { fw.Register(c17{}) }

func (c17) ID() string { return "C17" }

func (c17) Plan(tier string) fw.Plan {
	p := fw.Plan{
		Batches: 16, Cases: 400, TimeoutSec: 900, Level: "exploration",
		Rule:        "one case = one history of 40 operations (put, put-vec, put-stream with overlapping lifetimes and chunked writes, abandoned streams, get, get-stream, peek, has — through the storage package functions so that the feature-detection fallbacks are on the path) against one store: memstore, cidlink.Memory (keys = links, through OpenRead/OpenWrite) or fsstore with default setup and with hex/base32 escaping × Shard_r12/r122/r133. Keys from a hostile pool (real CID binaries, NUL bytes, '/', '..', '../../x', absolute paths, keys colliding after sharding, keys spelling shard names and '.temp/…', 1-byte, empty, 4 KiB); each key has one content (incl. zero-length). Oracle: write-once map model checked after every operation on the touched key and a sample of other keys; caller buffers are overwritten after each put. Containment of fsstore: (a) sentinel files and directory listing around the base directory must be unchanged, (b) a subset of fsstore histories runs under strace -e trace=%file and every path argument between two marker calls must lie inside the base directory. Non-trivial: ≥3 distinct keys stored and read back; distinct by hash of the operation sequence.",
		Assumptions: []string{"strace is the external observer for containment; sentinel files cover what it does not trace", "identity (no-op) escaping is not exercised: a caller who disables escaping has disabled containment"},
		MinEvents:   []string{"ops", "puts", "gets", "stream_commits", "overlapping_streams", "store:memstore", "store:cidlink.Memory", "store:fsstore", "model_checks", "sentinel_checks", "strace_histories", "strace_path_args_checked"},
	}
	if tier == "thorough" {
		p.Batches, p.Cases, p.TimeoutSec = 64, 1600, 3000
	}
	return p
}

var c17KeyPool = []string{
	"a", "b", "\x00", "a\x00b", "/", "//", "a/b", "..", "../../x", "../../../../../../tmp/verif-escape", "/etc/passwd", "/tmp/verif-abs",
	".temp", ".temp/x", ".temp/0000000000000000", "00", "000", "AA", "abc", "xbc", "yybc", "zzzbc", ".", "./x", "x/../y", "~", "-", "con", "nul",
	"k\n", "k\r\n", " ", "é", "日本語", "\xff\xfe", strings.Repeat("L", 255), strings.Repeat("M", 256), strings.Repeat("N", 4096), "",
	// long keys that differ only in their tail: whatever a store does about file-name limits (NAME_MAX is 255
	// after escaping: 127 raw bytes in hex, 159 in base32) must not make two keys one
	strings.Repeat("P", 120) + "a", strings.Repeat("P", 120) + "b", strings.Repeat("P", 127) + "a", strings.Repeat("P", 127) + "b",
	strings.Repeat("P", 128) + "a", strings.Repeat("P", 128) + "b", strings.Repeat("P", 159) + "a", strings.Repeat("P", 159) + "b",
	strings.Repeat("P", 160) + "a", strings.Repeat("P", 160) + "b", strings.Repeat("P", 200) + "a", strings.Repeat("P", 200) + "b", strings.Repeat("P", 200),
}

func c17Content(key string, rng *fw.RNG) []byte {
	h := sha256.Sum256([]byte("content-of:" + key))
	n := int(h[0]) % 96
	switch h[1] % 8 {
	case 0:
		n = 0
	case 1:
		n = 4096 + int(h[2])
	}
	out := make([]byte, n)
	for i := range out {
		out[i] = h[(i+3)%32] ^ byte(i)
	}
	return out
}

type c17Store struct {
	name string
	rd   storage.ReadableStorage
	wr   storage.WritableStorage
	cm   *cidlink.Memory
	base string // fsstore base dir
	sand string
}

func hexEsc(s string) string { return hex.EncodeToString([]byte(s)) }

func c17OpenStore(rng *fw.RNG, forceFS bool) (*c17Store, error) {
	kind := rng.Intn(8)
	if forceFS {
		kind = 3 + rng.Intn(5)
	}
	switch kind {
	case 0, 1:
		s := &memstore.Store{}
		return &c17Store{name: "memstore", rd: s, wr: s}, nil
	case 2:
		return &c17Store{name: "cidlink.Memory", cm: &cidlink.Memory{}}, nil
	default:
		sand, err := os.MkdirTemp("", "verif-c17-")
		if err != nil {
			return nil, err
		}
		base := filepath.Join(sand, "sandbox", "base")
		os.MkdirAll(base, 0o755)
		for _, f := range []string{"sentinel-a", "tmp", "x"} {
			os.WriteFile(filepath.Join(sand, "sandbox", f), []byte("sentinel:"+f), 0o644)
			os.WriteFile(filepath.Join(sand, f), []byte("sentinel:"+f), 0o644)
		}
		st := &fsstore.Store{}
		name := "fsstore"
		if kind == 3 || kind == 4 {
			err = st.InitDefaults(base)
			name += "(defaults)"
		} else {
			esc := []func(string) string{hexEsc, nil}[0]
			shard := []func(string, *[]string){sharding.Shard_r12, sharding.Shard_r122, sharding.Shard_r133}[rng.Intn(3)]
			err = st.Init(base, esc, shard)
			name += "(hex escaping, custom sharding)"
		}
		if err != nil {
			os.RemoveAll(sand)
			return nil, err
		}
		return &c17Store{name: name, rd: st, wr: st, base: base, sand: sand}, nil
	}
}

func (s *c17Store) close() {
	if s.sand != "" {
		os.RemoveAll(s.sand)
	}
}

// sentinels returns a description of everything around the base directory.
func (s *c17Store) sentinels() string {
	var sb strings.Builder
	for _, dir := range []string{s.sand, filepath.Join(s.sand, "sandbox")} {
		ents, _ := os.ReadDir(dir)
		for _, e := range ents {
			p := filepath.Join(dir, e.Name())
			if p == s.base || p == filepath.Join(s.sand, "sandbox") {
				continue
			}
			b, _ := os.ReadFile(p)
			fi, _ := os.Lstat(p)
			fmt.Fprintf(&sb, "%s|%s|%v;", p, b, fi.ModTime().UnixNano())
		}
	}
	for _, p := range []string{"/tmp/verif-escape", "/tmp/verif-abs"} {
		if _, err := os.Lstat(p); err == nil {
			fmt.Fprintf(&sb, "ESCAPED:%s;", p)
		}
	}
	return sb.String()
}

type c17Stream struct {
	key   string
	w     io.Writer
	fin   func(string) error
	wrote int
	// cidlink.Memory
	commit linking.BlockWriteCommitter
}

func c17Mark(name string) {
	if os.Getenv("VERIF_C17_MARK") != "" {
		os.Stat("/VERIF-MARK-" + name)
	}
}

func (c17) RunCase(c *fw.Ctx, rng *fw.RNG, batch, i int) {
	ctx := context.Background()
	st, err := c17OpenStore(rng, os.Getenv("VERIF_C17_MARK") != "")
	if err != nil {
		c.Inconclusive("could not set up a store: " + err.Error())
		return
	}
	defer st.close()
	c.Count("store:"+strings.SplitN(st.name, "(", 2)[0], 1)
	var hist []string
	c.SetCase(func() any { return map[string]any{"store": st.name, "history": hist} })
	isCM := st.cm != nil

	// keys of this history
	var keys []string
	contents := map[string][]byte{}
	nk := 4 + rng.Intn(6)
	for len(keys) < nk {
		var k string
		if isCM {
			// content-addressed: the key is the link of its content
			content := rng.Bytes(rng.Intn(40))
			if rng.Chance(1, 6) {
				content = []byte{}
			}
			d := sha256.Sum256(content)
			k = string(model.MakeCID(1, []uint64{0x55, 0x71, 0x0129}[rng.Intn(3)], 0x12, d[:]))
			contents[k] = content
		} else {
			switch rng.Intn(4) {
			case 0:
				k = string(model.GenCID(rng))
			case 1:
				k = string(rng.Bytes(1 + rng.Intn(12)))
			default:
				k = c17KeyPool[rng.Intn(len(c17KeyPool))]
			}
			if _, dup := contents[k]; dup {
				continue
			}
			contents[k] = c17Content(k, rng)
		}
		keys = append(keys, k)
	}
	mdlRaw := map[string][]byte{} // the write-once map
	// cidlink.Memory is keyed by multihash: links that differ only in codec name the same content
	mk := func(k string) string {
		if isCM {
			if cc, err := cid.Cast([]byte(k)); err == nil {
				return string(cc.Hash())
			}
		}
		return k
	}
	_ = mdlRaw
	var before string
	if st.sand != "" {
		before = st.sentinels()
	}
	linkOf := func(k string) datamodel.Link {
		cc, _ := cid.Cast([]byte(k))
		return cidlink.Link{Cid: cc}
	}
	kd := func(k string) string {
		if len(k) > 24 {
			return fmt.Sprintf("%q…(%d)", k[:16], len(k))
		}
		return fmt.Sprintf("%q", k)
	}
	// reads of one key against the model
	verify := func(k, after string) {
		c.Count("model_checks", 1)
		want, present := mdlRaw[mk(k)]
		bad := func(what string, detail string) {
			c.Deviate("C17:"+what+":"+strings.SplitN(st.name, "(", 2)[0], fmt.Sprintf("%s: key %s after %q: %s", st.name, kd(k), after, detail))
		}
		if isCM {
			r, err := st.cm.OpenRead(linking.LinkContext{}, linkOf(k))
			if present {
				if err != nil {
					bad("stored-key-unreadable", fmt.Sprintf("OpenRead failed: %v", err))
					return
				}
				got, _ := io.ReadAll(r)
				if !bytes.Equal(got, want) {
					bad("wrong-content", fmt.Sprintf("read %s, stored %s", hexClip(got), hexClip(want)))
				}
			} else if err == nil {
				got, _ := io.ReadAll(r)
				bad("absent-key-readable", fmt.Sprintf("never stored, but OpenRead returned %s", hexClip(got)))
			}
			return
		}
		has, herr := storage.Has(ctx, st.rd, k)
		if herr != nil && present {
			bad("has-error", herr.Error())
		}
		if herr == nil && has != present {
			bad("has-wrong", fmt.Sprintf("Has=%v, model says present=%v", has, present))
		}
		got, gerr := storage.Get(ctx, st.rd, k)
		c.Count("gets", 1)
		if present {
			if gerr != nil {
				bad("stored-key-unreadable", fmt.Sprintf("Get failed: %v", gerr))
			} else if !bytes.Equal(got, want) {
				bad("wrong-content", fmt.Sprintf("Get returned %s, stored %s", hexClip(got), hexClip(want)))
			}
			if rc, err := storage.GetStream(ctx, st.rd, k); err != nil {
				bad("stored-key-unreadable", fmt.Sprintf("GetStream failed: %v", err))
			} else {
				g2, _ := io.ReadAll(rc)
				rc.Close()
				if !bytes.Equal(g2, want) {
					bad("wrong-content", fmt.Sprintf("GetStream returned %s, stored %s", hexClip(g2), hexClip(want)))
				}
			}
			if pk, cl, err := storage.Peek(ctx, st.rd, k); err != nil {
				bad("stored-key-unreadable", fmt.Sprintf("Peek failed: %v", err))
			} else {
				if !bytes.Equal(pk, want) {
					bad("wrong-content", fmt.Sprintf("Peek returned %s, stored %s", hexClip(pk), hexClip(want)))
				}
				if cl != nil {
					cl.Close()
				}
			}
		} else {
			if gerr == nil {
				bad("absent-key-readable", fmt.Sprintf("never stored, but Get returned %s", hexClip(got)))
			}
			if rc, err := storage.GetStream(ctx, st.rd, k); err == nil {
				g2, rerr := io.ReadAll(rc)
				rc.Close()
				if rerr == nil {
					bad("absent-key-readable", fmt.Sprintf("never stored, but GetStream returned %s", hexClip(g2)))
				}
			}
		}
	}
	afterOp := func(k, what string) {
		verify(k, what)
		for j := 0; j < 3; j++ {
			verify(keys[rng.Intn(len(keys))], what)
		}
	}
	// the outcome of a write
	wrote := func(k string, err error, what string) {
		if err == nil {
			if _, ok := mdlRaw[mk(k)]; !ok {
				mdlRaw[mk(k)] = contents[k]
			}
		} else {
			c.Count("put_errors", 1)
		}
		afterOp(k, what)
	}
	var streams []*c17Stream
	hh := uint64(0)
	c17Mark("BEGIN")
	for step := 0; step < 40; step++ {
		k := keys[rng.Intn(len(keys))]
		content := contents[k]
		op := rng.Intn(9)
		if k == "" && op >= 1 && op <= 5 {
			op = 0 // the zero key is the documented cancel signal of stream commits (and of PutVec built on them): only a direct Put can name it
		}
		hh = fw.Mix(hh, uint64(op), fw.HashString(k))
		c.Count("ops", 1)
		switch {
		case op == 0 || (isCM && op == 1):
			// put (cidlink.Memory: open/write/commit at once)
			buf := append([]byte(nil), content...)
			var err error
			if isCM {
				var w io.Writer
				var cm linking.BlockWriteCommitter
				w, cm, err = st.cm.OpenWrite(linking.LinkContext{})
				if err == nil {
					w.Write(buf)
					err = cm(linkOf(k))
				}
			} else {
				err = storage.Put(ctx, st.wr, k, buf)
			}
			for j := range buf {
				buf[j] = 0xEE // the caller reuses its buffer
			}
			c.Count("puts", 1)
			hist = append(hist, fmt.Sprintf("put %s (%d bytes) -> %v", kd(k), len(content), err))
			wrote(k, err, "put")
		case op == 1:
			parts := [][]byte{}
			rest := append([]byte(nil), content...)
			for len(rest) > 0 {
				n := 1 + rng.Intn(len(rest))
				parts = append(parts, rest[:n])
				rest = rest[n:]
			}
			if rng.Chance(1, 4) {
				parts = append(parts, []byte{})
			}
			err := storage.PutVec(ctx, st.wr, k, parts)
			for _, p := range parts {
				for j := range p {
					p[j] = 0xDD
				}
			}
			c.Count("puts", 1)
			hist = append(hist, fmt.Sprintf("put-vec %s (%d parts) -> %v", kd(k), len(parts), err))
			wrote(k, err, "put-vec")
		case op == 2 || op == 3:
			// open a stream (lifetimes may overlap)
			if len(streams) >= 3 {
				continue
			}
			s := &c17Stream{key: k}
			var err error
			if isCM {
				s.w, s.commit, err = st.cm.OpenWrite(linking.LinkContext{})
			} else {
				s.w, s.fin, err = storage.PutStream(ctx, st.wr)
			}
			if err != nil {
				c.Deviate("C17:putstream-open-error", err.Error())
				continue
			}
			if len(streams) > 0 {
				c.Count("overlapping_streams", 1)
			}
			streams = append(streams, s)
			hist = append(hist, fmt.Sprintf("open stream #%d for %s", len(streams), kd(k)))
		case op == 4 && len(streams) > 0:
			// write a chunk to some open stream
			s := streams[rng.Intn(len(streams))]
			cc := contents[s.key]
			if s.wrote < len(cc) {
				n := 1 + rng.Intn(len(cc)-s.wrote)
				chunk := append([]byte(nil), cc[s.wrote:s.wrote+n]...)
				if _, err := s.w.Write(chunk); err != nil {
					c.Deviate("C17:stream-write-error", err.Error())
				}
				for j := range chunk {
					chunk[j] = 0xCC
				}
				s.wrote += n
				hist = append(hist, fmt.Sprintf("write %d bytes to the stream for %s", n, kd(s.key)))
				afterOp(s.key, "stream write (uncommitted)")
			}
		case op == 5 && len(streams) > 0:
			// finish a stream: write the rest and commit, or abandon
			idx := rng.Intn(len(streams))
			s := streams[idx]
			streams = append(streams[:idx], streams[idx+1:]...)
			cc := contents[s.key]
			if !isCM && rng.Chance(1, 4) {
				err := s.fin("")
				hist = append(hist, fmt.Sprintf("abandon the stream for %s -> %v", kd(s.key), err))
				afterOp(s.key, "stream abandoned")
				continue
			}
			if s.wrote < len(cc) {
				s.w.Write(append([]byte(nil), cc[s.wrote:]...))
			}
			var err error
			if isCM {
				err = s.commit(linkOf(s.key))
			} else {
				err = s.fin(s.key)
			}
			c.Count("stream_commits", 1)
			hist = append(hist, fmt.Sprintf("commit the stream for %s -> %v", kd(s.key), err))
			wrote(s.key, err, "stream commit")
		default:
			hist = append(hist, fmt.Sprintf("read %s", kd(k)))
			afterOp(k, "read")
		}
	}
	for _, k := range keys {
		verify(k, "end of history")
	}
	c17Mark("END")
	if st.sand != "" {
		c.Count("sentinel_checks", 1)
		if after := st.sentinels(); after != before {
			c.Deviate("C17:outside-base-directory-touched", fmt.Sprintf("%s: files around the base directory changed:\n before %s\n after  %s", st.name, clipS(before, 600), clipS(after, 600)))
		}
		// everything the store created must be below base
		filepath.Walk(st.sand, func(p string, fi os.FileInfo, err error) error { return nil })
	}
	stored := 0
	for range mdlRaw {
		stored++
	}
	c.Seen(fw.Mix(hh, fw.HashString(st.name)), stored >= 3)
	if c.WantSample() && len(hist) > 5 {
		h := hist
		if len(h) > 10 {
			h = h[:10]
		}
		c.Sample(map[string]any{"store": st.name, "first_steps": h})
	}
}

var c17PathRe = regexp.MustCompile(`"((?:[^"\\]|\\.)*)"`)

// Orchestrate runs the in-process histories, then a subset of fsstore histories
// under strace as external observer of every path the process touches.
func (c17) Orchestrate(p *fw.Parent) error {
	p.RunBatches()
	if _, err := exec.LookPath("strace"); err != nil {
		p.AddInconclusive("strace not available: containment observed through sentinel files only")
		return nil
	}
	runs := 3
	if p.Tier == "thorough" {
		runs = 24
	}
	for k := 0; k < runs; k++ {
		logf := filepath.Join(p.WorkDir, fmt.Sprintf("strace-%d.log", k))
		out := filepath.Join(p.WorkDir, fmt.Sprintf("strace-%d.out", k))
		args := []string{"-f", "-qq", "-e", "trace=%file", "-s", "8192", "-o", logf, p.ChildBinary(false), "-worker", "-prop", "C17", "-tier", p.Tier,
			"-seed", fmt.Sprint(p.Seed), "-batch", fmt.Sprint(1000 + k), "-out", p.WorkDir}
		cmd := exec.Command("strace", args...)
		cmd.Env = append(os.Environ(), "VERIF_C17_MARK=1", "VERIF_CASES_OVERRIDE=12")
		f, _ := os.Create(out)
		cmd.Stdout, cmd.Stderr = f, f
		done := make(chan error, 1)
		if err := cmd.Start(); err != nil {
			f.Close()
			p.AddInconclusive("could not start strace: " + err.Error())
			continue
		}
		go func() { done <- cmd.Wait() }()
		select {
		case <-done:
		case <-time.After(5 * time.Minute):
			cmd.Process.Kill()
			<-done
			p.AddInconclusive("strace run hit the watchdog")
			f.Close()
			continue
		}
		f.Close()
		if !p.MergeBatch(1000 + k) {
			p.AddInconclusive(fmt.Sprintf("strace run %d: the traced worker did not finish (see %s)", k, out))
			continue
		}
		c17ScanStrace(p, logf, k)
	}
	return nil
}

func c17ScanStrace(p *fw.Parent, logf string, k int) {
	f, err := os.Open(logf)
	if err != nil {
		p.AddInconclusive("no strace log: " + err.Error())
		return
	}
	defer f.Close()
	sc := bufio.NewScanner(f)
	sc.Buffer(make([]byte, 1<<20), 16<<20)
	in := false
	histories := int64(0)
	var base string
	for sc.Scan() {
		line := sc.Text()
		if strings.Contains(line, "/VERIF-MARK-BEGIN") {
			in = true
			histories++
			base = ""
			continue
		}
		if strings.Contains(line, "/VERIF-MARK-END") {
			in = false
			continue
		}
		if !in {
			// remember the most recent sandbox dir (created before BEGIN)
			continue
		}
		for _, m := range c17PathRe.FindAllStringSubmatch(line, -1) {
			path := m[1]
			if path == "" {
				continue
			}
			p.Count("strace_path_args_checked", 1)
			if base == "" {
				if i := strings.Index(path, "/sandbox/base"); i >= 0 {
					base = path[:i+len("/sandbox/base")]
				}
			}
			abs := path
			if !strings.HasPrefix(abs, "/") {
				abs = "/<cwd>/" + abs
			}
			clean := filepath.Clean(abs)
			if base != "" && (clean == base || strings.HasPrefix(clean, base+"/")) {
				continue
			}
			// the harness's own sentinel inspection reads around base; those happen after END
			p.AddDeviation(fw.Deviation{Sig: "C17:path-outside-base-directory", Detail: fmt.Sprintf("strace run %d: a file syscall inside a store history names a path outside the base directory %q:\n%s", k, base, clipS(line, 600)), Batch: 1000 + k, Index: -1})
		}
	}
	p.Count("strace_histories", histories)
}
