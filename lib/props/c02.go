package props

import (
	"bytes"
	"encoding/hex"
	"fmt"
	"strings"

	"github.com/ipld/go-ipld-prime/codec/dagcbor"
	"github.com/ipld/go-ipld-prime/datamodel"
	"github.com/ipld/go-ipld-prime/multicodec"
	"github.com/ipld/go-ipld-prime/node/basicnode"

	"verif/lib/build"
	"verif/lib/fnode"
	"verif/lib/fw"
	"verif/lib/model"
	"verif/lib/obs"
	refcbor "verif/lib/ref/cbor"
)

// C02 — DAG-CBOR encoding is canonical, order-independent, round-trips.
type c02 struct{}

func init() { fw.Register(c02{}) }

func (c02) ID() string { return "C02" }

func (c02) Plan(tier string) fw.Plan {
	p := fw.Plan{
		Batches: 16, Cases: 1500, TimeoutSec: 900, Level: "exploration",
		Rule:        "values drawn boundary-biased from the C02 domain (finite floats, CIDs of all versions/codecs/multihash shapes, ints over int64 ∪ uint64, arbitrary byte strings as strings and keys), each built in several insertion orders (all permutations for maps of ≤4 keys in the dedicated permutation cases) through basicnode build programs and the harness-owned node implementation; plus a deterministic sweep of every integer and every string/bytes/list/map length at each CBOR head boundary ±1. Non-trivial: the value contains a map with ≥2 keys or an integer/length needing a multi-byte head; distinct by canonical hash of the value.",
		Assumptions: []string{"reference encoder lib/ref/cbor is the canonical DAG-CBOR form (written from the spec, ~100 lines)", "go-cid is trusted for turning CID bytes into a Link value"},
		MinEvents:   []string{"encodes", "decodes", "encoded_length_calls", "permutation_cases", "boundary_cases"},
	}
	if tier == "thorough" {
		p.Batches, p.Cases, p.TimeoutSec = 64, 4000, 3000
	}
	return p
}

var c02Opts = model.GenOpts{MaxDepth: 5, MaxWidth: 7, Uint: true, NonUTF8: true, Links: true, Wide: true}

func c02Boundary(i int) (model.Val, bool) {
	lens := []int{0, 1, 22, 23, 24, 25, 254, 255, 256, 257, 65534, 65535, 65536, 65537}
	kinds := 4
	if i < len(lens)*kinds {
		n := lens[i/kinds]
		switch i % kinds {
		case 0:
			return model.String(strings.Repeat("s", n)), true
		case 1:
			return model.Bytes(bytes.Repeat([]byte{0xb}, n)), true
		case 2:
			xs := make([]model.Val, n)
			for j := range xs {
				xs[j] = model.Int(int64(j % 3))
			}
			return model.Val{K: model.KList, L: xs}, true
		default:
			es := make([]model.Entry, n)
			for j := range es {
				// insertion order deliberately not the canonical order
				es[j] = model.Entry{K: fmt.Sprintf("k%d", (j*7919)%n), V: model.Int(int64(j))}
			}
			if n > 0 && n%7919 == 0 {
				return model.Null(), false
			}
			return model.Val{K: model.KMap, M: dedupe(es)}, true
		}
	}
	i -= len(lens) * kinds
	us := []uint64{0, 1, 22, 23, 24, 25, 254, 255, 256, 257, 65534, 65535, 65536, 65537, 1<<32 - 2, 1<<32 - 1, 1 << 32, 1<<32 + 1,
		1<<63 - 2, 1<<63 - 1, 1 << 63, 1<<63 + 1, 1<<64 - 2, 1<<64 - 1}
	if i < len(us) {
		return model.Uint(us[i]), true
	}
	i -= len(us)
	if i < len(us) {
		u := us[i]
		if u > 1<<63-1 {
			return model.Null(), false
		}
		return model.Int(-1 - int64(u)), true
	}
	i -= len(us)
	// links whose binary CID length sits at each head boundary (the encoded byte
	// string is one longer because of the 0x00 prefix): identity multihash of n bytes
	cidLens := []int{21, 22, 23, 24, 25, 253, 254, 255, 256, 257, 65533, 65534, 65535, 65536, 65537}
	if i < len(cidLens) {
		want := cidLens[i]
		for n := 0; n <= want; n++ {
			cb := model.MakeCID(1, 0x55, 0x00, bytes.Repeat([]byte{0xa5}, n))
			if len(cb) == want {
				return model.List(model.Link(cb), model.Map(model.E("l", model.Link(cb)))), true
			}
		}
		return model.Null(), false
	}
	return model.Val{}, false
}

// failingWriter fails at its k-th Write.
type failingWriter struct{ k, n int }

func (w *failingWriter) Write(p []byte) (int, error) {
	if w.n >= w.k {
		return 0, fmt.Errorf("injected write failure")
	}
	w.n++
	return len(p), nil
}

func dedupe(es []model.Entry) []model.Entry {
	seen := map[string]bool{}
	out := es[:0]
	for _, e := range es {
		if !seen[e.K] {
			seen[e.K] = true
			out = append(out, e)
		}
	}
	return out
}

const c02BoundaryCases = 14*4 + 24 + 24 + 15

func (c02) RunCase(c *fw.Ctx, rng *fw.RNG, batch, i int) {
	var v model.Val
	mode := "random"
	switch {
	case batch == 0 && i < c02BoundaryCases:
		var ok bool
		v, ok = c02Boundary(i)
		if !ok {
			return
		}
		if c.Tier == "quick" && v.Stats().Nodes > 70000 {
			return
		}
		mode = "boundary"
		c.Count("boundary_cases", 1)
	case i%5 == 0:
		// permutation case: a map of 2..4 adversarial keys, all permutations
		mode = "perm"
		n := 2 + rng.Intn(3)
		o := c02Opts
		o.MaxDepth = 2
		for {
			v = model.Gen(rng, o)
			if v.K == model.KMap && len(v.M) >= 2 {
				break
			}
		}
		if len(v.M) > n {
			v.M = v.M[:n]
		}
		c.Count("permutation_cases", 1)
	default:
		opts := c02Opts
		if deepCase(c, i) {
			opts.MaxDepth, opts.MaxWidth = 8, 12
		}
		v = model.Gen(rng, opts)
	}
	c.SetCase(func() any { return map[string]any{"mode": mode, "value": v.Dump()} })
	st := v.Stats()
	c.Seen(v.Hash(), st.MultiKeyMaps > 0 || st.BigHeads > 0)
	if c.WantSample() && st.Nodes < 40 && st.Nodes > 3 {
		c.Sample(map[string]any{"value": v.Dump(), "canonical_hex": hex.EncodeToString(refcbor.Encode(v))})
	}

	want := refcbor.Encode(v)
	sorted := model.SortKeys(v, model.CBORKeyLess)

	check := func(label string, n datamodel.Node) {
		var buf bytes.Buffer
		var err error
		if rng.Chance(1, 4) {
			// history: an earlier Encode that failed midway (writer error at its
			// k-th write) must not influence later encodes
			other := model.Gen(rng, model.GenOpts{MaxDepth: 3, MaxWidth: 4, Links: true})
			if rng.Bool() {
				other = model.List(model.Link(model.GenCID(rng)), other)
			}
			c.Guard("C02:encode-failing-writer", func() { dagcbor.Encode(fnode.New(other), &failingWriter{k: rng.Intn(6)}) })
			c.Count("failed_encodes_interleaved", 1)
		}
		if c.Guard("C02:encode", func() { err = dagcbor.Encode(n, &buf) }) {
			return
		}
		c.Count("encodes", 1)
		if err != nil {
			c.Deviate("C02:encode-error:"+errClass(err), fmt.Sprintf("%s: Encode failed: %v", label, err))
			return
		}
		if !bytes.Equal(buf.Bytes(), want) {
			c.Deviate("C02:noncanonical-bytes", fmt.Sprintf("%s: Encode produced %s\n canonical form is  %s", label, hexClip(buf.Bytes()), hexClip(want)))
		}
		var l int64
		if !c.Guard("C02:encodedlength", func() { l, err = dagcbor.EncodedLength(n) }) {
			c.Count("encoded_length_calls", 1)
			if err != nil {
				sig := "C02:encodedlength-error"
				if st.Uints > 0 {
					sig = "C02:encodedlength-error-uint"
				}
				c.Deviate(sig, fmt.Sprintf("%s: EncodedLength failed (%v) although Encode wrote %d bytes", label, err, buf.Len()))
			} else if l != int64(buf.Len()) {
				c.Deviate("C02:encodedlength-mismatch", fmt.Sprintf("%s: EncodedLength=%d but Encode wrote %d bytes", label, l, buf.Len()))
			}
		}
		// the encoding is a function of the value: encoding the SAME node again gives the same bytes
		// (an encoder that scribbles into the node it walks shows on the second pass)
		var buf2 bytes.Buffer
		if !c.Guard("C02:encode-again", func() { err = dagcbor.Encode(n, &buf2) }) {
			c.Count("encodes", 1)
			if err != nil || !bytes.Equal(buf2.Bytes(), want) {
				c.Deviate("C02:second-encode-differs", fmt.Sprintf("%s: a second Encode of the same node produced %s (err %v)\n canonical form is  %s", label, hexClip(buf2.Bytes()), err, hexClip(want)))
			}
		}
	}

	var variants []model.Val
	if mode == "perm" {
		permutations(len(v.M), func(p []int) {
			es := make([]model.Entry, len(p))
			for k, j := range p {
				es[k] = v.M[j]
			}
			variants = append(variants, model.Val{K: model.KMap, M: es})
		})
	} else {
		variants = append(variants, v)
		if st.MultiKeyMaps > 0 {
			variants = append(variants, model.Permute(v, rng.Perm), sorted, reverseKeys(sorted))
		}
	}
	for vi, vv := range variants {
		prog := &build.Prog{R: rng.Fork()}
		n, err := build.With(basicnode.Prototype.Any, vv, prog)
		if err != nil {
			c.Deviate("C02:build-error", fmt.Sprintf("building the value failed: %v (program %s)", err, prog.Trace.String()))
			continue
		}
		check(fmt.Sprintf("basicnode variant %d (program %s)", vi, clipS(prog.Trace.String(), 200)), n)
		check(fmt.Sprintf("foreign-node variant %d", vi), fnode.New(vv))
		if vv.K == model.KMap && vi == 0 {
			if n2, err := build.With(basicnode.Prototype.Map, vv, &build.Prog{R: rng.Fork(), NoWholeSubtree: true}); err == nil {
				check("basicnode Prototype.Map", n2)
			}
		}
		if vv.K == model.KList && vi == 0 {
			if n2, err := build.With(basicnode.Prototype.List, vv, &build.Prog{R: rng.Fork(), NoWholeSubtree: true}); err == nil {
				check("basicnode Prototype.List", n2)
			}
		}
	}
	// the registry's encoder for 0x71 must be the same function of the value
	if i%16 == 0 {
		if enc, err := multicodec.LookupEncoder(0x71); err == nil {
			var buf bytes.Buffer
			if err := enc(fnode.New(v), &buf); err != nil || !bytes.Equal(buf.Bytes(), want) {
				c.Deviate("C02:registry-encoder", fmt.Sprintf("registry encoder 0x71: err=%v bytes=%s want %s", err, hexClip(buf.Bytes()), hexClip(want)))
			}
			c.Count("encodes", 1)
		}
	}

	// decode of the canonical bytes reads out as the key-sorted value
	nb := basicnode.Prototype.Any.NewBuilder()
	var derr error
	if c.Guard("C02:decode", func() { derr = dagcbor.Decode(nb, bytes.NewReader(want)) }) {
		return
	}
	c.Count("decodes", 1)
	if derr != nil {
		c.Deviate("C02:decode-of-canonical-fails:"+errClass(derr), fmt.Sprintf("Decode of the canonical encoding failed: %v\n bytes %s", derr, hexClip(want)))
		return
	}
	ro := obs.ReadOut(nb.Build(), obs.Options{Light: st.Nodes > 3000})
	c.Count("readout_events", ro.Events)
	if !model.Equal(ro.Val, sorted) {
		c.Deviate("C02:roundtrip-value", fmt.Sprintf("decoded value %s\n differs from the encoded value in canonical order %s", ro.Val.Dump(), sorted.Dump()))
	}
	if len(ro.Issues) > 0 {
		c.Deviate("C02:decoded-node-inconsistent:"+ro.Issues[0].Sig, ro.FirstIssue())
	}
}

func reverseKeys(v model.Val) model.Val {
	return model.Permute(v, func(n int) []int {
		p := make([]int, n)
		for i := range p {
			p[i] = n - 1 - i
		}
		return p
	})
}

func permutations(n int, f func([]int)) {
	p := make([]int, n)
	for i := range p {
		p[i] = i
	}
	var rec func(k int)
	rec = func(k int) {
		if k == n {
			f(append([]int(nil), p...))
			return
		}
		for i := k; i < n; i++ {
			p[k], p[i] = p[i], p[k]
			rec(k + 1)
			p[k], p[i] = p[i], p[k]
		}
	}
	rec(0)
}

func hexClip(b []byte) string {
	if len(b) > 96 {
		return fmt.Sprintf("%s…(%d bytes)", hex.EncodeToString(b[:96]), len(b))
	}
	return hex.EncodeToString(b)
}

func clipS(s string, n int) string {
	if len(s) > n {
		return s[:n] + "…"
	}
	return s
}

// errClass reduces an error to a short class for signatures: its text with
// digits, quoted parts and hex removed, clipped.
func errClass(err error) string {
	if err == nil {
		return "nil"
	}
	s := err.Error()
	var b strings.Builder
	inq := false
	for _, r := range s {
		switch {
		case r == '"':
			inq = !inq
		case inq:
		case r >= '0' && r <= '9':
		case r == ' ':
			b.WriteByte('_')
		case r >= 'a' && r <= 'z', r >= 'A' && r <= 'Z', r == '-', r == '_':
			b.WriteRune(r)
		}
		if b.Len() >= 48 {
			break
		}
	}
	return b.String()
}
