// Package schema is the reference model for IPLD Schemas used by C08, C09, C13
// and C19: a small schema AST, the relation between the type-level view and
// the representation of a typed value for every representation strategy the
// library implements, and conformance of arbitrary data-model trees at both
// levels. Written from the IPLD Schema specification; shares no code with
// the library.
//
// A typed value is held in its TYPE-LEVEL VIEW as a model.Val:
//
//	struct  -> map of ALL fields in schema order; absent optional = KAbsent, nullable null = KNull
//	union   -> single-entry map {memberTypeName: value}
//	enum    -> string (member name)
//	map     -> map keyed by the key's representation string (insertion order)
//	list    -> list ; scalars, link -> themselves ; any -> a plain value
package schema

import (
	"fmt"
	"strings"

	"verif/lib/model"
)

type Field struct {
	Name     string
	Type     string
	Optional bool
	Nullable bool
}

type Type struct {
	Name string
	Kind string // bool int float string bytes link any struct map list union enum

	Fields     []Field
	StructRepr string            // map tuple stringjoin listpairs
	Renames    map[string]string // field name -> serial name
	Delim      string

	KeyType       string
	ValueType     string
	ValueNullable bool

	Members   []string
	UnionRepr string            // keyed kinded stringprefix
	Discr     map[string]string // member type name -> discriminant (keyed, stringprefix)

	EnumMembers []string
	EnumRepr    string            // string int
	EnumStr     map[string]string // member -> representation string (string repr)
	EnumInt     map[string]int64  // member -> representation int (int repr)
}

type TypeSystem struct {
	Types []*Type
	by    map[string]*Type
}

func (ts *TypeSystem) Add(t *Type) {
	if ts.by == nil {
		ts.by = map[string]*Type{}
	}
	ts.Types = append(ts.Types, t)
	ts.by[t.Name] = t
}

func (ts *TypeSystem) T(name string) *Type { return ts.by[name] }

// ReprKind is the data-model kind of a type's representation.
func (ts *TypeSystem) ReprKind(t *Type) model.Kind {
	switch t.Kind {
	case "bool":
		return model.KBool
	case "int":
		return model.KInt
	case "float":
		return model.KFloat
	case "string":
		return model.KString
	case "bytes":
		return model.KBytes
	case "link":
		return model.KLink
	case "struct":
		switch t.StructRepr {
		case "map":
			return model.KMap
		case "stringjoin":
			return model.KString
		}
		return model.KList
	case "map":
		return model.KMap
	case "list":
		return model.KList
	case "union":
		switch t.UnionRepr {
		case "keyed":
			return model.KMap
		case "stringprefix":
			return model.KString
		}
		return model.KAbsent // kinded: depends on the member
	case "enum":
		if t.EnumRepr == "int" {
			return model.KInt
		}
		return model.KString
	}
	return model.KAbsent // any
}

// Serial is the name field is written under in a map representation.
func (t *Type) Serial(field string) string { return t.serial(field) }

func (t *Type) serial(field string) string {
	if s, ok := t.Renames[field]; ok {
		return s
	}
	return field
}

// ---------------------------------------------------------------- type view -> representation

// ReprOf returns the representation of the typed value tv of type t.
func (ts *TypeSystem) ReprOf(t *Type, tv model.Val) (model.Val, error) {
	switch t.Kind {
	case "bool", "int", "float", "string", "bytes", "link", "any":
		return tv, nil
	case "enum":
		if t.EnumRepr == "int" {
			return model.Int(t.EnumInt[tv.S]), nil
		}
		if s, ok := t.EnumStr[tv.S]; ok {
			return model.String(s), nil
		}
		return tv, nil
	case "list":
		out := model.Val{K: model.KList, L: []model.Val{}}
		for _, x := range tv.L {
			r, err := ts.reprMaybe(ts.T(t.ValueType), x)
			if err != nil {
				return out, err
			}
			out.L = append(out.L, r)
		}
		return out, nil
	case "map":
		out := model.Val{K: model.KMap, M: []model.Entry{}}
		for _, e := range tv.M {
			r, err := ts.reprMaybe(ts.T(t.ValueType), e.V)
			if err != nil {
				return out, err
			}
			out.M = append(out.M, model.Entry{K: ts.keyRepr(ts.T(t.KeyType), e.K), V: r})
		}
		return out, nil
	case "union":
		if len(tv.M) != 1 {
			return model.Val{}, fmt.Errorf("union view must have one entry")
		}
		m := ts.T(tv.M[0].K)
		r, err := ts.ReprOf(m, tv.M[0].V)
		if err != nil {
			return r, err
		}
		switch t.UnionRepr {
		case "keyed":
			return model.Map(model.E(t.Discr[m.Name], r)), nil
		case "kinded":
			return r, nil
		default:
			if r.K != model.KString {
				return r, fmt.Errorf("stringprefix member without string representation")
			}
			return model.String(t.Discr[m.Name] + t.Delim + r.S), nil
		}
	case "struct":
		switch t.StructRepr {
		case "map":
			out := model.Val{K: model.KMap, M: []model.Entry{}}
			for i, f := range t.Fields {
				v := tv.M[i].V
				if v.K == model.KAbsent {
					continue
				}
				r, err := ts.reprMaybe(ts.T(f.Type), v)
				if err != nil {
					return out, err
				}
				out.M = append(out.M, model.Entry{K: t.serial(f.Name), V: r})
			}
			return out, nil
		case "tuple":
			out := model.Val{K: model.KList, L: []model.Val{}}
			last := -1
			for i := range t.Fields {
				if tv.M[i].V.K != model.KAbsent {
					last = i
				}
			}
			for i, f := range t.Fields {
				if i > last {
					break
				}
				v := tv.M[i].V
				if v.K == model.KAbsent {
					return out, fmt.Errorf("tuple with an absent field before a present one has no representation")
				}
				r, err := ts.reprMaybe(ts.T(f.Type), v)
				if err != nil {
					return out, err
				}
				out.L = append(out.L, r)
			}
			return out, nil
		case "stringjoin":
			var parts []string
			for i, f := range t.Fields {
				r, err := ts.ReprOf(ts.T(f.Type), tv.M[i].V)
				if err != nil || r.K != model.KString {
					return model.Val{}, fmt.Errorf("stringjoin field without string representation")
				}
				parts = append(parts, r.S)
			}
			return model.String(strings.Join(parts, t.Delim)), nil
		default: // listpairs
			out := model.Val{K: model.KList, L: []model.Val{}}
			for i, f := range t.Fields {
				v := tv.M[i].V
				if v.K == model.KAbsent {
					continue
				}
				r, err := ts.reprMaybe(ts.T(f.Type), v)
				if err != nil {
					return out, err
				}
				out.L = append(out.L, model.List(model.String(t.serial(f.Name)), r))
			}
			return out, nil
		}
	}
	return model.Val{}, fmt.Errorf("unknown kind %s", t.Kind)
}

func (ts *TypeSystem) reprMaybe(t *Type, v model.Val) (model.Val, error) {
	if v.K == model.KNull {
		return v, nil
	}
	return ts.ReprOf(t, v)
}

// TypeInput turns a type view into what is fed to a type-level builder: absent fields are simply not assembled.
func (ts *TypeSystem) TypeInput(t *Type, tv model.Val) model.Val {
	if tv.K == model.KNull {
		return tv
	}
	switch t.Kind {
	case "struct":
		out := model.Val{K: model.KMap, M: []model.Entry{}}
		for i, f := range t.Fields {
			v := tv.M[i].V
			if v.K == model.KAbsent {
				continue
			}
			out.M = append(out.M, model.Entry{K: f.Name, V: ts.TypeInput(ts.T(f.Type), v)})
		}
		return out
	case "union":
		return model.Map(model.E(tv.M[0].K, ts.TypeInput(ts.T(tv.M[0].K), tv.M[0].V)))
	case "map":
		out := model.Val{K: model.KMap, M: []model.Entry{}}
		for _, e := range tv.M {
			out.M = append(out.M, model.Entry{K: e.K, V: ts.TypeInput(ts.T(t.ValueType), e.V)})
		}
		return out
	case "list":
		out := model.Val{K: model.KList, L: []model.Val{}}
		for _, x := range tv.L {
			out.L = append(out.L, ts.TypeInput(ts.T(t.ValueType), x))
		}
		return out
	}
	return tv
}

// ---------------------------------------------------------------- conformance (parsing)

// ParseRepr decides whether the data-model tree r is a representation of a
// value of type t and returns that value's type view.
func (ts *TypeSystem) ParseRepr(t *Type, r model.Val) (model.Val, error) {
	return ts.parse(t, r, true)
}

// ParseType decides whether v is a legal type-level input for t (what a
// type-level builder must accept) and returns the type view.
func (ts *TypeSystem) ParseType(t *Type, v model.Val) (model.Val, error) {
	return ts.parse(t, v, false)
}

func bad(f string, a ...any) (model.Val, error) { return model.Val{}, fmt.Errorf(f, a...) }

func (ts *TypeSystem) parseMaybe(t *Type, v model.Val, nullable, repr bool) (model.Val, error) {
	if v.K == model.KNull {
		if !nullable {
			return bad("null where the type %s is not nullable", t.Name)
		}
		return v, nil
	}
	return ts.parse(t, v, repr)
}

func (ts *TypeSystem) parse(t *Type, v model.Val, repr bool) (model.Val, error) {
	if v.K == model.KAbsent {
		return bad("absent is not a value")
	}
	switch t.Kind {
	case "bool", "int", "float", "string", "bytes", "link":
		want := ts.ReprKind(t)
		if v.K != want {
			return bad("%s expects kind %v, got %v", t.Name, want, v.K)
		}
		return v, nil
	case "any":
		if v.K == model.KNull {
			return bad("null is not in a non-nullable Any")
		}
		hasAbsent := false
		v.Walk(func(x model.Val) {
			if x.K == model.KAbsent {
				hasAbsent = true
			}
		})
		if hasAbsent {
			return bad("absent inside Any")
		}
		dup := false
		v.Walk(func(x model.Val) {
			if x.K == model.KMap {
				seen := map[string]bool{}
				for _, e := range x.M {
					if seen[e.K] {
						dup = true
					}
					seen[e.K] = true
				}
			}
		})
		if dup {
			return bad("repeated map key inside Any")
		}
		return v, nil
	case "enum":
		if !repr {
			if v.K != model.KString {
				return bad("enum %s expects a string at type level", t.Name)
			}
			for _, m := range t.EnumMembers {
				if m == v.S {
					return v, nil
				}
			}
			return bad("%q is not a member of enum %s", v.S, t.Name)
		}
		if t.EnumRepr == "int" {
			if v.K != model.KInt {
				return bad("enum %s expects an int", t.Name)
			}
			for _, m := range t.EnumMembers {
				if t.EnumInt[m] == v.I {
					return model.String(m), nil
				}
			}
			return bad("%d is not a member of enum %s", v.I, t.Name)
		}
		if v.K != model.KString {
			return bad("enum %s expects a string", t.Name)
		}
		for _, m := range t.EnumMembers {
			s := m
			if x, ok := t.EnumStr[m]; ok {
				s = x
			}
			if s == v.S {
				return model.String(m), nil
			}
		}
		return bad("%q is not a member of enum %s", v.S, t.Name)
	case "list":
		if v.K != model.KList {
			return bad("%s expects a list, got %v", t.Name, v.K)
		}
		out := model.Val{K: model.KList, L: []model.Val{}}
		for _, x := range v.L {
			p, err := ts.parseMaybe(ts.T(t.ValueType), x, t.ValueNullable, repr)
			if err != nil {
				return out, err
			}
			out.L = append(out.L, p)
		}
		return out, nil
	case "map":
		if v.K != model.KMap {
			return bad("%s expects a map, got %v", t.Name, v.K)
		}
		out := model.Val{K: model.KMap, M: []model.Entry{}}
		seen := map[string]bool{}
		kt := ts.T(t.KeyType)
		for _, e := range v.M {
			if seen[e.K] {
				return out, fmt.Errorf("repeated map key %q", e.K)
			}
			seen[e.K] = true
			// keys always arrive as strings. Enum keys read as the member name at type level and as
			// the member's representation string at representation level; other key types
			// (strings, stringjoin structs) are addressed by their representation at both levels.
			viewKey := e.K
			if kt.Kind == "enum" {
				kv, err := ts.parse(kt, model.String(e.K), repr)
				if err != nil {
					return out, fmt.Errorf("key %q: %v", e.K, err)
				}
				viewKey = kv.S
			} else if _, err := ts.parse(kt, model.String(e.K), true); err != nil {
				return out, fmt.Errorf("key %q: %v", e.K, err)
			}
			p, err := ts.parseMaybe(ts.T(t.ValueType), e.V, t.ValueNullable, repr)
			if err != nil {
				return out, err
			}
			out.M = append(out.M, model.Entry{K: viewKey, V: p})
		}
		return out, nil
	case "union":
		return ts.parseUnion(t, v, repr)
	case "struct":
		return ts.parseStruct(t, v, repr)
	}
	return bad("unknown kind")
}

func (ts *TypeSystem) parseUnion(t *Type, v model.Val, repr bool) (model.Val, error) {
	member := func(name string, inner model.Val, r bool) (model.Val, error) {
		m := ts.T(name)
		p, err := ts.parse(m, inner, r)
		if err != nil {
			return p, err
		}
		return model.Map(model.E(name, p)), nil
	}
	if !repr {
		if v.K != model.KMap || len(v.M) != 1 {
			return bad("union %s expects a single-entry map at type level", t.Name)
		}
		for _, m := range t.Members {
			if m == v.M[0].K {
				return member(m, v.M[0].V, false)
			}
		}
		return bad("%q is not a member of union %s", v.M[0].K, t.Name)
	}
	switch t.UnionRepr {
	case "keyed":
		if v.K != model.KMap || len(v.M) != 1 {
			return bad("keyed union %s expects a single-entry map", t.Name)
		}
		for _, m := range t.Members {
			if t.Discr[m] == v.M[0].K {
				return member(m, v.M[0].V, true)
			}
		}
		return bad("%q is not a discriminant of union %s", v.M[0].K, t.Name)
	case "stringprefix":
		if v.K != model.KString {
			return bad("stringprefix union %s expects a string", t.Name)
		}
		if t.Delim == "" {
			// no delimiter: the discriminant is a bare prefix of the string, members tried in their stated order
			for _, m := range t.Members {
				if strings.HasPrefix(v.S, t.Discr[m]) {
					return member(m, model.String(v.S[len(t.Discr[m]):]), true)
				}
			}
			return bad("%q is not a prefix of union %s", v.S, t.Name)
		}
		parts := strings.SplitN(v.S, t.Delim, 2)
		if len(parts) != 2 {
			return bad("no delimiter in %q", v.S)
		}
		for _, m := range t.Members {
			if t.Discr[m] == parts[0] {
				return member(m, model.String(parts[1]), true)
			}
		}
		return bad("%q is not a prefix of union %s", parts[0], t.Name)
	default: // kinded
		for _, m := range t.Members {
			if ts.ReprKind(ts.T(m)) == v.K {
				return member(m, v, true)
			}
		}
		return bad("kind %v matches no member of kinded union %s", v.K, t.Name)
	}
}

func (ts *TypeSystem) parseStruct(t *Type, v model.Val, repr bool) (model.Val, error) {
	view := model.Val{K: model.KMap, M: make([]model.Entry, len(t.Fields))}
	for i, f := range t.Fields {
		view.M[i] = model.Entry{K: f.Name, V: model.Val{K: model.KAbsent}}
	}
	set := func(i int, x model.Val) error {
		f := t.Fields[i]
		if view.M[i].V.K != model.KAbsent {
			return fmt.Errorf("repeated field %q", f.Name)
		}
		p, err := ts.parseMaybe(ts.T(f.Type), x, f.Nullable, repr)
		if err != nil {
			return fmt.Errorf("field %q: %v", f.Name, err)
		}
		view.M[i].V = p
		return nil
	}
	finish := func() (model.Val, error) {
		for i, f := range t.Fields {
			if view.M[i].V.K == model.KAbsent && !f.Optional {
				return view, fmt.Errorf("missing required field %q", f.Name)
			}
		}
		return view, nil
	}
	fieldIdx := func(name string, serial bool) int {
		for i, f := range t.Fields {
			n := f.Name
			if serial {
				n = t.serial(f.Name)
			}
			if n == name {
				return i
			}
		}
		return -1
	}
	if !repr || t.StructRepr == "map" {
		if v.K != model.KMap {
			return bad("struct %s expects a map, got %v", t.Name, v.K)
		}
		for _, e := range v.M {
			i := fieldIdx(e.K, repr)
			if i < 0 {
				return view, fmt.Errorf("unknown field %q in struct %s", e.K, t.Name)
			}
			if err := set(i, e.V); err != nil {
				return view, err
			}
		}
		return finish()
	}
	switch t.StructRepr {
	case "tuple":
		if v.K != model.KList {
			return bad("tuple struct %s expects a list, got %v", t.Name, v.K)
		}
		if len(v.L) > len(t.Fields) {
			return bad("tuple struct %s has %d fields, got %d elements", t.Name, len(t.Fields), len(v.L))
		}
		for i, x := range v.L {
			if err := set(i, x); err != nil {
				return view, err
			}
		}
		return finish()
	case "stringjoin":
		if v.K != model.KString {
			return bad("stringjoin struct %s expects a string, got %v", t.Name, v.K)
		}
		parts := strings.Split(v.S, t.Delim)
		if len(parts) != len(t.Fields) {
			return bad("stringjoin struct %s expects %d parts, got %d", t.Name, len(t.Fields), len(parts))
		}
		for i, p := range parts {
			if err := set(i, model.String(p)); err != nil {
				return view, err
			}
		}
		return finish()
	default: // listpairs
		if v.K != model.KList {
			return bad("listpairs struct %s expects a list, got %v", t.Name, v.K)
		}
		for _, pair := range v.L {
			if pair.K != model.KList || len(pair.L) != 2 || pair.L[0].K != model.KString {
				return view, fmt.Errorf("listpairs entry is not a [name, value] pair")
			}
			i := fieldIdx(pair.L[0].S, true)
			if i < 0 {
				return view, fmt.Errorf("unknown field %q in struct %s", pair.L[0].S, t.Name)
			}
			if err := set(i, pair.L[1]); err != nil {
				return view, err
			}
		}
		return finish()
	}
}

// SortCodecMaps sorts the entries of typed maps and of maps inside Any values
// (what a key-sorting codec canonicalises); struct field order is the schema's.
func (ts *TypeSystem) SortCodecMaps(t *Type, tv model.Val, less func(a, b string) bool) model.Val {
	if tv.K == model.KNull || tv.K == model.KAbsent {
		return tv
	}
	switch t.Kind {
	case "any":
		return model.SortKeys(tv, less)
	case "map":
		out := model.Val{K: model.KMap, M: []model.Entry{}}
		for _, e := range tv.M {
			out.M = append(out.M, model.Entry{K: e.K, V: ts.SortCodecMaps(ts.T(t.ValueType), e.V, less)})
		}
		// stable insertion sort
		for i := 1; i < len(out.M); i++ {
			for j := i; j > 0 && less(ts.keyRepr(ts.T(t.KeyType), out.M[j].K), ts.keyRepr(ts.T(t.KeyType), out.M[j-1].K)); j-- {
				out.M[j], out.M[j-1] = out.M[j-1], out.M[j]
			}
		}
		return out
	case "list":
		out := model.Val{K: model.KList, L: []model.Val{}}
		for _, x := range tv.L {
			out.L = append(out.L, ts.SortCodecMaps(ts.T(t.ValueType), x, less))
		}
		return out
	case "struct":
		out := model.Val{K: model.KMap, M: []model.Entry{}}
		for i, f := range t.Fields {
			out.M = append(out.M, model.Entry{K: f.Name, V: ts.SortCodecMaps(ts.T(f.Type), tv.M[i].V, less)})
		}
		return out
	case "union":
		return model.Map(model.E(tv.M[0].K, ts.SortCodecMaps(ts.T(tv.M[0].K), tv.M[0].V, less)))
	}
	return tv
}

// keyRepr maps a type-view map key to its representation string.
func (ts *TypeSystem) keyRepr(kt *Type, k string) string {
	if kt.Kind == "enum" {
		if s, ok := kt.EnumStr[k]; ok {
			return s
		}
	}
	return k
}
