// Package link is the reference model for link construction: the binary CID
// for (version, codec, multihash code, digest length) over given block bytes,
// computed with the standard library's digests only.
package link

import (
	"crypto/md5"
	"crypto/sha1"
	"crypto/sha256"
	"crypto/sha512"

	"verif/lib/model"
)

// Proto mirrors cid.Prefix.
type Proto struct {
	Version  int
	Codec    uint64
	MhType   uint64
	MhLength int // -1 = full digest
}

// HashCodes are the multihash functions in go-multihash's core registry.
var HashCodes = []uint64{0x00, 0xd5, 0x11, 0x1013, 0x12, 0x20, 0x13, 0x1014, 0x1015, 0x56}

// Digest computes the full digest for a multihash code.
func Digest(code uint64, data []byte) ([]byte, bool) {
	switch code {
	case 0x00:
		return append([]byte(nil), data...), true
	case 0xd5:
		d := md5.Sum(data)
		return d[:], true
	case 0x11:
		d := sha1.Sum(data)
		return d[:], true
	case 0x1013:
		d := sha256.Sum224(data)
		return d[:], true
	case 0x12:
		d := sha256.Sum256(data)
		return d[:], true
	case 0x20:
		d := sha512.Sum384(data)
		return d[:], true
	case 0x13:
		d := sha512.Sum512(data)
		return d[:], true
	case 0x1014:
		d := sha512.Sum512_224(data)
		return d[:], true
	case 0x1015:
		d := sha512.Sum512_256(data)
		return d[:], true
	case 0x56:
		a := sha256.Sum256(data)
		d := sha256.Sum256(a[:])
		return d[:], true
	}
	return nil, false
}

// DigestSize is the full output size (identity: -1, variable).
func DigestSize(code uint64) int {
	if code == 0 {
		return -1
	}
	d, _ := Digest(code, nil)
	return len(d)
}

// Of returns the binary CID for block bytes under p. ok is false when p is
// outside the quantified space (unknown hash, length above the digest size,
// CIDv0 with anything but sha2-256/32).
func Of(p Proto, block []byte) (cid []byte, ok bool) {
	d, known := Digest(p.MhType, block)
	if !known {
		return nil, false
	}
	if p.MhType != 0 && p.MhLength != -1 {
		if p.MhLength < 0 || p.MhLength > len(d) {
			return nil, false
		}
		d = d[:p.MhLength]
	}
	if p.Version == 0 {
		if p.MhType != 0x12 || (p.MhLength != 32 && p.MhLength != -1) {
			return nil, false
		}
		return model.MakeCID(0, 0x70, 0x12, d), true
	}
	return model.MakeCID(1, p.Codec, p.MhType, d), true
}
