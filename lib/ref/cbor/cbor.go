// Package cbor is the reference model for DAG-CBOR: a canonical encoder and a
// strict decoder written from the DAG-CBOR specification and the documented
// tolerances of go-ipld-prime's decoder. It shares no code with the library.
package cbor

import (
	"encoding/binary"
	"fmt"
	"math"

	cid "github.com/ipfs/go-cid"

	"verif/lib/model"
)

// ---------------------------------------------------------------- encoder

func head(out []byte, major byte, n uint64) []byte {
	m := major << 5
	switch {
	case n < 24:
		return append(out, m|byte(n))
	case n < 1<<8:
		return append(out, m|24, byte(n))
	case n < 1<<16:
		return append(out, m|25, byte(n>>8), byte(n))
	case n < 1<<32:
		return append(out, m|26, byte(n>>24), byte(n>>16), byte(n>>8), byte(n))
	default:
		return append(out, m|27, byte(n>>56), byte(n>>48), byte(n>>40), byte(n>>32), byte(n>>24), byte(n>>16), byte(n>>8), byte(n))
	}
}

// Encode returns the canonical DAG-CBOR encoding of v.
func Encode(v model.Val) []byte { return encode(nil, v) }

func encode(out []byte, v model.Val) []byte {
	switch v.K {
	case model.KNull:
		return append(out, 0xf6)
	case model.KBool:
		if v.B {
			return append(out, 0xf5)
		}
		return append(out, 0xf4)
	case model.KInt:
		if v.I >= 0 {
			return head(out, 0, uint64(v.I))
		}
		return head(out, 1, uint64(-1-v.I))
	case model.KUint:
		return head(out, 0, v.U)
	case model.KFloat:
		out = append(out, 0xfb)
		return binary.BigEndian.AppendUint64(out, math.Float64bits(v.F))
	case model.KString:
		out = head(out, 3, uint64(len(v.S)))
		return append(out, v.S...)
	case model.KBytes:
		out = head(out, 2, uint64(len(v.S)))
		return append(out, v.S...)
	case model.KLink:
		out = append(out, 0xd8, 0x2a)
		out = head(out, 2, uint64(len(v.S))+1)
		out = append(out, 0)
		return append(out, v.S...)
	case model.KList:
		out = head(out, 4, uint64(len(v.L)))
		for _, x := range v.L {
			out = encode(out, x)
		}
		return out
	case model.KMap:
		s := model.SortKeys(model.Val{K: model.KMap, M: shallow(v.M)}, model.CBORKeyLess)
		out = head(out, 5, uint64(len(s.M)))
		for _, e := range s.M {
			out = head(out, 3, uint64(len(e.K)))
			out = append(out, e.K...)
			out = encode(out, e.V)
		}
		return out
	}
	panic("ref/cbor: unencodable kind " + v.K.String())
}

func shallow(es []model.Entry) []model.Entry {
	out := make([]model.Entry, len(es))
	for i, e := range es {
		// wrap values so SortKeys' recursion is harmless: it only sorts maps, and
		// nested maps are sorted again at their own encode step anyway.
		out[i] = e
	}
	return out
}

// ---------------------------------------------------------------- decoder

// Options mirror the documented configuration of the decoder.
type Options struct {
	Relaxed    bool // non-minimal heads, NaN/Inf, duplicate keys tolerated
	AllowLinks bool
	MaxDepth   int  // 0 = 1024
	NotToEnd   bool // DontParseBeyondEnd: trailing bytes tolerated
}

type dec struct {
	b   []byte
	pos int
	opt Options
	max int
	why string
	// Counters for the allocation model (C10): items and content bytes.
	Items int64
}

func (d *dec) fail(f string, a ...any) bool {
	if d.why == "" {
		d.why = fmt.Sprintf(f, a...) + fmt.Sprintf(" at offset %d", d.pos)
	}
	return false
}

// Decode decides whether b is one complete well-formed DAG-CBOR item and, if
// so, which value it denotes. reason explains a rejection.
func Decode(b []byte, opt Options) (v model.Val, ok bool, reason string) {
	d := &dec{b: b, opt: opt, max: opt.MaxDepth}
	if d.max == 0 {
		d.max = 1024
	}
	if !d.item(&v, 0) {
		return model.Val{}, false, d.why
	}
	if !opt.NotToEnd && d.pos != len(b) {
		return model.Val{}, false, fmt.Sprintf("trailing bytes after item at offset %d", d.pos)
	}
	return v, true, ""
}

// Consumed returns how many bytes the single leading item occupies (for
// DontParseBeyondEnd checks). Only meaningful after ok.
func DecodePrefix(b []byte, opt Options) (v model.Val, n int, ok bool, reason string) {
	opt.NotToEnd = true
	d := &dec{b: b, opt: opt, max: opt.MaxDepth}
	if d.max == 0 {
		d.max = 1024
	}
	if !d.item(&v, 0) {
		return model.Val{}, 0, false, d.why
	}
	return v, d.pos, true, ""
}

// readHead reads the initial byte and argument. minimal reports whether the
// argument used the shortest form.
func (d *dec) readHead() (major byte, ai byte, arg uint64, minimal bool, ok bool) {
	if d.pos >= len(d.b) {
		return 0, 0, 0, false, d.fail("unexpected end of input")
	}
	ib := d.b[d.pos]
	d.pos++
	major, ai = ib>>5, ib&0x1f
	switch {
	case ai < 24:
		return major, ai, uint64(ai), true, true
	case ai == 24:
		if d.pos+1 > len(d.b) {
			return 0, 0, 0, false, d.fail("truncated head")
		}
		arg = uint64(d.b[d.pos])
		d.pos++
		return major, ai, arg, arg >= 24, true
	case ai == 25:
		if d.pos+2 > len(d.b) {
			return 0, 0, 0, false, d.fail("truncated head")
		}
		arg = uint64(binary.BigEndian.Uint16(d.b[d.pos:]))
		d.pos += 2
		return major, ai, arg, arg >= 1<<8, true
	case ai == 26:
		if d.pos+4 > len(d.b) {
			return 0, 0, 0, false, d.fail("truncated head")
		}
		arg = uint64(binary.BigEndian.Uint32(d.b[d.pos:]))
		d.pos += 4
		return major, ai, arg, arg >= 1<<16, true
	case ai == 27:
		if d.pos+8 > len(d.b) {
			return 0, 0, 0, false, d.fail("truncated head")
		}
		arg = binary.BigEndian.Uint64(d.b[d.pos:])
		d.pos += 8
		return major, ai, arg, arg >= 1<<32, true
	case ai == 31:
		return major, ai, 0, true, true // indefinite / break: judged by the caller
	default:
		return 0, 0, 0, false, d.fail("reserved additional information %d", ai)
	}
}

func (d *dec) item(out *model.Val, depth int) bool {
	major, ai, arg, minimal, ok := d.readHead()
	if !ok {
		return false
	}
	d.Items++
	if ai == 31 {
		if major == 7 {
			return d.fail("break outside indefinite-length item")
		}
		return d.fail("indefinite length (major %d)", major)
	}
	if major != 7 && !minimal && !d.opt.Relaxed {
		return d.fail("non-minimal head (major %d, ai %d, arg %d)", major, ai, arg)
	}
	switch major {
	case 0:
		*out = model.Uint(arg)
		return true
	case 1:
		if arg == math.MaxUint64 {
			// kept as its own class: -2^64 is the one value whose magnitude wraps in 64 bits
			return d.fail("neg-two-to-the-sixtyfour out of range")
		}
		if arg > math.MaxInt64 {
			return d.fail("negative integer below -2^63")
		}
		*out = model.Int(-1 - int64(arg))
		return true
	case 2, 3:
		if arg > uint64(len(d.b)-d.pos) {
			return d.fail("string of declared length %d exceeds input", arg)
		}
		s := string(d.b[d.pos : d.pos+int(arg)])
		d.pos += int(arg)
		if major == 2 {
			*out = model.Val{K: model.KBytes, S: s}
		} else {
			*out = model.Val{K: model.KString, S: s}
		}
		return true
	case 4:
		if depth >= d.max {
			return d.fail("nesting deeper than the configured maximum")
		}
		if arg > uint64(len(d.b)-d.pos) {
			return d.fail("list of declared length %d exceeds input", arg)
		}
		xs := make([]model.Val, arg)
		for i := range xs {
			if !d.item(&xs[i], depth+1) {
				return false
			}
		}
		*out = model.Val{K: model.KList, L: xs}
		return true
	case 5:
		if depth >= d.max {
			return d.fail("nesting deeper than the configured maximum")
		}
		if arg > uint64(len(d.b)-d.pos)/2+1 {
			return d.fail("map of declared length %d exceeds input", arg)
		}
		es := make([]model.Entry, 0, arg)
		seen := map[string]bool{}
		for i := uint64(0); i < arg; i++ {
			km, kai, karg, kmin, ok := d.readHead()
			if !ok {
				return false
			}
			if km != 3 {
				return d.fail("map key is not a text string (major %d)", km)
			}
			if kai == 31 {
				return d.fail("indefinite-length map key")
			}
			if !kmin && !d.opt.Relaxed {
				return d.fail("non-minimal head on map key")
			}
			if karg > uint64(len(d.b)-d.pos) {
				return d.fail("map key length exceeds input")
			}
			k := string(d.b[d.pos : d.pos+int(karg)])
			d.pos += int(karg)
			d.Items++
			if seen[k] && !d.opt.Relaxed {
				return d.fail("duplicate map key %q", k)
			}
			seen[k] = true
			var v model.Val
			if !d.item(&v, depth+1) {
				return false
			}
			es = append(es, model.Entry{K: k, V: v})
		}
		*out = model.Val{K: model.KMap, M: es}
		return true
	case 6:
		if arg != 42 {
			return d.fail("tag %d is not allowed", arg)
		}
		if !d.opt.AllowLinks {
			return d.fail("links not allowed")
		}
		bm, bai, barg, bmin, ok := d.readHead()
		if !ok {
			return false
		}
		if bm != 2 {
			return d.fail("tag 42 on a non-bytes item (major %d)", bm)
		}
		if bai == 31 {
			return d.fail("indefinite-length bytes under tag 42")
		}
		if !bmin && !d.opt.Relaxed {
			return d.fail("non-minimal head under tag 42")
		}
		if barg > uint64(len(d.b)-d.pos) {
			return d.fail("link bytes exceed input")
		}
		raw := d.b[d.pos : d.pos+int(barg)]
		d.pos += int(barg)
		if len(raw) < 1 || raw[0] != 0 {
			return d.fail("link without the 0x00 multibase prefix")
		}
		// CID syntax is delegated to go-cid (trusted base), see DESIGN C03.
		if _, err := cid.Cast(raw[1:]); err != nil {
			return d.fail("invalid CID: %v", err)
		}
		*out = model.Val{K: model.KLink, S: string(raw[1:])}
		return true
	case 7:
		switch ai {
		case 20:
			*out = model.Bool(false)
		case 21:
			*out = model.Bool(true)
		case 22, 23: // undefined is documented to be read as null
			*out = model.Null()
		case 25:
			f := halfToFloat(uint16(arg))
			if (f != f || math.IsInf(f, 0)) && !d.opt.Relaxed {
				return d.fail("NaN or infinity (float16)")
			}
			*out = model.Float(f)
		case 26:
			f := float64(math.Float32frombits(uint32(arg)))
			if (f != f || math.IsInf(f, 0)) && !d.opt.Relaxed {
				return d.fail("NaN or infinity (float32)")
			}
			*out = model.Float(f)
		case 27:
			f := math.Float64frombits(arg)
			if (f != f || math.IsInf(f, 0)) && !d.opt.Relaxed {
				return d.fail("NaN or infinity (float64)")
			}
			*out = model.Float(f)
		default:
			return d.fail("simple value %d not allowed", arg)
		}
		return true
	}
	return d.fail("unreachable")
}

func halfToFloat(h uint16) float64 {
	sign := uint64(h>>15) & 1
	exp := int(h>>10) & 0x1f
	frac := float64(h & 0x3ff)
	var f float64
	switch exp {
	case 0:
		f = math.Ldexp(frac, -24)
	case 31:
		if frac == 0 {
			f = math.Inf(1)
		} else {
			f = math.NaN()
		}
	default:
		f = math.Ldexp(frac+1024, exp-25)
	}
	if sign == 1 {
		f = -f
	}
	return f
}
