package cbor

import (
	"encoding/binary"
	"math"

	"verif/lib/model"
)

// Mut describes one broken (or merely non-canonical) rule applied while
// re-encoding a value: item number Target (pre-order; map keys count as items)
// is written in the form selected by Kind/Arg.
type Mut struct {
	Kind   string
	Target int
	Arg    uint64
}

// MutKinds lists the structure-aware mutations.
var MutKinds = []string{
	"longhead",     // Arg = additional-information value 24..27 to force
	"tag",          // Arg = tag number put in front of the item
	"indef",        // indefinite-length spelling of a string/bytes/list/map
	"narrowfloat",  // Arg = 16 or 32: spell a float in that width if representable
	"specialfloat", // Arg = width(16/32/64)*4 + {0:NaN,1:+Inf,2:-Inf,3:NaN payload}
	"simple",       // Arg = simple value / ai under major 7 replacing the item
	"dupkey",       // duplicate the first entry of the target map
	"swapkeys",     // reverse the entries of the target map (still valid)
	"negoverflow",  // Arg selects n in [2^63, 2^64-1] for a major-1 item
	"linknoprefix", // link bytes without the 0x00 prefix
	"linkbadcid",   // link whose CID bytes are damaged (Arg selects how)
	"linkjunk",     // link with extra bytes after the CID, length head bumped
	"linkontext",   // tag 42 over a text string holding the CID bytes
	"nonstringkey", // Arg selects the kind of a non-string map key
	"countplus",    // declared length one more than present
	"countminus",   // declared length one less than present
	"trailing",     // a further item after the root
	"doubletag",    // two tags 42 in front of a link
	"dupkeyfar",    // append a copy of the first key at the END of the target map
}

type menc struct {
	out []byte
	n   int
	m   Mut
	hit bool
}

// EncodeMut re-encodes v with mutation m applied. hit reports whether the
// target item existed and the mutation was applicable to it.
func EncodeMut(v model.Val, m Mut) (b []byte, hit bool) {
	e := &menc{m: m}
	e.item(v)
	if m.Kind == "trailing" {
		e.out = append(e.out, byte(m.Arg))
		e.hit = true
	}
	return e.out, e.hit
}

// CountItems returns how many targetable items v has.
func CountItems(v model.Val) int {
	n := 1
	switch v.K {
	case model.KList:
		for _, x := range v.L {
			n += CountItems(x)
		}
	case model.KMap:
		for _, e := range v.M {
			n += 1 + CountItems(e.V)
		}
	}
	return n
}

func forcedHead(out []byte, major byte, n uint64, ai uint64) ([]byte, bool) {
	m := major << 5
	switch ai {
	case 24:
		if n < 1<<8 {
			return append(out, m|24, byte(n)), true
		}
	case 25:
		if n < 1<<16 {
			return append(out, m|25, byte(n>>8), byte(n)), true
		}
	case 26:
		if n < 1<<32 {
			return append(out, m|26, byte(n>>24), byte(n>>16), byte(n>>8), byte(n)), true
		}
	case 27:
		return binary.BigEndian.AppendUint64(append(out, m|27), n), true
	}
	return out, false
}

func (e *menc) head(major byte, n uint64, isTarget bool) {
	if isTarget && e.m.Kind == "longhead" {
		if o, ok := forcedHead(e.out, major, n, e.m.Arg); ok {
			e.out = o
			e.hit = true
			return
		}
	}
	e.out = head(e.out, major, n)
}

func (e *menc) item(v model.Val) {
	t := e.n == e.m.Target
	e.n++
	if t {
		switch e.m.Kind {
		case "tag":
			e.out = head(e.out, 6, e.m.Arg)
			e.hit = true
		case "specialfloat":
			w, which := e.m.Arg/4, e.m.Arg%4
			var f64 uint64
			switch which {
			case 0:
				f64 = 0x7ff8000000000000
			case 1:
				f64 = 0x7ff0000000000000
			case 2:
				f64 = 0xfff0000000000000
			default:
				f64 = 0x7ff8000000000001
			}
			switch w {
			case 16:
				h := map[uint64]uint16{0: 0x7e00, 1: 0x7c00, 2: 0xfc00, 3: 0x7e01}[which]
				e.out = append(e.out, 0xf9, byte(h>>8), byte(h))
			case 32:
				f := map[uint64]uint32{0: 0x7fc00000, 1: 0x7f800000, 2: 0xff800000, 3: 0x7fc00001}[which]
				e.out = binary.BigEndian.AppendUint32(append(e.out, 0xfa), f)
			default:
				e.out = binary.BigEndian.AppendUint64(append(e.out, 0xfb), f64)
			}
			e.hit = true
			return
		case "simple":
			a := e.m.Arg
			if a < 24 || a >= 28 {
				e.out = append(e.out, 0xe0|byte(a&0x1f))
			} else if a == 24 {
				e.out = append(e.out, 0xf8, 0x20)
			} else {
				e.out = append(e.out, 0xf8, byte(a)) // simple value < 32 in two-byte form (invalid)
			}
			e.hit = true
			return
		case "negoverflow":
			ns := []uint64{1 << 63, 1<<63 + 1, 1<<64 - 2, 1<<64 - 1, 0xc000000000000000}
			e.out = binary.BigEndian.AppendUint64(append(e.out, 0x3b), ns[e.m.Arg%uint64(len(ns))])
			e.hit = true
			return
		}
	}
	switch v.K {
	case model.KNull:
		e.out = append(e.out, 0xf6)
	case model.KBool:
		if v.B {
			e.out = append(e.out, 0xf5)
		} else {
			e.out = append(e.out, 0xf4)
		}
	case model.KInt:
		if v.I >= 0 {
			e.head(0, uint64(v.I), t)
		} else {
			e.head(1, uint64(-1-v.I), t)
		}
	case model.KUint:
		e.head(0, v.U, t)
	case model.KFloat:
		if t && e.m.Kind == "narrowfloat" {
			if e.m.Arg == 32 {
				f := float32(v.F)
				if float64(f) == v.F && math.Signbit(float64(f)) == math.Signbit(v.F) {
					e.out = binary.BigEndian.AppendUint32(append(e.out, 0xfa), math.Float32bits(f))
					e.hit = true
					return
				}
			} else if h, ok := floatToHalf(v.F); ok {
				e.out = append(e.out, 0xf9, byte(h>>8), byte(h))
				e.hit = true
				return
			}
		}
		e.out = binary.BigEndian.AppendUint64(append(e.out, 0xfb), math.Float64bits(v.F))
	case model.KString, model.KBytes:
		major := byte(3)
		if v.K == model.KBytes {
			major = 2
		}
		if t && e.m.Kind == "indef" {
			e.out = append(e.out, major<<5|31)
			if len(v.S) > 0 {
				e.out = head(e.out, major, uint64(len(v.S)))
				e.out = append(e.out, v.S...)
			}
			e.out = append(e.out, 0xff)
			e.hit = true
			return
		}
		e.head(major, uint64(len(v.S)), t)
		e.out = append(e.out, v.S...)
	case model.KLink:
		payload := append([]byte{0}, v.S...)
		major := byte(2)
		if t {
			switch e.m.Kind {
			case "linknoprefix":
				if e.m.Arg%2 == 0 {
					payload = []byte(v.S)
				} else {
					payload = append([]byte{1}, v.S...)
				}
				e.hit = true
			case "linkbadcid":
				p := []byte(v.S)
				switch e.m.Arg % 4 {
				case 0:
					if len(p) > 0 {
						p = p[:len(p)-1]
					}
				case 1:
					p = []byte{}
				case 2:
					if len(p) > 0 {
						p[0] = 0x7f
					}
				default:
					p = append([]byte{0x80}, p...) // non-minimal / bogus version varint
				}
				payload = append([]byte{0}, p...)
				e.hit = true
			case "linkjunk":
				payload = append(payload, byte(e.m.Arg))
				e.hit = true
			case "linkontext":
				major = 3
				e.hit = true
			case "doubletag":
				e.out = append(e.out, 0xd8, 0x2a)
				e.hit = true
			}
		}
		e.out = append(e.out, 0xd8, 0x2a)
		e.head(major, uint64(len(payload)), t)
		e.out = append(e.out, payload...)
	case model.KList:
		if t && e.m.Kind == "indef" {
			e.out = append(e.out, 0x9f)
			for _, x := range v.L {
				e.item(x)
			}
			e.out = append(e.out, 0xff)
			e.hit = true
			return
		}
		n := uint64(len(v.L))
		if t && e.m.Kind == "countplus" {
			n++
			e.hit = true
		}
		if t && e.m.Kind == "countminus" && n > 0 {
			n--
			e.hit = true
		}
		e.head(4, n, t)
		for _, x := range v.L {
			e.item(x)
		}
	case model.KMap:
		es := v.M
		if t {
			switch e.m.Kind {
			case "dupkey":
				if len(es) > 0 {
					es = append([]model.Entry{es[0]}, es...)
					e.hit = true
				}
			case "dupkeyfar":
				if len(es) > 1 {
					es = append(append([]model.Entry{}, es...), model.Entry{K: es[int(e.m.Arg)%(len(es)-1)].K, V: model.Int(7)})
					e.hit = true
				}
			case "swapkeys":
				if len(es) > 1 {
					r := make([]model.Entry, len(es))
					for i := range es {
						r[len(es)-1-i] = es[i]
					}
					es = r
					e.hit = true
				}
			}
		}
		if t && e.m.Kind == "indef" {
			e.out = append(e.out, 0xbf)
			for _, en := range es {
				e.key(en.K, false)
				e.item(en.V)
			}
			e.out = append(e.out, 0xff)
			e.hit = true
			return
		}
		n := uint64(len(es))
		if t && e.m.Kind == "countplus" {
			n++
			e.hit = true
		}
		if t && e.m.Kind == "countminus" && n > 0 {
			n--
			e.hit = true
		}
		e.head(5, n, t)
		for i, en := range es {
			e.key(en.K, t && e.m.Kind == "nonstringkey" && i == 0)
			e.item(en.V)
		}
	}
}

func (e *menc) key(k string, nonString bool) {
	t := e.n == e.m.Target
	e.n++
	if nonString {
		switch e.m.Arg % 5 {
		case 0:
			e.out = append(e.out, 0x01)
		case 1:
			e.out = head(e.out, 2, uint64(len(k)))
			e.out = append(e.out, k...)
		case 2:
			e.out = append(e.out, 0xf6)
		case 3:
			e.out = append(e.out, 0x80)
		default:
			e.out = append(e.out, 0x20)
		}
		e.hit = true
		return
	}
	if t {
		switch e.m.Kind {
		case "tag":
			e.out = head(e.out, 6, e.m.Arg)
			e.hit = true
		case "indef":
			e.out = append(e.out, 0x7f)
			if len(k) > 0 {
				e.out = head(e.out, 3, uint64(len(k)))
				e.out = append(e.out, k...)
			}
			e.out = append(e.out, 0xff)
			e.hit = true
			return
		}
	}
	e.head(3, uint64(len(k)), t)
	e.out = append(e.out, k...)
}

func floatToHalf(f float64) (uint16, bool) {
	for _, h := range halfCandidates(f) {
		if g := halfToFloat(h); g == f && math.Signbit(g) == math.Signbit(f) {
			return h, true
		}
	}
	return 0, false
}

// halfCandidates derives the float16 bit pattern arithmetically; verified by the caller.
func halfCandidates(f float64) []uint16 {
	if f != f || math.IsInf(f, 0) {
		return nil
	}
	sign := uint16(0)
	if math.Signbit(f) {
		sign = 0x8000
		f = -f
	}
	if f == 0 {
		return []uint16{sign}
	}
	frac, exp := math.Frexp(f) // f = frac * 2^exp, frac in [0.5,1)
	// normal half: 1.m * 2^(e-15), e in 1..30 → f = (1024+m)*2^(e-25)
	e := exp - 1 + 15
	if e >= 1 && e <= 30 {
		m := (frac*2 - 1) * 1024
		if m == math.Trunc(m) {
			return []uint16{sign | uint16(e)<<10 | uint16(m)}
		}
		return nil
	}
	if e <= 0 {
		m := f / math.Ldexp(1, -24)
		if m == math.Trunc(m) && m < 1024 {
			return []uint16{sign | uint16(m)}
		}
	}
	return nil
}
