// Package json is the reference reader for DAG-JSON output: it tokenises bytes
// with encoding/json (which keeps key order and the spelling of numbers) and
// maps them to a model.Val by the DAG-JSON rules: {"/": "<cid>"} is a link,
// {"/": {"bytes": "<base64>"}} is bytes, a number spelled with '.', 'e' or 'E'
// is a float and otherwise an integer. It shares no code with the library.
package json

import (
	"bytes"
	"encoding/base64"
	stdjson "encoding/json"
	"fmt"
	"io"
	"strconv"
	"strings"

	cid "github.com/ipfs/go-cid"

	"verif/lib/model"
)

// Result carries the value and structural observations about the text.
type Result struct {
	Val model.Val
	// UnsortedObject is set when some object's keys are not in strictly increasing bytewise order.
	UnsortedObject string
}

func Decode(b []byte) (Result, error) {
	d := stdjson.NewDecoder(bytes.NewReader(b))
	d.UseNumber()
	var res Result
	v, err := value(d, &res)
	if err != nil {
		return res, err
	}
	if _, err := d.Token(); err != io.EOF {
		return res, fmt.Errorf("trailing content after the JSON value")
	}
	res.Val = v
	return res, nil
}

func value(d *stdjson.Decoder, res *Result) (model.Val, error) {
	t, err := d.Token()
	if err != nil {
		return model.Val{}, err
	}
	return fromToken(d, t, res)
}

func fromToken(d *stdjson.Decoder, t stdjson.Token, res *Result) (model.Val, error) {
	switch x := t.(type) {
	case nil:
		return model.Null(), nil
	case bool:
		return model.Bool(x), nil
	case string:
		return model.String(x), nil
	case stdjson.Number:
		s := x.String()
		if strings.ContainsAny(s, ".eE") {
			f, err := strconv.ParseFloat(s, 64)
			if err != nil {
				return model.Val{}, err
			}
			return model.Float(f), nil
		}
		i, err := strconv.ParseInt(s, 10, 64)
		if err != nil {
			u, uerr := strconv.ParseUint(s, 10, 64)
			if uerr != nil {
				return model.Val{}, fmt.Errorf("integer %s out of range", s)
			}
			return model.Uint(u), nil
		}
		return model.Int(i), nil
	case stdjson.Delim:
		switch x {
		case '[':
			out := model.Val{K: model.KList, L: []model.Val{}}
			for d.More() {
				v, err := value(d, res)
				if err != nil {
					return out, err
				}
				out.L = append(out.L, v)
			}
			_, err := d.Token()
			return out, err
		case '{':
			out := model.Val{K: model.KMap, M: []model.Entry{}}
			for d.More() {
				kt, err := d.Token()
				if err != nil {
					return out, err
				}
				k, ok := kt.(string)
				if !ok {
					return out, fmt.Errorf("non-string key")
				}
				v, err := value(d, res)
				if err != nil {
					return out, err
				}
				if n := len(out.M); n > 0 && !(out.M[n-1].K < k) && res.UnsortedObject == "" {
					res.UnsortedObject = fmt.Sprintf("key %q follows %q", k, out.M[n-1].K)
				}
				out.M = append(out.M, model.Entry{K: k, V: v})
			}
			if _, err := d.Token(); err != nil {
				return out, err
			}
			// reserved shapes
			if len(out.M) == 1 && out.M[0].K == "/" {
				in := out.M[0].V
				if in.K == model.KString {
					c, err := cid.Decode(in.S)
					if err != nil {
						return out, fmt.Errorf("reserved link form with an invalid CID %q: %v", in.S, err)
					}
					return model.Link(c.Bytes()), nil
				}
				if in.K == model.KMap && len(in.M) == 1 && in.M[0].K == "bytes" && in.M[0].V.K == model.KString {
					raw, err := base64.RawStdEncoding.DecodeString(in.M[0].V.S)
					if err != nil {
						return out, fmt.Errorf("reserved bytes form with invalid base64: %v", err)
					}
					return model.Bytes(raw), nil
				}
			}
			return out, nil
		}
	}
	return model.Val{}, fmt.Errorf("unexpected token %v", t)
}
