// Package sel is the reference semantics of selectors: a denotational walk of a
// selector AST over a graph of abstract values, written from the selector
// specification and this repository's doc comments (where those are the only
// source: recursion-limit arithmetic, field order, subset bound normalisation).
package sel

import (
	"fmt"
	"strconv"

	"verif/lib/graphgen"
	"verif/lib/model"
	"verif/lib/selgen"
)

type Visit struct {
	Segs  []string
	Match bool
	Val   model.Val
}

type Load struct {
	Link string
	Segs []string
}

type Result struct {
	Visits []Visit
	Loads  []Load
	Err    string // non-empty: the walk must end with an error (missing block)
}

// runtime selector forms
type rsel interface{}

type (
	rMatch  struct{ sub *[2]int64 }
	rAll    struct{ next rsel }
	rFields struct {
		keys []string
		sels []rsel
	}
	rIndex struct {
		idx  int64
		next rsel
	}
	rRange struct {
		from, to int64
		next     rsel
	}
	rUnion struct{ members []rsel }
	rRec   struct {
		seq, cur rsel
		limited  bool
		depth    int64
		stopAt   string
	}
	rEdge struct{}
)

func compile(s *selgen.Sel) rsel {
	switch s.Kind {
	case "match":
		return rMatch{}
	case "subset":
		return rMatch{sub: &[2]int64{s.From, s.To}}
	case "all":
		return rAll{compile(s.Next)}
	case "fields":
		f := rFields{}
		for _, x := range s.Fields {
			f.keys = append(f.keys, x.Key)
			f.sels = append(f.sels, compile(x.Sel))
		}
		return f
	case "index":
		return rIndex{s.Index, compile(s.Next)}
	case "range":
		return rRange{s.From, s.To, compile(s.Next)}
	case "union":
		u := rUnion{}
		for _, x := range s.Members {
			u.members = append(u.members, compile(x))
		}
		return u
	case "rec":
		seq := compile(s.Seq)
		return rRec{seq: seq, cur: seq, limited: s.Limit != -1, depth: s.Limit, stopAt: s.StopAt}
	case "edge":
		return rEdge{}
	}
	panic("ref/sel: unknown kind")
}

// interests: all=true means every child in the node's own order.
func interests(s rsel) (all bool, segs []string) {
	switch x := s.(type) {
	case rAll:
		return true, nil
	case rFields:
		return false, x.keys
	case rIndex:
		return false, []string{strconv.FormatInt(x.idx, 10)}
	case rRange:
		if uint64(x.to)-uint64(x.from) > 1<<16 {
			return true, nil // huge spans are matched while iterating
		}
		for i := x.from; i < x.to; i++ {
			segs = append(segs, strconv.FormatInt(i, 10))
		}
		return false, segs
	case rUnion:
		seen := map[string]bool{}
		for _, m := range x.members {
			a, ss := interests(m)
			if a {
				return true, nil
			}
			_ = ss
		}
		for _, m := range x.members {
			_, ss := interests(m)
			for _, sg := range ss {
				if !seen[sg] {
					seen[sg] = true
					segs = append(segs, sg)
				}
			}
		}
		return false, segs
	case rRec:
		return interests(x.cur)
	}
	return false, nil // matcher, edge
}

func hasEdgeTop(s rsel) bool {
	switch x := s.(type) {
	case rEdge:
		return true
	case rUnion:
		for _, m := range x.members {
			if hasEdgeTop(m) {
				return true
			}
		}
	}
	return false
}

func replaceEdges(s rsel, repl rsel) rsel {
	done := false
	return replaceEdgesOnce(s, repl, &done)
}

// All edges met in one step — in one union or in unions nested inside it — stand for the same sequence at the
// same position, and a union is idempotent: the sequence is substituted for the first edge, the others drop out.
// (Substituting per edge denotes the same walk but doubles the selector at every level: with the deeper recursion
// limits of the thorough tier the reference itself took longer than twenty minutes on three cases.)
func replaceEdgesOnce(s rsel, repl rsel, done *bool) rsel {
	switch x := s.(type) {
	case rEdge:
		if *done {
			return nil
		}
		*done = true
		return repl
	case rUnion:
		var ms []rsel
		for _, m := range x.members {
			if r := replaceEdgesOnce(m, repl, done); r != nil {
				ms = append(ms, r)
			}
		}
		switch len(ms) {
		case 0:
			return nil
		case 1:
			return ms[0]
		}
		return rUnion{ms}
	}
	return s
}

func child(n model.Val, seg string) (model.Val, bool) {
	switch n.K {
	case model.KMap:
		return n.Lookup(seg)
	case model.KList:
		i, err := strconv.ParseInt(seg, 10, 64)
		if err != nil || i < 0 || i >= int64(len(n.L)) {
			return model.Val{}, false
		}
		return n.L[i], true
	}
	return model.Val{}, false
}

func explore(s rsel, n model.Val, seg string) rsel {
	switch x := s.(type) {
	case rAll:
		return x.next
	case rFields:
		for i, k := range x.keys {
			if k == seg {
				return x.sels[i]
			}
		}
		return nil
	case rIndex:
		if n.K != model.KList {
			return nil
		}
		if i, err := strconv.ParseInt(seg, 10, 64); err == nil && i == x.idx {
			return x.next
		}
		return nil
	case rRange:
		if n.K != model.KList {
			return nil
		}
		if i, err := strconv.ParseInt(seg, 10, 64); err == nil && i >= x.from && i < x.to {
			return x.next
		}
		return nil
	case rUnion:
		var rs []rsel
		for _, m := range x.members {
			if r := explore(m, n, seg); r != nil {
				rs = append(rs, r)
			}
		}
		switch len(rs) {
		case 0:
			return nil
		case 1:
			return rs[0]
		}
		return rUnion{rs}
	case rRec:
		if x.stopAt != "" {
			if t, ok := child(n, seg); ok && t.K == model.KLink && t.S == x.stopAt {
				return nil
			}
		}
		if _, isEdge := x.cur.(rEdge); isEdge {
			return nil
		}
		next := explore(x.cur, n, seg)
		if next == nil {
			return nil
		}
		if !hasEdgeTop(next) {
			return rRec{x.seq, next, x.limited, x.depth, x.stopAt}
		}
		if x.limited {
			// an edge is followed only while the remaining depth is at least 2
			if x.depth < 2 {
				return replaceEdges(next, nil)
			}
			return rRec{x.seq, replaceEdges(next, x.seq), true, x.depth - 1, x.stopAt}
		}
		return rRec{x.seq, replaceEdges(next, x.seq), false, 0, x.stopAt}
	}
	return nil // matcher, edge
}

func slice(sub *[2]int64, n model.Val) (model.Val, bool) {
	if n.K != model.KString && n.K != model.KBytes {
		return model.Val{}, false
	}
	length := int64(len(n.S))
	from, to := sub[0], sub[1]
	if to < 0 {
		to = length + to
	} else if length < to {
		to = length
	}
	if from < 0 {
		from = length + from
		if from < 0 {
			from = 0
		}
	}
	if from > to || from >= length {
		return model.Val{}, false
	}
	return model.Val{K: n.K, S: n.S[from:to]}, true
}

func match(s rsel, n model.Val) (model.Val, bool) {
	switch x := s.(type) {
	case rMatch:
		if x.sub == nil {
			return n, true
		}
		return slice(x.sub, n)
	case rUnion:
		for _, m := range x.members {
			if v, ok := match(m, n); ok {
				return v, true
			}
		}
	case rRec:
		return match(x.cur, n)
	}
	return model.Val{}, false
}

type walker struct {
	g   *graphgen.Graph
	res Result
	n   int
}

// Walk computes the denotation of the selector over the graph from root.
func Walk(g *graphgen.Graph, root model.Val, s *selgen.Sel) Result {
	w := &walker{g: g}
	w.walk(root, compile(s), nil)
	return w.res
}

func (w *walker) walk(n model.Val, s rsel, segs []string) bool {
	w.n++
	if w.n > 150000 { // (below the harness-side cap of 200000 visits, so a large walk is inconclusive on both sides)
		w.res.Err = "reference walk too large"
		return false
	}
	if v, ok := match(s, n); ok {
		w.res.Visits = append(w.res.Visits, Visit{Segs: segs, Match: true, Val: v})
	} else {
		w.res.Visits = append(w.res.Visits, Visit{Segs: segs, Val: n})
	}
	if n.K != model.KMap && n.K != model.KList {
		return true
	}
	type kv struct {
		seg string
		v   model.Val
	}
	var kids []kv
	all, explicit := interests(s)
	if all {
		if n.K == model.KMap {
			for _, e := range n.M {
				kids = append(kids, kv{e.K, e.V})
			}
		} else {
			for i, x := range n.L {
				kids = append(kids, kv{strconv.Itoa(i), x})
			}
		}
	} else {
		for _, sg := range explicit {
			if c, ok := child(n, sg); ok {
				kids = append(kids, kv{sg, c})
			}
		}
	}
	for _, k := range kids {
		next := explore(s, n, k.seg)
		if next == nil {
			continue
		}
		p := append(append([]string(nil), segs...), k.seg)
		c := k.v
		if c.K == model.KLink {
			w.res.Loads = append(w.res.Loads, Load{Link: c.S, Segs: p})
			b, ok := w.g.Vals[c.S]
			if !ok {
				w.res.Err = fmt.Sprintf("block %x is missing", c.S)
				return false
			}
			c = b
		}
		if !w.walk(c, next, p) {
			return false
		}
	}
	return true
}

// SortFields returns a copy of the AST with every ExploreFields in bytewise key
// order (what the DAG-JSON form of the selector denotes: the encoder sorts map keys).
func SortFields(s *selgen.Sel) *selgen.Sel {
	if s == nil {
		return nil
	}
	c := *s
	c.Next = SortFields(s.Next)
	c.Seq = SortFields(s.Seq)
	c.Members = nil
	for _, m := range s.Members {
		c.Members = append(c.Members, SortFields(m))
	}
	c.Fields = nil
	for _, f := range s.Fields {
		c.Fields = append(c.Fields, selgen.Field{Key: f.Key, Sel: SortFields(f.Sel)})
	}
	for i := 1; i < len(c.Fields); i++ {
		for j := i; j > 0 && c.Fields[j].Key < c.Fields[j-1].Key; j-- {
			c.Fields[j], c.Fields[j-1] = c.Fields[j-1], c.Fields[j]
		}
	}
	return &c
}
