// Package schemagen generates random (non-cyclic) type systems over every
// representation strategy, values inhabiting them, and converts the reference
// schema AST into the library's schema.TypeSystem.
package schemagen

import (
	"fmt"
	"os"
	"strings"

	"github.com/ipld/go-ipld-prime/datamodel"
	"github.com/ipld/go-ipld-prime/schema"

	"verif/lib/fw"
	"verif/lib/model"
	rs "verif/lib/ref/schema"
)

type Opts struct {
	Types int // number of composite types to add
	// ForGen restricts to what the Go code generator accepts (no enum, no Any, no listpairs).
	ForGen bool
}

var baseTypes = []*rs.Type{
	{Name: "String", Kind: "string"}, {Name: "Int", Kind: "int"}, {Name: "Bool", Kind: "bool"},
	{Name: "Float", Kind: "float"}, {Name: "Bytes", Kind: "bytes"}, {Name: "Link", Kind: "link"}, {Name: "Any", Kind: "any"},
	{Name: "Str1", Kind: "string"},
}

// Gen draws a type system. Every type refers only to earlier types.
func Gen(r *fw.RNG, o Opts) *rs.TypeSystem {
	ts := &rs.TypeSystem{}
	for _, b := range baseTypes {
		if o.ForGen && b.Kind == "any" {
			continue
		}
		c := *b
		ts.Add(&c)
	}
	pick := func(pred func(*rs.Type) bool) *rs.Type {
		var cands []*rs.Type
		for _, t := range ts.Types {
			if pred(t) {
				cands = append(cands, t)
			}
		}
		if len(cands) == 0 {
			return nil
		}
		// bias to composite (later) types
		if r.Bool() {
			return cands[len(cands)-1-r.Intn(min(3, len(cands)))]
		}
		return cands[r.Intn(len(cands))]
	}
	stringRepr := func(t *rs.Type) bool { return t.Kind == "string" }
	depthOf := map[string]int{}
	depth := func(t *rs.Type) int { return depthOf[t.Name] }
	shallow := func(t *rs.Type) bool { return depth(t) < 3 }
	for n := 0; n < o.Types; n++ {
		name := fmt.Sprintf("T%d", n)
		t := &rs.Type{Name: name}
		d := 0
		use := func(x *rs.Type) string {
			if depth(x)+1 > d {
				d = depth(x) + 1
			}
			return x.Name
		}
		kinds := []string{"struct-map", "struct-map", "struct-tuple", "struct-stringjoin", "struct-listpairs", "map", "map-complexkey", "map-enumkey", "list", "union-keyed", "union-kinded", "union-stringprefix", "enum-string", "enum-int"}
		if env := os.Getenv("VERIF_KINDS"); env != "" { // debugging aid: restrict the strategies drawn
			kinds = strings.Split(env, ",")
		}
		k := kinds[r.Intn(len(kinds))]
		if o.ForGen && (k == "struct-listpairs" || strings.HasPrefix(k, "enum")) {
			n--
			continue
		}
		switch k {
		case "struct-map", "struct-tuple", "struct-listpairs":
			t.Kind = "struct"
			t.StructRepr = strings.TrimPrefix(k, "struct-")
			nf := 1 + r.Intn(4)
			// one struct in forty is WIDE: 63–72 scalar fields, so that per-field bookkeeping kept in a machine
			// word (a bit set of done fields, say) is exercised past its 64th bit (round-3 seed C12-8)
			wide := r.Chance(1, 40)
			if wide {
				nf = 63 + r.Intn(10)
				if o.ForGen {
					// the code generator keeps the set of assembled fields in an int: 63 fields is what it
					// can do; what it emits for 64 and more is C13's wide-struct probe (a known finding)
					nf = 55 + r.Intn(9)
				}
			}
			for i := 0; i < nf; i++ {
				ft := pick(shallow)
				if wide {
					ft = pick(func(x *rs.Type) bool { return x.Kind == "string" || x.Kind == "int" || x.Kind == "bool" })
				}
				f := rs.Field{Name: fmt.Sprintf("f%d", i), Type: use(ft)}
				switch r.Intn(6) {
				case 0:
					f.Optional = true
				case 1:
					f.Nullable = true
				case 2:
					f.Optional, f.Nullable = true, true
				}
				t.Fields = append(t.Fields, f)
			}
			if t.StructRepr == "tuple" {
				// optionals only at the end (absence of a middle field has no tuple form)
				seenOpt := false
				for i := range t.Fields {
					if t.Fields[i].Optional {
						seenOpt = true
					} else if seenOpt {
						t.Fields[i].Optional = true
					}
				}
			}
			if t.StructRepr == "map" && r.Bool() {
				t.Renames = map[string]string{}
				switch n := len(t.Fields); {
				case n >= 2 && r.Chance(1, 4):
					// serial names that are other fields' type-level names: a rotation of the names
					off := 1 + r.Intn(n-1)
					for i, f := range t.Fields {
						t.Renames[f.Name] = t.Fields[(i+off)%n].Name
					}
				case n >= 2 && r.Chance(1, 4):
					// a chain: f0 is written as "f1", f1 as "f2", ..., the last renamed one gets a fresh name
					k := 1 + r.Intn(n-1)
					for i := 0; i < k; i++ {
						t.Renames[t.Fields[i].Name] = t.Fields[i+1].Name
					}
					t.Renames[t.Fields[k].Name] = "r_" + t.Fields[k].Name
				default:
					for _, f := range t.Fields {
						if r.Bool() {
							t.Renames[f.Name] = "r_" + f.Name
						}
					}
				}
			}
		case "struct-stringjoin":
			t.Kind, t.StructRepr = "struct", "stringjoin"
			t.Delim = []string{":", ",", "--"}[r.Intn(3)]
			nf := 1 + r.Intn(3)
			for i := 0; i < nf; i++ {
				t.Fields = append(t.Fields, rs.Field{Name: fmt.Sprintf("f%d", i), Type: use(pick(stringRepr))})
			}
		case "map", "map-complexkey", "map-enumkey":
			t.Kind = "map"
			t.KeyType = "String"
			if k == "map-enumkey" {
				kt := pick(func(x *rs.Type) bool { return x.Kind == "enum" && x.EnumRepr == "string" })
				if kt == nil || o.ForGen {
					n--
					continue
				}
				t.KeyType = use(kt)
			}
			if k == "map-complexkey" {
				kt := pick(func(x *rs.Type) bool { return x.Kind == "struct" && x.StructRepr == "stringjoin" })
				if kt == nil {
					n--
					continue
				}
				t.KeyType = use(kt)
			}
			t.ValueType = use(pick(shallow))
			t.ValueNullable = r.Chance(1, 3)
		case "list":
			t.Kind = "list"
			t.ValueType = use(pick(shallow))
			t.ValueNullable = r.Chance(1, 3)
		case "union-keyed":
			t.Kind, t.UnionRepr = "union", "keyed"
			t.Discr = map[string]string{}
			nm := 2 + r.Intn(2)
			for len(t.Members) < nm {
				m := pick(shallow)
				if _, dup := t.Discr[m.Name]; dup || m.Kind == "any" {
					if len(t.Members) > 0 {
						break
					}
					continue
				}
				t.Members = append(t.Members, use(m))
				t.Discr[m.Name] = fmt.Sprintf("d%d", len(t.Members))
			}
		case "union-kinded":
			t.Kind, t.UnionRepr = "union", "kinded"
			used := map[model.Kind]bool{}
			for tries := 0; tries < 12 && len(t.Members) < 4; tries++ {
				m := pick(shallow)
				rk := ts.ReprKind(m)
				if rk == model.KAbsent || used[rk] {
					continue
				}
				dup := false
				for _, x := range t.Members {
					if x == m.Name {
						dup = true
					}
				}
				if dup {
					continue
				}
				used[rk] = true
				t.Members = append(t.Members, use(m))
			}
			if len(t.Members) < 2 {
				n--
				continue
			}
		case "union-stringprefix":
			t.Kind, t.UnionRepr = "union", "stringprefix"
			// (the empty delimiter is what the schema DSL always produces: the discriminant is then a bare prefix
			// of the string; a surviving mechanical mutant showed no check ever took that branch)
			t.Delim = []string{":", "/", ""}[r.Intn(3)]
			t.Members = []string{"String", "Str1"}
			t.Discr = map[string]string{"String": "s", "Str1": "t"}
			if r.Bool() {
				// longer discriminants, neither a prefix of the other
				t.Discr = map[string]string{"String": "str", "Str1": "s1-"}
			}
			d = 1
		case "enum-string":
			t.Kind, t.EnumRepr = "enum", "string"
			t.EnumMembers = []string{"Alpha", "Beta", "Gamma"}[:2+r.Intn(2)]
			if r.Bool() {
				t.EnumStr = map[string]string{"Alpha": "a", "Beta": "b"}
			}
			d = 1
		case "enum-int":
			t.Kind, t.EnumRepr = "enum", "int"
			t.EnumMembers = []string{"Alpha", "Beta", "Gamma"}[:2+r.Intn(2)]
			t.EnumInt = map[string]int64{"Alpha": 0, "Beta": 7, "Gamma": -2}
			d = 1
		}
		depthOf[name] = d
		ts.Add(t)
	}
	return ts
}

// Describe renders the type system compactly.
func Describe(ts *rs.TypeSystem) string {
	var sb strings.Builder
	for _, t := range ts.Types {
		switch t.Kind {
		case "struct":
			fmt.Fprintf(&sb, "type %s struct {", t.Name)
			for _, f := range t.Fields {
				mod := ""
				if f.Optional {
					mod += "optional "
				}
				if f.Nullable {
					mod += "nullable "
				}
				ren := ""
				if s, ok := t.Renames[f.Name]; ok {
					ren = " (rename " + s + ")"
				}
				fmt.Fprintf(&sb, " %s %s%s%s;", f.Name, mod, f.Type, ren)
			}
			fmt.Fprintf(&sb, "} representation %s", t.StructRepr)
			if t.Delim != "" {
				fmt.Fprintf(&sb, "(%q)", t.Delim)
			}
			sb.WriteString("\n")
		case "map":
			n := ""
			if t.ValueNullable {
				n = "nullable "
			}
			fmt.Fprintf(&sb, "type %s {%s:%s%s}\n", t.Name, t.KeyType, n, t.ValueType)
		case "list":
			n := ""
			if t.ValueNullable {
				n = "nullable "
			}
			fmt.Fprintf(&sb, "type %s [%s%s]\n", t.Name, n, t.ValueType)
		case "union":
			fmt.Fprintf(&sb, "type %s union %v representation %s %v %q\n", t.Name, t.Members, t.UnionRepr, t.Discr, t.Delim)
		case "enum":
			fmt.Fprintf(&sb, "type %s enum %v representation %s %v %v\n", t.Name, t.EnumMembers, t.EnumRepr, t.EnumStr, t.EnumInt)
		}
	}
	return sb.String()
}

func kindOf(k model.Kind) datamodel.Kind {
	switch k {
	case model.KBool:
		return datamodel.Kind_Bool
	case model.KInt:
		return datamodel.Kind_Int
	case model.KFloat:
		return datamodel.Kind_Float
	case model.KString:
		return datamodel.Kind_String
	case model.KBytes:
		return datamodel.Kind_Bytes
	case model.KLink:
		return datamodel.Kind_Link
	case model.KList:
		return datamodel.Kind_List
	case model.KMap:
		return datamodel.Kind_Map
	}
	return datamodel.Kind_Invalid
}

// ToLibrary builds the library's TypeSystem for the reference one.
func ToLibrary(ts *rs.TypeSystem) (*schema.TypeSystem, error) {
	lib := new(schema.TypeSystem)
	lib.Init()
	for _, t := range ts.Types {
		n := t.Name
		switch t.Kind {
		case "string":
			lib.Accumulate(schema.SpawnString(n))
		case "int":
			lib.Accumulate(schema.SpawnInt(n))
		case "bool":
			lib.Accumulate(schema.SpawnBool(n))
		case "float":
			lib.Accumulate(schema.SpawnFloat(n))
		case "bytes":
			lib.Accumulate(schema.SpawnBytes(n))
		case "link":
			lib.Accumulate(schema.SpawnLink(n))
		case "any":
			lib.Accumulate(schema.SpawnAny(n))
		case "list":
			lib.Accumulate(schema.SpawnList(n, t.ValueType, t.ValueNullable))
		case "map":
			lib.Accumulate(schema.SpawnMap(n, t.KeyType, t.ValueType, t.ValueNullable))
		case "enum":
			if t.EnumRepr == "int" {
				m := schema.EnumRepresentation_Int{}
				for _, x := range t.EnumMembers {
					m[x] = int(t.EnumInt[x])
				}
				lib.Accumulate(schema.SpawnEnum(n, t.EnumMembers, m))
			} else {
				m := schema.EnumRepresentation_String{}
				for k, v := range t.EnumStr {
					m[k] = v
				}
				lib.Accumulate(schema.SpawnEnum(n, t.EnumMembers, m))
			}
		case "union":
			var repr schema.UnionRepresentation
			switch t.UnionRepr {
			case "keyed":
				tab := map[string]schema.TypeName{}
				for m, d := range t.Discr {
					tab[d] = m
				}
				repr = schema.SpawnUnionRepresentationKeyed(tab)
			case "stringprefix":
				tab := map[string]schema.TypeName{}
				for m, d := range t.Discr {
					tab[d] = m
				}
				repr = schema.SpawnUnionRepresentationStringprefix(t.Delim, tab)
			default:
				tab := map[datamodel.Kind]schema.TypeName{}
				for _, m := range t.Members {
					tab[kindOf(ts.ReprKind(ts.T(m)))] = m
				}
				repr = schema.SpawnUnionRepresentationKinded(tab)
			}
			lib.Accumulate(schema.SpawnUnion(n, t.Members, repr))
		case "struct":
			var fs []schema.StructField
			for _, f := range t.Fields {
				fs = append(fs, schema.SpawnStructField(f.Name, f.Type, f.Optional, f.Nullable))
			}
			var repr schema.StructRepresentation
			switch t.StructRepr {
			case "map":
				repr = schema.SpawnStructRepresentationMap(t.Renames)
			case "tuple":
				repr = schema.SpawnStructRepresentationTuple()
			case "stringjoin":
				repr = schema.SpawnStructRepresentationStringjoin(t.Delim)
			default:
				repr = schema.SpawnStructRepresentationListPairs()
			}
			lib.Accumulate(schema.SpawnStruct(n, fs, repr))
		}
	}
	if errs := lib.ValidateGraph(); len(errs) > 0 {
		return lib, fmt.Errorf("library rejects the type system: %v", errs[0])
	}
	return lib, nil
}

// GenValue draws a typed value (type view) of t.
func GenValue(r *fw.RNG, ts *rs.TypeSystem, t *rs.Type, depth int) model.Val {
	maybe := func(ft *rs.Type, nullable bool) model.Val {
		if nullable && r.Chance(1, 3) {
			return model.Null()
		}
		return GenValue(r, ts, ft, depth+1)
	}
	width := func() int {
		if depth > 3 {
			return r.Intn(2)
		}
		return r.Intn(4)
	}
	switch t.Kind {
	case "string":
		for {
			s := model.GenString(r, false)
			// keep generated strings free of the delimiters (stringjoin / stringprefix values must parse back uniquely)
			if !strings.ContainsAny(s, ":,/-") {
				return model.String(s)
			}
		}
	case "int":
		return model.GenInt(r, false)
	case "bool":
		return model.Bool(r.Bool())
	case "float":
		return model.GenFloat(r, false)
	case "bytes":
		return model.Bytes(model.GenBytes(r))
	case "link":
		return model.Link(model.GenCID(r))
	case "any":
		for {
			v := model.Gen(r, model.GenOpts{MaxDepth: 2, MaxWidth: 3, Links: true, AvoidJSONReserved: true})
			if v.K != model.KNull {
				return v
			}
		}
	case "enum":
		return model.String(t.EnumMembers[r.Intn(len(t.EnumMembers))])
	case "list":
		n := width()
		out := model.Val{K: model.KList, L: []model.Val{}}
		for i := 0; i < n; i++ {
			out.L = append(out.L, maybe(ts.T(t.ValueType), t.ValueNullable))
		}
		return out
	case "map":
		n := width()
		out := model.Val{K: model.KMap, M: []model.Entry{}}
		seen := map[string]bool{}
		for i := 0; i < n; i++ {
			kv := GenValue(r, ts, ts.T(t.KeyType), depth+1)
			kr, err := ts.ReprOf(ts.T(t.KeyType), kv)
			if ts.T(t.KeyType).Kind == "enum" {
				kr = kv // enum keys read as the member name in the type view
			}
			if err != nil || kr.K != model.KString || seen[kr.S] {
				continue
			}
			seen[kr.S] = true
			out.M = append(out.M, model.Entry{K: kr.S, V: maybe(ts.T(t.ValueType), t.ValueNullable)})
		}
		return out
	case "union":
		m := t.Members[r.Intn(len(t.Members))]
		return model.Map(model.E(m, GenValue(r, ts, ts.T(m), depth+1)))
	case "struct":
		out := model.Val{K: model.KMap, M: []model.Entry{}}
		absentFrom := len(t.Fields)
		if t.StructRepr == "tuple" {
			// only trailing absents
			for i := len(t.Fields) - 1; i >= 0 && t.Fields[i].Optional && r.Bool(); i-- {
				absentFrom = i
			}
		}
		for i, f := range t.Fields {
			var v model.Val
			switch {
			case t.StructRepr == "tuple" && i >= absentFrom:
				v = model.Val{K: model.KAbsent}
			case t.StructRepr != "tuple" && f.Optional && r.Chance(2, 5):
				v = model.Val{K: model.KAbsent}
			default:
				v = maybe(ts.T(f.Type), f.Nullable)
			}
			out.M = append(out.M, model.Entry{K: f.Name, V: v})
		}
		return out
	}
	panic("schemagen: kind " + t.Kind)
}
