// Package obs is the read-out monitor: it reads a datamodel.Node through every
// accessor of the public node API (each twice), both iterators and every
// lookup form, converts what the node claims to be into a model.Val, and
// records every internal disagreement it sees on the way.
package obs

import (
	"bytes"
	"errors"
	"fmt"
	"io"
	"math"
	"runtime/debug"
	"strconv"

	"github.com/ipld/go-ipld-prime/datamodel"
	"github.com/ipld/go-ipld-prime/node/basicnode"

	"verif/lib/model"
)

// Issue is one internal disagreement of a node with itself or with the node contract.
type Issue struct {
	Path   string
	Sig    string
	Detail string
}

func (i Issue) String() string { return fmt.Sprintf("%s at <%s>: %s", i.Sig, i.Path, i.Detail) }

type Options struct {
	// Light skips the lookup probes, wrong-kind probes and double reads; only
	// kind, scalars and iteration are read.
	Light bool
	// StrictWrongKind demands datamodel.ErrWrongKind from kind-inappropriate
	// accessors (else any non-nil error is accepted).
	StrictWrongKind bool
	// Typed: absent values are legitimate (type-level view of a struct).
	Typed bool
	// NoWrongKindProbes skips the kind-inappropriate accessor probes (C01 decides those; the
	// schema properties compare what the views contain).
	NoWrongKindProbes bool
	// KeyNode builds the foreign key node handed to LookupByNode (defaults to a basicnode string).
	MaxIssues int
}

type reader struct {
	opt    Options
	issues []Issue
	// Events counts accessor calls made, so that evidence can show the monitor ran.
	Events int64
}

type Result struct {
	Val    model.Val
	Issues []Issue
	Events int64
}

// ReadOut reads the whole tree below n.
func ReadOut(n datamodel.Node, opt Options) Result {
	if opt.MaxIssues == 0 {
		opt.MaxIssues = 8
	}
	r := &reader{opt: opt}
	v := r.read(n, "")
	return Result{Val: v, Issues: r.issues, Events: r.Events}
}

func (r *reader) issue(path, sig, f string, a ...any) {
	if len(r.issues) < r.opt.MaxIssues {
		r.issues = append(r.issues, Issue{Path: path, Sig: sig, Detail: fmt.Sprintf(f, a...)})
	}
}

// call runs f under recover; a panic is an issue.
func (r *reader) call(path, what string, f func()) (ok bool) {
	r.Events++
	defer func() {
		if p := recover(); p != nil {
			ok = false
			st := string(debug.Stack())
			if len(st) > 1800 {
				st = st[:1800]
			}
			r.issue(path, "panic:"+what, "%v\n%s", p, st)
		}
	}()
	f()
	return true
}

func isWrongKind(err error) bool {
	var wk datamodel.ErrWrongKind
	return errors.As(err, &wk)
}

func (r *reader) read(n datamodel.Node, path string) model.Val {
	if n == nil {
		r.issue(path, "nil-node", "node is nil")
		return model.Val{K: model.KAbsent}
	}
	var kind datamodel.Kind
	var isNull, isAbsent bool
	var length int64
	if !r.call(path, "Kind", func() {
		kind = n.Kind()
		isNull = n.IsNull()
		isAbsent = n.IsAbsent()
		length = n.Length()
	}) {
		return model.Val{K: model.KAbsent}
	}
	if isAbsent {
		if !r.opt.Typed {
			r.issue(path, "absent-in-untyped", "IsAbsent() is true on a data-model node")
		}
		if kind != datamodel.Kind_Null {
			r.issue(path, "absent-kind", "absent node has kind %v", kind)
		}
		return model.Val{K: model.KAbsent}
	}
	if isNull != (kind == datamodel.Kind_Null) {
		r.issue(path, "null-vs-kind", "IsNull=%v but Kind=%v", isNull, kind)
	}
	if !r.opt.Light && !r.opt.NoWrongKindProbes {
		r.probeWrongKind(n, kind, path)
	}
	switch kind {
	case datamodel.Kind_Null:
		return model.Null()
	case datamodel.Kind_Bool:
		var a, b bool
		var e1, e2 error
		r.call(path, "AsBool", func() { a, e1 = n.AsBool(); b, e2 = n.AsBool() })
		if e1 != nil || e2 != nil {
			r.issue(path, "accessor-error", "AsBool on bool node: %v / %v", e1, e2)
		}
		if a != b {
			r.issue(path, "double-read", "AsBool %v then %v", a, b)
		}
		return model.Bool(a)
	case datamodel.Kind_Int:
		var a, b int64
		var e1, e2 error
		r.call(path, "AsInt", func() { a, e1 = n.AsInt(); b, e2 = n.AsInt() })
		if un, ok := n.(datamodel.UintNode); ok {
			var u, u2 uint64
			var ue, ue2 error
			r.call(path, "AsUint", func() { u, ue = un.AsUint(); u2, ue2 = un.AsUint() })
			if ue != nil || ue2 != nil {
				r.issue(path, "accessor-error", "AsUint on uint node: %v", ue)
			}
			if u != u2 {
				r.issue(path, "double-read", "AsUint %d then %d", u, u2)
			}
			if u > math.MaxInt64 {
				if e1 == nil {
					r.issue(path, "uint-asint", "AsInt on uint %d returned %d without error", u, a)
				}
				return model.Uint(u)
			}
			if e1 != nil || a < 0 || uint64(a) != u {
				r.issue(path, "uint-vs-int", "AsUint=%d but AsInt=%d err=%v", u, a, e1)
			}
			return model.Int(a)
		}
		if e1 != nil || e2 != nil {
			r.issue(path, "accessor-error", "AsInt on int node: %v / %v", e1, e2)
		}
		if a != b {
			r.issue(path, "double-read", "AsInt %d then %d", a, b)
		}
		return model.Int(a)
	case datamodel.Kind_Float:
		var a, b float64
		var e1, e2 error
		r.call(path, "AsFloat", func() { a, e1 = n.AsFloat(); b, e2 = n.AsFloat() })
		if e1 != nil || e2 != nil {
			r.issue(path, "accessor-error", "AsFloat on float node: %v / %v", e1, e2)
		}
		if math.Float64bits(a) != math.Float64bits(b) {
			r.issue(path, "double-read", "AsFloat %v then %v", a, b)
		}
		return model.Float(a)
	case datamodel.Kind_String:
		var a, b string
		var e1, e2 error
		r.call(path, "AsString", func() { a, e1 = n.AsString(); b, e2 = n.AsString() })
		if e1 != nil || e2 != nil {
			r.issue(path, "accessor-error", "AsString on string node: %v / %v", e1, e2)
		}
		if a != b {
			r.issue(path, "double-read", "AsString %q then %q", a, b)
		}
		return model.String(a)
	case datamodel.Kind_Bytes:
		return r.readBytes(n, path)
	case datamodel.Kind_Link:
		var a, b datamodel.Link
		var e1, e2 error
		r.call(path, "AsLink", func() { a, e1 = n.AsLink(); b, e2 = n.AsLink() })
		if e1 != nil || e2 != nil || a == nil || b == nil {
			r.issue(path, "accessor-error", "AsLink on link node: %v / %v (nil=%v)", e1, e2, a == nil)
			return model.Val{K: model.KLink}
		}
		var s1, s2 string
		r.call(path, "Link.Binary", func() { s1, s2 = a.Binary(), b.Binary() })
		if s1 != s2 {
			r.issue(path, "double-read", "AsLink %x then %x", s1, s2)
		}
		return model.Val{K: model.KLink, S: s1}
	case datamodel.Kind_List:
		return r.readList(n, path, length)
	case datamodel.Kind_Map:
		return r.readMap(n, path, length)
	}
	r.issue(path, "invalid-kind", "Kind() = %v", kind)
	return model.Val{K: model.KAbsent}
}

func (r *reader) readBytes(n datamodel.Node, path string) model.Val {
	var a, b []byte
	var e1, e2 error
	r.call(path, "AsBytes", func() { a, e1 = n.AsBytes(); b, e2 = n.AsBytes() })
	if e1 != nil || e2 != nil {
		r.issue(path, "accessor-error", "AsBytes on bytes node: %v / %v", e1, e2)
	}
	if !bytes.Equal(a, b) {
		r.issue(path, "double-read", "AsBytes returned %d bytes then %d bytes (%x / %x)", len(a), len(b), clipb(a), clipb(b))
	}
	if lbn, ok := n.(datamodel.LargeBytesNode); ok && !r.opt.Light {
		var r1, r2 io.ReadSeeker
		var le1, le2 error
		r.call(path, "AsLargeBytes", func() { r1, le1 = lbn.AsLargeBytes(); r2, le2 = lbn.AsLargeBytes() })
		if le1 != nil || le2 != nil || r1 == nil || r2 == nil {
			r.issue(path, "accessor-error", "AsLargeBytes: %v / %v", le1, le2)
		} else {
			var c1, c2, c3 []byte
			r.call(path, "LargeBytes.Read", func() {
				// interleave reads of the two readers with different chunkings
				c1 = readChunks(r1, 1, r2, 7, &c2)
				r1.Seek(0, io.SeekStart)
				c3, _ = io.ReadAll(r1)
			})
			if !bytes.Equal(c1, a) || !bytes.Equal(c2, a) || !bytes.Equal(c3, a) {
				r.issue(path, "largebytes-vs-bytes", "AsBytes=%d bytes; reader1=%d reader2(interleaved)=%d reader1-after-seek=%d", len(a), len(c1), len(c2), len(c3))
			}
			// the reader is an io.ReadSeeker: the three whences mean what io.Seeker says, also relative to the
			// current position and to the end, also on the second reader while the first stands elsewhere
			if len(a) >= 4 {
				var pos1, pos2, pos3 int64
				var s1, s2, s3 []byte
				var e1, e2, e3 error
				r.call(path, "LargeBytes.Seek", func() {
					r1.Seek(1, io.SeekStart)
					one := make([]byte, 1)
					io.ReadFull(r1, one)
					pos1, e1 = r1.Seek(1, io.SeekCurrent) // now at 3
					s1, _ = io.ReadAll(r1)
					pos2, e2 = r2.Seek(-3, io.SeekEnd)
					s2, _ = io.ReadAll(r2)
					r1.Seek(2, io.SeekStart)
					pos3, e3 = r1.Seek(0, io.SeekCurrent)
					s3, _ = io.ReadAll(r1)
				})
				if e1 != nil || pos1 != 3 || !bytes.Equal(s1, a[3:]) {
					r.issue(path, "largebytes-seek", "Seek(1,Start); read 1; Seek(1,Current) = (%d, %v), then %d bytes follow; expected position 3 and %d bytes", pos1, e1, len(s1), len(a)-3)
				}
				if e2 != nil || pos2 != int64(len(a))-3 || !bytes.Equal(s2, a[len(a)-3:]) {
					r.issue(path, "largebytes-seek", "Seek(-3,End) = (%d, %v), then %d bytes follow; expected position %d and the last 3 bytes", pos2, e2, len(s2), len(a)-3)
				}
				if e3 != nil || pos3 != 2 || !bytes.Equal(s3, a[2:]) {
					r.issue(path, "largebytes-seek", "Seek(2,Start); Seek(0,Current) = (%d, %v), then %d bytes follow; expected position 2 and %d bytes", pos3, e3, len(s3), len(a)-2)
				}
			}
			// after the readers were consumed the plain accessor must still agree
			var c []byte
			r.call(path, "AsBytes", func() { c, _ = n.AsBytes() })
			if !bytes.Equal(c, a) {
				r.issue(path, "double-read", "AsBytes after large-bytes readers: %d bytes, before: %d", len(c), len(a))
			}
		}
	}
	return model.Bytes(append([]byte(nil), a...))
}

func readChunks(r1 io.Reader, n1 int, r2 io.Reader, n2 int, out2 *[]byte) []byte {
	var o1, o2 []byte
	b1, b2 := make([]byte, n1), make([]byte, n2)
	d1, d2 := false, false
	for guard := 0; (!d1 || !d2) && guard < 1<<22; guard++ {
		if !d1 {
			k, err := r1.Read(b1)
			o1 = append(o1, b1[:k]...)
			if err != nil {
				d1 = true
			}
		}
		if !d2 {
			k, err := r2.Read(b2)
			o2 = append(o2, b2[:k]...)
			if err != nil {
				d2 = true
			}
		}
	}
	*out2 = o2
	return o1
}

func clipb(b []byte) []byte {
	if len(b) > 24 {
		return b[:24]
	}
	return b
}

func (r *reader) readList(n datamodel.Node, path string, length int64) model.Val {
	out := model.Val{K: model.KList, L: []model.Val{}}
	var it datamodel.ListIterator
	r.call(path, "ListIterator", func() { it = n.ListIterator() })
	if it == nil {
		r.issue(path, "nil-iterator", "ListIterator() is nil on a list")
		return out
	}
	var nodes []datamodel.Node
	for guard := int64(0); ; guard++ {
		var done bool
		if !r.call(path, "ListIterator.Done", func() { done = it.Done() }) || done {
			break
		}
		if guard > length+4 && guard > 1<<20 {
			r.issue(path, "iter-runaway", "list iterator not done after %d entries (Length=%d)", guard, length)
			break
		}
		var idx int64
		var v datamodel.Node
		var err error
		if !r.call(path, "ListIterator.Next", func() { idx, v, err = it.Next() }) {
			break
		}
		if err != nil {
			r.issue(path, "iter-error", "ListIterator.Next: %v", err)
			break
		}
		if idx != int64(len(nodes)) {
			r.issue(path, "iter-index", "list iterator returned index %d at position %d", idx, len(nodes))
		}
		nodes = append(nodes, v)
	}
	if !r.opt.Light {
		var err error
		var v datamodel.Node
		r.call(path, "ListIterator.Next(past end)", func() { _, v, err = it.Next() })
		if err == nil {
			r.issue(path, "iter-past-end", "ListIterator.Next past the end returned no error (value nil=%v)", v == nil)
		}
	}
	if int64(len(nodes)) != length {
		r.issue(path, "length-vs-iter", "Length()=%d but the iterator yielded %d entries", length, len(nodes))
	}
	for i, c := range nodes {
		cp := path + "/" + strconv.Itoa(i)
		cv := r.read(c, cp)
		out.L = append(out.L, cv)
		if r.opt.Light {
			continue
		}
		// every lookup form must find the same child
		r.sameChild(cp, "LookupByIndex", cv, func() (datamodel.Node, error) { return n.LookupByIndex(int64(i)) })
		r.sameChild(cp, "LookupBySegment(int)", cv, func() (datamodel.Node, error) { return n.LookupBySegment(datamodel.PathSegmentOfInt(int64(i))) })
		r.sameChild(cp, "LookupBySegment(string)", cv, func() (datamodel.Node, error) {
			return n.LookupBySegment(datamodel.PathSegmentOfString(strconv.Itoa(i)))
		})
		// LookupByNode is documented as the node-keyed form of LookupByString
		// (maps); on a list an implementation may refuse it, but if it answers
		// the answer must be the same child.
		r.sameChildIfAnswered(cp, "LookupByNode(int)", cv, func() (datamodel.Node, error) { return n.LookupByNode(basicnode.NewInt(int64(i))) })
	}
	if !r.opt.Light {
		for _, bad := range []int64{-1, int64(len(nodes)), int64(len(nodes)) + 7, math.MaxInt64, math.MinInt64} {
			r.mustMiss(path, fmt.Sprintf("LookupByIndex(%d)", bad), func() (datamodel.Node, error) { return n.LookupByIndex(bad) })
		}
		r.mustMiss(path, "LookupBySegment(\"x\")", func() (datamodel.Node, error) {
			return n.LookupBySegment(datamodel.PathSegmentOfString("x"))
		})
		// a key node that cannot name an element: an error, never (nil, nil)
		r.mustMiss(path, "LookupByNode(string \"x\") on list", func() (datamodel.Node, error) { return n.LookupByNode(basicnode.NewString("x")) })
		r.mustMiss(path, "LookupByNode(null) on list", func() (datamodel.Node, error) { return n.LookupByNode(datamodel.Null) })
		if !r.opt.NoWrongKindProbes {
			r.mustMiss(path, "LookupByString on list", func() (datamodel.Node, error) { return n.LookupByString("0") })
			var mi datamodel.MapIterator
			r.call(path, "MapIterator on list", func() { mi = n.MapIterator() })
			if mi != nil {
				r.issue(path, "wrong-iterator", "MapIterator() on a list is not nil")
			}
		}
	}
	return out
}

func (r *reader) readMap(n datamodel.Node, path string, length int64) model.Val {
	out := model.Val{K: model.KMap, M: []model.Entry{}}
	var it datamodel.MapIterator
	r.call(path, "MapIterator", func() { it = n.MapIterator() })
	if it == nil {
		r.issue(path, "nil-iterator", "MapIterator() is nil on a map")
		return out
	}
	type kv struct {
		k  string
		kn datamodel.Node
		v  datamodel.Node
	}
	var ents []kv
	for guard := int64(0); ; guard++ {
		var done bool
		if !r.call(path, "MapIterator.Done", func() { done = it.Done() }) || done {
			break
		}
		if guard > length+4 && guard > 1<<20 {
			r.issue(path, "iter-runaway", "map iterator not done after %d entries (Length=%d)", guard, length)
			break
		}
		var k, v datamodel.Node
		var err error
		if !r.call(path, "MapIterator.Next", func() { k, v, err = it.Next() }) {
			break
		}
		if err != nil {
			r.issue(path, "iter-error", "MapIterator.Next: %v", err)
			break
		}
		if k == nil {
			r.issue(path, "nil-key", "MapIterator.Next returned a nil key")
			break
		}
		var ks string
		var kerr error
		r.call(path, "key.AsString", func() { ks, kerr = k.AsString() })
		if kerr != nil {
			// typed maps with complex keys: the key node is a struct; use its representation
			ks = r.complexKey(k, path)
		}
		ents = append(ents, kv{ks, k, v})
	}
	if !r.opt.Light {
		var err error
		r.call(path, "MapIterator.Next(past end)", func() { _, _, err = it.Next() })
		if err == nil {
			r.issue(path, "iter-past-end", "MapIterator.Next past the end returned no error")
		}
	}
	if int64(len(ents)) != length {
		r.issue(path, "length-vs-iter", "Length()=%d but the iterator yielded %d entries", length, len(ents))
	}
	// key nodes handed out earlier must still read the same after the iterator moved on
	for _, e := range ents {
		var ks string
		var kerr error
		r.call(path, "key.AsString(re-read)", func() { ks, kerr = e.kn.AsString() })
		if kerr == nil && ks != e.k {
			r.issue(path, "key-node-changed", "a key node read %q when the iterator returned it and %q after the iteration went on", e.k, ks)
			break
		}
	}
	seen := map[string]bool{}
	for _, e := range ents {
		cp := path + "/" + e.k
		if seen[e.k] {
			r.issue(cp, "iter-duplicate-key", "the iterator yielded key %q twice", e.k)
		}
		cv := r.read(e.v, cp)
		out.M = append(out.M, model.Entry{K: e.k, V: cv})
		if r.opt.Light || seen[e.k] {
			seen[e.k] = true
			continue
		}
		seen[e.k] = true
		r.sameChild(cp, "LookupByString", cv, func() (datamodel.Node, error) { return n.LookupByString(e.k) })
		r.sameChild(cp, "LookupBySegment", cv, func() (datamodel.Node, error) {
			return n.LookupBySegment(datamodel.PathSegmentOfString(e.k))
		})
		if r.opt.Typed {
			// typed maps may insist on key nodes of their own key type (an error, never a panic)
			r.sameChildIfAnswered(cp, "LookupByNode(foreign key)", cv, func() (datamodel.Node, error) { return n.LookupByNode(foreignString(e.k)) })
		} else {
			r.sameChild(cp, "LookupByNode(foreign key)", cv, func() (datamodel.Node, error) { return n.LookupByNode(foreignString(e.k)) })
		}
		r.sameChild(cp, "LookupByNode(own key)", cv, func() (datamodel.Node, error) { return n.LookupByNode(e.kn) })
	}
	if !r.opt.Light {
		missing := "\x00verif-no-such-key"
		for seen[missing] {
			missing += "x"
		}
		r.mustMiss(path, "LookupByString(missing)", func() (datamodel.Node, error) { return n.LookupByString(missing) })
		r.mustMiss(path, "LookupByNode(missing)", func() (datamodel.Node, error) { return n.LookupByNode(basicnode.NewString(missing)) })
		r.mustMiss(path, "LookupBySegment(missing)", func() (datamodel.Node, error) {
			return n.LookupBySegment(datamodel.PathSegmentOfString(missing))
		})
		if !r.opt.Typed {
			r.mustMiss(path, "LookupByIndex on map", func() (datamodel.Node, error) { return n.LookupByIndex(0) })
		}
		if !r.opt.NoWrongKindProbes {
			var li datamodel.ListIterator
			r.call(path, "ListIterator on map", func() { li = n.ListIterator() })
			if li != nil {
				r.issue(path, "wrong-iterator", "ListIterator() on a map is not nil")
			}
		}
	}
	return out
}

func (r *reader) complexKey(k datamodel.Node, path string) string {
	type reprer interface{ Representation() datamodel.Node }
	if tn, ok := k.(reprer); ok {
		var s string
		var err error
		r.call(path, "key.Representation.AsString", func() { s, err = tn.Representation().AsString() })
		if err == nil {
			return s
		}
	}
	r.issue(path, "bad-key", "map key node is not a string and has no string representation (kind %v)", k.Kind())
	return ""
}

// sameChild checks that a lookup returns a node reading out like the iterated child.
func (r *reader) sameChild(path, what string, want model.Val, f func() (datamodel.Node, error)) {
	var got datamodel.Node
	var err error
	if !r.call(path, what, func() { got, err = f() }) {
		return
	}
	if err != nil {
		r.issue(path, "lookup-vs-iter", "%s failed for an entry the iterator yielded: %v", what, err)
		return
	}
	sub := &reader{opt: Options{Light: true, Typed: r.opt.Typed, NoWrongKindProbes: r.opt.NoWrongKindProbes, MaxIssues: 2}}
	gv := sub.read(got, path)
	r.Events += sub.Events
	if !model.Equal(gv, want) {
		r.issue(path, "lookup-vs-iter", "%s returned %s but iteration yielded %s", what, gv.Dump(), want.Dump())
	}
}

func (r *reader) sameChildIfAnswered(path, what string, want model.Val, f func() (datamodel.Node, error)) {
	var got datamodel.Node
	var err error
	if !r.call(path, what, func() { got, err = f() }) || err != nil {
		return
	}
	r.sameChild(path, what, want, func() (datamodel.Node, error) { return got, nil })
}

// mustMiss checks that a lookup of something that is not there is an error, not a panic or a node.
func (r *reader) mustMiss(path, what string, f func() (datamodel.Node, error)) {
	var got datamodel.Node
	var err error
	if !r.call(path, what, func() { got, err = f() }) {
		return
	}
	if err == nil {
		if r.opt.Typed && got != nil && got.IsAbsent() {
			return // typed views answer "not there" with the Absent node
		}
		r.issue(path, "lookup-miss-no-error", "%s returned no error (node nil=%v)", what, got == nil)
	}
}

func (r *reader) probeWrongKind(n datamodel.Node, kind datamodel.Kind, path string) {
	check := func(what string, appropriate bool, f func() error) {
		if appropriate {
			return
		}
		var err error
		if !r.call(path, what+" (wrong kind)", func() { err = f() }) {
			return
		}
		if err == nil {
			r.issue(path, "wrongkind-no-error", "%s on a %v node returned no error", what, kind)
		} else if r.opt.StrictWrongKind && !isWrongKind(err) {
			r.issue(path, "wrongkind-other-error", "%s on a %v node returned %T: %v", what, kind, err, err)
		}
	}
	check("AsBool", kind == datamodel.Kind_Bool, func() error { _, e := n.AsBool(); return e })
	check("AsInt", kind == datamodel.Kind_Int, func() error { _, e := n.AsInt(); return e })
	check("AsFloat", kind == datamodel.Kind_Float, func() error { _, e := n.AsFloat(); return e })
	check("AsString", kind == datamodel.Kind_String, func() error { _, e := n.AsString(); return e })
	check("AsBytes", kind == datamodel.Kind_Bytes, func() error { _, e := n.AsBytes(); return e })
	check("AsLink", kind == datamodel.Kind_Link, func() error { _, e := n.AsLink(); return e })
	rec := kind == datamodel.Kind_Map || kind == datamodel.Kind_List
	check("LookupByString", rec, func() error { _, e := n.LookupByString("x"); return e })
	check("LookupByIndex", rec, func() error { _, e := n.LookupByIndex(0); return e })
	check("LookupByNode", rec, func() error { _, e := n.LookupByNode(basicnode.NewString("x")); return e })
	check("LookupBySegment", rec, func() error { _, e := n.LookupBySegment(datamodel.PathSegmentOfString("x")); return e })
	if !rec {
		var mi datamodel.MapIterator
		var li datamodel.ListIterator
		var l int64
		r.call(path, "iterators (wrong kind)", func() { mi = n.MapIterator(); li = n.ListIterator(); l = n.Length() })
		if mi != nil || li != nil {
			r.issue(path, "wrong-iterator", "iterator on a %v node is not nil", kind)
		}
		if l != -1 {
			r.issue(path, "wrong-length", "Length() on a %v node is %d, not -1", kind, l)
		}
	}
}

// foreignString is a minimal harness-owned string node used as a lookup key.
type foreignStr struct {
	datamodel.Node
	s string
}

func foreignString(s string) datamodel.Node { return foreignStr{basicnode.NewString(s), s} }

// FirstIssue formats the first issue, or "".
func (res Result) FirstIssue() string {
	if len(res.Issues) == 0 {
		return ""
	}
	return res.Issues[0].String()
}
