// Package build materialises a model.Val as a node through the builder API,
// following a randomly drawn but legal "build program": which assembler call
// form is used for each entry, scalar and subtree, and which size hints are given.
package build

import (
	"fmt"
	"strings"

	"github.com/ipld/go-ipld-prime/datamodel"
	"github.com/ipld/go-ipld-prime/node/basicnode"

	"verif/lib/fnode"
	"verif/lib/fw"
	"verif/lib/model"
)

// Prog draws the choices of a build program and records them.
type Prog struct {
	R     *fw.RNG
	Trace strings.Builder
	// Plain forces the most direct call forms (AssembleEntry + Assign<Kind>).
	Plain bool
	// NoWholeSubtree disables AssignNode of whole containers.
	NoWholeSubtree bool
	// NoForeignRetention: do not hand foreign (harness-owned) nodes to AssignNode
	// of containers that would retain them (used where the check wants to know
	// that the library copied).
	Steps int
}

func (p *Prog) pick(n int, what string) int {
	if p.Plain || p.R == nil {
		return 0
	}
	c := p.R.Intn(n)
	if p.Trace.Len() < 2000 {
		fmt.Fprintf(&p.Trace, "%s%d ", what, c)
	}
	return c
}

func hint(p *Prog, n int) int64 {
	switch p.pick(6, "h") {
	case 0:
		return int64(n)
	case 1:
		return -1
	case 2:
		return 0
	case 3:
		if n > 0 {
			return int64(n - 1)
		}
		return 0
	case 4:
		return int64(n + 3)
	default:
		return 1024
	}
}

// Source returns a finished node holding v from one of the "other"
// implementations: 0 = basicnode (built plainly), 1 = harness-owned fnode.
func Source(v model.Val, impl int) datamodel.Node {
	if impl == 1 || v.K == model.KUint && impl != 0 {
		return fnode.New(v)
	}
	n, err := Plain(basicnode.Prototype.Any, v)
	if err != nil {
		panic(fmt.Sprintf("build.Source: %v", err))
	}
	return n
}

// Plain builds v into proto in the most direct way.
func Plain(proto datamodel.NodePrototype, v model.Val) (datamodel.Node, error) {
	nb := proto.NewBuilder()
	if err := Assemble(nb, v, &Prog{Plain: true}); err != nil {
		return nil, err
	}
	return nb.Build(), nil
}

// With builds v into proto following a program drawn from p.
func With(proto datamodel.NodePrototype, v model.Val, p *Prog) (datamodel.Node, error) {
	nb := proto.NewBuilder()
	if err := Assemble(nb, v, p); err != nil {
		return nil, err
	}
	return nb.Build(), nil
}

// Assemble feeds v into na.
func Assemble(na datamodel.NodeAssembler, v model.Val, p *Prog) error {
	p.Steps++
	switch v.K {
	case model.KList, model.KMap:
		if !p.NoWholeSubtree {
			switch p.pick(8, "w") {
			case 1:
				return na.AssignNode(Source(v, 0))
			case 2:
				return na.AssignNode(Source(v, 1))
			}
		}
	}
	switch v.K {
	case model.KNull:
		if p.pick(3, "s") == 1 {
			return na.AssignNode(datamodel.Null)
		}
		return na.AssignNull()
	case model.KBool:
		switch p.pick(4, "s") {
		case 1:
			return na.AssignNode(basicnode.NewBool(v.B))
		case 2:
			return na.AssignNode(fnode.New(v))
		}
		return na.AssignBool(v.B)
	case model.KInt:
		switch p.pick(5, "s") {
		case 1:
			return na.AssignNode(basicnode.NewInt(v.I))
		case 2:
			return na.AssignNode(fnode.New(v))
		case 3:
			if v.I >= 0 {
				return na.AssignNode(basicnode.NewUint(uint64(v.I)))
			}
		}
		return na.AssignInt(v.I)
	case model.KUint:
		if p.pick(2, "s") == 1 {
			return na.AssignNode(fnode.New(v))
		}
		return na.AssignNode(basicnode.NewUint(v.U))
	case model.KFloat:
		switch p.pick(4, "s") {
		case 1:
			return na.AssignNode(basicnode.NewFloat(v.F))
		case 2:
			return na.AssignNode(fnode.New(v))
		}
		return na.AssignFloat(v.F)
	case model.KString:
		switch p.pick(4, "s") {
		case 1:
			return na.AssignNode(basicnode.NewString(v.S))
		case 2:
			return na.AssignNode(fnode.New(v))
		}
		return na.AssignString(v.S)
	case model.KBytes:
		switch p.pick(4, "s") {
		case 1:
			return na.AssignNode(basicnode.NewBytes([]byte(v.S)))
		case 2:
			return na.AssignNode(fnode.New(v))
		}
		return na.AssignBytes([]byte(v.S))
	case model.KLink:
		switch p.pick(4, "s") {
		case 1:
			return na.AssignNode(basicnode.NewLink(fnode.LinkOf(v.S)))
		case 2:
			return na.AssignNode(fnode.New(v))
		}
		return na.AssignLink(fnode.LinkOf(v.S))
	case model.KList:
		la, err := na.BeginList(hint(p, len(v.L)))
		if err != nil {
			return err
		}
		for _, x := range v.L {
			if err := Assemble(la.AssembleValue(), x, p); err != nil {
				return err
			}
		}
		return la.Finish()
	case model.KMap:
		ma, err := na.BeginMap(hint(p, len(v.M)))
		if err != nil {
			return err
		}
		for _, e := range v.M {
			var va datamodel.NodeAssembler
			switch p.pick(4, "k") {
			case 1:
				if err := ma.AssembleKey().AssignString(e.K); err != nil {
					return err
				}
				va = ma.AssembleValue()
			case 2:
				if err := ma.AssembleKey().AssignNode(fnode.New(model.String(e.K))); err != nil {
					return err
				}
				va = ma.AssembleValue()
			case 3:
				if err := ma.AssembleKey().AssignNode(basicnode.NewString(e.K)); err != nil {
					return err
				}
				va = ma.AssembleValue()
			default:
				va, err = ma.AssembleEntry(e.K)
				if err != nil {
					return err
				}
			}
			if err := Assemble(va, e.V, p); err != nil {
				return err
			}
		}
		return ma.Finish()
	}
	return fmt.Errorf("build: cannot assemble kind %v", v.K)
}
