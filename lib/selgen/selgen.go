// Package selgen holds the selector AST used by the traversal properties, its
// translation to the selector specification tree (a plain data-model value),
// and generators (well-formed and hostile).
package selgen

import (
	"fmt"
	"math"
	"strings"

	"verif/lib/fw"
	"verif/lib/model"
)

type Field struct {
	Key string
	Sel *Sel
}

// Sel is a selector AST node.
type Sel struct {
	Kind    string // match | subset | all | fields | index | range | union | rec | edge
	From    int64  // subset from / range start
	To      int64  // subset to / range end
	Index   int64
	Next    *Sel
	Fields  []Field
	Members []*Sel
	Limit   int64 // rec: -1 = none, else depth
	Seq     *Sel
	StopAt  string // rec: binary CID of the stop-at link condition ("" = none)
}

func m(es ...model.Entry) model.Val { return model.Map(es...) }

// Spec renders the selector as its specification tree.
func (s *Sel) Spec() model.Val {
	switch s.Kind {
	case "match":
		return m(model.E(".", m()))
	case "subset":
		return m(model.E(".", m(model.E("subset", m(model.E("[", model.Int(s.From)), model.E("]", model.Int(s.To)))))))
	case "all":
		return m(model.E("a", m(model.E(">", s.Next.Spec()))))
	case "fields":
		es := make([]model.Entry, len(s.Fields))
		for i, f := range s.Fields {
			es[i] = model.E(f.Key, f.Sel.Spec())
		}
		return m(model.E("f", m(model.E("f>", model.Val{K: model.KMap, M: es}))))
	case "index":
		return m(model.E("i", m(model.E("i", model.Int(s.Index)), model.E(">", s.Next.Spec()))))
	case "range":
		return m(model.E("r", m(model.E("^", model.Int(s.From)), model.E("$", model.Int(s.To)), model.E(">", s.Next.Spec()))))
	case "union":
		xs := make([]model.Val, len(s.Members))
		for i, x := range s.Members {
			xs[i] = x.Spec()
		}
		return m(model.E("|", model.Val{K: model.KList, L: xs}))
	case "rec":
		lim := m(model.E("none", m()))
		if s.Limit >= 0 || s.Limit < -1 {
			lim = m(model.E("depth", model.Int(s.Limit)))
		}
		es := []model.Entry{model.E("l", lim), model.E(":>", s.Seq.Spec())}
		if s.StopAt != "" {
			es = append(es, model.E("!", m(model.E("/", model.Link([]byte(s.StopAt))))))
		}
		return m(model.E("R", model.Val{K: model.KMap, M: es}))
	case "edge":
		return m(model.E("@", m()))
	}
	panic("selgen: unknown kind " + s.Kind)
}

// String renders a compact human form.
func (s *Sel) String() string {
	switch s.Kind {
	case "match":
		return "."
	case "subset":
		return fmt.Sprintf(".[%d:%d]", s.From, s.To)
	case "all":
		return "a{" + s.Next.String() + "}"
	case "fields":
		var parts []string
		for _, f := range s.Fields {
			parts = append(parts, fmt.Sprintf("%q:%s", f.Key, f.Sel.String()))
		}
		return "f{" + strings.Join(parts, ",") + "}"
	case "index":
		return fmt.Sprintf("i%d{%s}", s.Index, s.Next.String())
	case "range":
		return fmt.Sprintf("r%d:%d{%s}", s.From, s.To, s.Next.String())
	case "union":
		var parts []string
		for _, x := range s.Members {
			parts = append(parts, x.String())
		}
		return "|[" + strings.Join(parts, ",") + "]"
	case "rec":
		l := "none"
		if s.Limit != -1 {
			l = fmt.Sprint(s.Limit)
		}
		st := ""
		if s.StopAt != "" {
			st = fmt.Sprintf(" !%x", s.StopAt[len(s.StopAt)-min(4, len(s.StopAt)):])
		}
		return fmt.Sprintf("R(%s%s){%s}", l, st, s.Seq.String())
	case "edge":
		return "@"
	}
	return "?"
}

// Opts steer generation.
type Opts struct {
	MaxDepth int
	Keys     []string // field names to draw from (the graph's own keys plus misses)
	MaxIndex int
	Links    []string // candidate stop-at links (binary CIDs)
	// NoSubset leaves out subset matchers (C14/C15 start-at relation).
	NoSubset bool
	// NoOverlap avoids unions whose members have overlapping explicit interests
	// (fields/index/range naming the same child twice).
	NoOverlap bool
	// Hostile: extreme integers, degenerate recursion (edges directly inside the
	// sequence or its unions, nested recursion) — for C10 only.
	Hostile bool
}

var extremeInts = []int64{0, 1, -1, 2, -2, 1<<31 - 1, 1 << 31, -(1 << 31), 1<<32 + 1, math.MaxInt64, math.MaxInt64 - 1, math.MinInt64, math.MinInt64 + 1, 1 << 40, -(1 << 40), 1 << 62}

func (o Opts) intval(r *fw.RNG, small int) int64 {
	if o.Hostile && r.Chance(1, 2) {
		return extremeInts[r.Intn(len(extremeInts))]
	}
	return int64(r.Intn(small + 1))
}

func (o Opts) key(r *fw.RNG) string {
	if len(o.Keys) == 0 || r.Chance(1, 8) {
		return []string{"nokey", "0", "1", "-1", "", "a/b"}[r.Intn(6)]
	}
	return o.Keys[r.Intn(len(o.Keys))]
}

// Gen draws a selector. inRec says whether an edge is legal here.
func Gen(r *fw.RNG, o Opts) *Sel { return gen(r, o, 0, false) }

func gen(r *fw.RNG, o Opts, depth int, inRec bool) *Sel {
	if depth >= o.MaxDepth {
		if inRec && r.Chance(2, 3) {
			return &Sel{Kind: "edge"}
		}
		return genMatcher(r, o)
	}
	for {
		switch r.Intn(12) {
		case 0:
			return genMatcher(r, o)
		case 1, 2:
			return &Sel{Kind: "all", Next: gen(r, o, depth+1, inRec)}
		case 3, 4:
			n := 1 + r.Intn(3)
			seen := map[string]bool{}
			var fs []Field
			for i := 0; i < n; i++ {
				k := o.key(r)
				if seen[k] {
					continue
				}
				seen[k] = true
				fs = append(fs, Field{k, gen(r, o, depth+1, inRec)})
			}
			return &Sel{Kind: "fields", Fields: fs}
		case 5:
			return &Sel{Kind: "index", Index: o.intval(r, o.MaxIndex), Next: gen(r, o, depth+1, inRec)}
		case 6:
			from := o.intval(r, o.MaxIndex)
			to := from + 1 + int64(r.Intn(3))
			if o.Hostile && r.Chance(1, 2) {
				to = o.intval(r, o.MaxIndex)
			}
			return &Sel{Kind: "range", From: from, To: to, Next: gen(r, o, depth+1, inRec)}
		case 7, 8:
			if o.Hostile && inRec && r.Chance(1, 4) {
				// degenerate unions: a single member, or nothing but edges
				switch r.Intn(3) {
				case 0:
					return &Sel{Kind: "union", Members: []*Sel{{Kind: "edge"}}}
				case 1:
					return &Sel{Kind: "union", Members: []*Sel{{Kind: "edge"}, {Kind: "edge"}}}
				default:
					return &Sel{Kind: "union", Members: []*Sel{gen(r, o, depth+1, inRec)}}
				}
			}
			n := 2 + r.Intn(2)
			ms := make([]*Sel, 0, n)
			for i := 0; i < n; i++ {
				ms = append(ms, gen(r, o, depth+1, inRec))
			}
			u := &Sel{Kind: "union", Members: ms}
			if o.NoOverlap && overlaps(u) {
				continue
			}
			return u
		case 9, 10:
			if inRec && !o.Hostile {
				continue // nested recursion only in hostile mode
			}
			lim := int64(-1)
			if r.Bool() {
				lim = o.intval(r, 5)
				if !o.Hostile && lim < 0 {
					lim = 0
				}
			}
			seq := genSeq(r, o, depth+1)
			s := &Sel{Kind: "rec", Limit: lim, Seq: seq}
			if len(o.Links) > 0 && r.Chance(1, 3) {
				s.StopAt = o.Links[r.Intn(len(o.Links))]
				// one stop-at link in four is a LOOK-ALIKE of a link of the graph: the same multihash under
				// another codec or as CIDv0 — a different link, which stops nothing (round-4 seed C07-11: the
				// condition comparing multihashes instead of CIDs)
				if b := []byte(s.StopAt); r.Chance(1, 4) && len(b) > 4 && b[0] == 1 && (b[1] == 0x71 || b[1] == 0x55) {
					switch r.Intn(3) {
					case 0:
						b[1] ^= 0x71 ^ 0x55
						s.StopAt = string(b)
					case 1:
						b[1] = 0x51
						s.StopAt = string(b)
					default:
						if b[2] == 0x12 && b[3] == 0x20 {
							s.StopAt = string(b[2:]) // CIDv0
						}
					}
				}
			}
			return s
		case 11:
			if inRec {
				if !o.Hostile && depth == 0 {
					continue
				}
				return &Sel{Kind: "edge"}
			}
		}
	}
}

// genSeq draws a recursion sequence that contains at least one edge; outside
// hostile mode the edge is never at the top of the sequence nor a direct
// member of a top-level union (that would recurse without consuming a path
// segment, which is the degenerate shape C10 exercises instead).
func genSeq(r *fw.RNG, o Opts, depth int) *Sel {
	twoEdges := o.Hostile || r.Chance(1, 4)
	for tries := 0; ; tries++ {
		s := gen(r, o, depth, true)
		if !hasEdge(s) {
			if tries > 20 {
				return &Sel{Kind: "union", Members: []*Sel{{Kind: "match"}, {Kind: "all", Next: &Sel{Kind: "edge"}}}}
			}
			continue
		}
		if !o.Hostile && bareEdge(s) {
			continue
		}
		// Every edge multiplies the selector at each recursion level (the edge is replaced by
		// the whole sequence, and several live edges give unions of unions): the walk's cost is
		// (number of edges)^depth. Ordinary selectors have one edge; hostile ones at most two.
		maxEdges := 1
		if twoEdges {
			// (two edges also in ordinary selectors now and then: since the substitute-once repair of §4 two
			// edges no longer multiply the selector when they meet in one union)
			maxEdges = 2
		}
		if countEdges(s) > maxEdges {
			if tries > 200 {
				return &Sel{Kind: "union", Members: []*Sel{{Kind: "match"}, {Kind: "all", Next: &Sel{Kind: "edge"}}}}
			}
			continue
		}
		return s
	}
}

func hasEdge(s *Sel) bool {
	switch s.Kind {
	case "edge":
		return true
	case "all", "index", "range":
		return hasEdge(s.Next)
	case "fields":
		for _, f := range s.Fields {
			if hasEdge(f.Sel) {
				return true
			}
		}
	case "union":
		for _, x := range s.Members {
			if hasEdge(x) {
				return true
			}
		}
	}
	return false // edges inside a nested "rec" belong to that one
}

// bareEdge: an edge reachable from s without descending through an exploring clause.
func bareEdge(s *Sel) bool {
	switch s.Kind {
	case "edge":
		return true
	case "union":
		for _, x := range s.Members {
			if bareEdge(x) {
				return true
			}
		}
	}
	return false
}

func genMatcher(r *fw.RNG, o Opts) *Sel {
	if !o.NoSubset && r.Chance(1, 3) {
		from := o.intval(r, 4)
		to := from + int64(r.Intn(6))
		if r.Chance(1, 4) {
			to = -1 - int64(r.Intn(3))
		}
		if o.Hostile && r.Bool() {
			to = o.intval(r, 4)
		}
		if !o.Hostile && r.Chance(1, 5) {
			from = -int64(r.Intn(5))
			to = from + int64(r.Intn(6))
			if to >= 0 {
				to = -1
			}
			if from > to {
				from = to
			}
		}
		return &Sel{Kind: "subset", From: from, To: to}
	}
	return &Sel{Kind: "match"}
}

// interests returns the explicit child names a selector asks for at its top
// level (nil = all children / none explicit).
func interests(s *Sel) []string {
	switch s.Kind {
	case "fields":
		var out []string
		for _, f := range s.Fields {
			out = append(out, f.Key)
		}
		return out
	case "index":
		return []string{fmt.Sprint(s.Index)}
	case "range":
		var out []string
		for i := s.From; i < s.To && i < s.From+64; i++ {
			out = append(out, fmt.Sprint(i))
		}
		return out
	case "union":
		var out []string
		for _, x := range s.Members {
			out = append(out, interests(x)...)
		}
		return out
	case "rec":
		return interests(s.Seq)
	}
	return nil
}

func overlaps(u *Sel) bool {
	seen := map[string]bool{}
	for _, k := range interests(u) {
		if seen[k] {
			return true
		}
		seen[k] = true
	}
	return false
}

// HasOverlap reports whether any union in the selector (at any depth) names
// the same child through two members.
func HasOverlap(s *Sel) bool {
	switch s.Kind {
	case "union":
		if overlaps(s) {
			return true
		}
		for _, x := range s.Members {
			if HasOverlap(x) {
				return true
			}
		}
	case "all", "index", "range":
		return HasOverlap(s.Next)
	case "fields":
		for _, f := range s.Fields {
			if HasOverlap(f.Sel) {
				return true
			}
		}
	case "rec":
		return HasOverlap(s.Seq)
	}
	return false
}

func countEdges(s *Sel) int {
	switch s.Kind {
	case "edge":
		return 1
	case "all", "index", "range":
		return countEdges(s.Next)
	case "fields":
		n := 0
		for _, f := range s.Fields {
			n += countEdges(f.Sel)
		}
		return n
	case "union":
		n := 0
		for _, x := range s.Members {
			n += countEdges(x)
		}
		return n
	case "rec":
		return countEdges(s.Seq) // nested recursion (hostile only) multiplies as well
	}
	return 0
}
