package gobind

import (
	"fmt"
	"reflect"

	cid "github.com/ipfs/go-cid"
	"github.com/ipld/go-ipld-prime/datamodel"
	cidlink "github.com/ipld/go-ipld-prime/linking/cid"

	rs "verif/lib/ref/schema"
)

// ---- user-declared Go types with a hand-written schema (named scalars, widths, every pointer state)

type (
	Color  string // enum, string representation
	Level  int8   // enum, int representation, held as the number
	Mode   string // enum, int representation, held as the member name
	Small  int8
	Wide   uint64
	Name   string
	Blob   []byte
	Smalls []Small
	Pair   struct { // stringjoin, usable as a map key
		A Name
		B string
	}
	Rec struct {
		Small   Small
		Wide    Wide
		U8      uint8
		U16     uint16
		U32     uint32
		U       uint
		I16     int16
		I32     int32
		I       int
		F32     float32
		F64     float64
		Name    Name
		Blob    Blob
		Color   Color
		Level   Level
		Mode    Mode
		OptS    *Small
		NulW    *Wide
		Both    **int16
		OptList Smalls // nilable without a pointer: nil = absent
		NulBlob Blob   // nil = null
		Cid     cid.Cid
		OptLink *cidlink.Link
		NulLink datamodel.Link // nil = null
		Any     datamodel.Node
		OptAny  datamodel.Node // nil = absent
	}
	RecMap struct {
		Keys   []Name
		Values map[Name]*Rec // nullable values
	}
	PairMap struct {
		Keys   []Pair
		Values map[Pair]Smalls
	}
	Tuple struct {
		X int32
		Y uint16
		Z *float32 // optional, trailing
	}
	Choice struct { // keyed union
		Rec    *Rec
		Smalls *Smalls
		Name   *Name
		Tuple  *Tuple
	}
	Kinded struct { // kinded union
		Name   *Name
		Small  *Small
		Smalls *Smalls
		RecMap *RecMap
	}
	Top struct {
		Recs    []Rec
		ByName  RecMap
		ByPair  PairMap
		Choices []*Choice // nullable elements
		Kinded  []Kinded
		Tuple   Tuple
	}
)

// Declared returns the hand-written schema for the library above and the Go type of each named schema type.
func Declared() (*rs.TypeSystem, map[string]reflect.Type) {
	ts := &rs.TypeSystem{}
	for _, b := range []*rs.Type{
		{Name: "String", Kind: "string"}, {Name: "Int", Kind: "int"}, {Name: "Bool", Kind: "bool"},
		{Name: "Float", Kind: "float"}, {Name: "Bytes", Kind: "bytes"}, {Name: "Link", Kind: "link"}, {Name: "Any", Kind: "any"},
	} {
		ts.Add(b)
	}
	ts.Add(&rs.Type{Name: "Color", Kind: "enum", EnumRepr: "string", EnumMembers: []string{"Red", "Green", "Blue"},
		EnumStr: map[string]string{"Red": "r", "Green": "Green", "Blue": "b"}})
	ts.Add(&rs.Type{Name: "Level", Kind: "enum", EnumRepr: "int", EnumMembers: []string{"Low", "Mid", "High"},
		EnumInt: map[string]int64{"Low": -3, "Mid": 0, "High": 100}})
	ts.Add(&rs.Type{Name: "Mode", Kind: "enum", EnumRepr: "int", EnumMembers: []string{"Off", "On"},
		EnumInt: map[string]int64{"Off": 0, "On": 1}})
	ts.Add(&rs.Type{Name: "Small", Kind: "int"})
	ts.Add(&rs.Type{Name: "Wide", Kind: "int"})
	ts.Add(&rs.Type{Name: "Name", Kind: "string"})
	ts.Add(&rs.Type{Name: "Blob", Kind: "bytes"})
	ts.Add(&rs.Type{Name: "Smalls", Kind: "list", ValueType: "Small"})
	ts.Add(&rs.Type{Name: "Pair", Kind: "struct", StructRepr: "stringjoin", Delim: ":", Fields: []rs.Field{{Name: "A", Type: "Name"}, {Name: "B", Type: "String"}}})
	ts.Add(&rs.Type{Name: "Rec", Kind: "struct", StructRepr: "map", Renames: map[string]string{"U8": "u8", "Both": "b"}, Fields: []rs.Field{
		{Name: "Small", Type: "Small"}, {Name: "Wide", Type: "Wide"}, {Name: "U8", Type: "Int"}, {Name: "U16", Type: "Int"},
		{Name: "U32", Type: "Int"}, {Name: "U", Type: "Int"}, {Name: "I16", Type: "Int"}, {Name: "I32", Type: "Int"}, {Name: "I", Type: "Int"},
		{Name: "F32", Type: "Float"}, {Name: "F64", Type: "Float"}, {Name: "Name", Type: "Name"}, {Name: "Blob", Type: "Blob"},
		{Name: "Color", Type: "Color"}, {Name: "Level", Type: "Level"}, {Name: "Mode", Type: "Mode"},
		{Name: "OptS", Type: "Small", Optional: true}, {Name: "NulW", Type: "Wide", Nullable: true},
		{Name: "Both", Type: "Int", Optional: true, Nullable: true},
		{Name: "OptList", Type: "Smalls", Optional: true}, {Name: "NulBlob", Type: "Blob", Nullable: true},
		{Name: "Cid", Type: "Link"}, {Name: "OptLink", Type: "Link", Optional: true}, {Name: "NulLink", Type: "Link", Nullable: true},
		{Name: "Any", Type: "Any"}, {Name: "OptAny", Type: "Any", Optional: true},
	}})
	ts.Add(&rs.Type{Name: "RecMap", Kind: "map", KeyType: "Name", ValueType: "Rec", ValueNullable: true})
	ts.Add(&rs.Type{Name: "PairMap", Kind: "map", KeyType: "Pair", ValueType: "Smalls"})
	ts.Add(&rs.Type{Name: "Tuple", Kind: "struct", StructRepr: "tuple", Fields: []rs.Field{
		{Name: "X", Type: "Int"}, {Name: "Y", Type: "Int"}, {Name: "Z", Type: "Float", Optional: true}}})
	ts.Add(&rs.Type{Name: "Choice", Kind: "union", UnionRepr: "keyed", Members: []string{"Rec", "Smalls", "Name", "Tuple"},
		Discr: map[string]string{"Rec": "rec", "Smalls": "smalls", "Name": "name", "Tuple": "tuple"}})
	ts.Add(&rs.Type{Name: "Kinded", Kind: "union", UnionRepr: "kinded", Members: []string{"Name", "Small", "Smalls", "RecMap"}})
	ts.Add(&rs.Type{Name: "Recs", Kind: "list", ValueType: "Rec"})
	ts.Add(&rs.Type{Name: "Choices", Kind: "list", ValueType: "Choice", ValueNullable: true})
	ts.Add(&rs.Type{Name: "Kindeds", Kind: "list", ValueType: "Kinded"})
	ts.Add(&rs.Type{Name: "Top", Kind: "struct", StructRepr: "map", Fields: []rs.Field{
		{Name: "Recs", Type: "Recs"}, {Name: "ByName", Type: "RecMap"}, {Name: "ByPair", Type: "PairMap"},
		{Name: "Choices", Type: "Choices"}, {Name: "Kinded", Type: "Kindeds"}, {Name: "Tuple", Type: "Tuple"}}})
	goTypes := map[string]reflect.Type{
		"Color": reflect.TypeOf(Color("")), "Level": reflect.TypeOf(Level(0)), "Mode": reflect.TypeOf(Mode("")),
		"Small": reflect.TypeOf(Small(0)), "Wide": reflect.TypeOf(Wide(0)), "Name": reflect.TypeOf(Name("")),
		"Blob": reflect.TypeOf(Blob(nil)), "Smalls": reflect.TypeOf(Smalls(nil)), "Pair": reflect.TypeOf(Pair{}),
		"Rec": reflect.TypeOf(Rec{}), "RecMap": reflect.TypeOf(RecMap{}), "PairMap": reflect.TypeOf(PairMap{}),
		"Tuple": reflect.TypeOf(Tuple{}), "Choice": reflect.TypeOf(Choice{}), "Kinded": reflect.TypeOf(Kinded{}),
		"Top": reflect.TypeOf(Top{}),
	}
	return ts, goTypes
}

// ---- Go types whose schema bindnode infers (documented: bool, int64, float64, string, []byte, links, Node,
// named structs of those, slices of those)

type (
	Leaf struct {
		B bool
		I int64
		F float64
		S string
		Y []byte
	}
	Links struct {
		L datamodel.Link
		C cid.Cid
		K cidlink.Link
	}
	Lists struct {
		Is []int64
		Ss []string
		Ls []Leaf
		LL [][]int64
		Ys [][]byte
	}
	Nested struct {
		Leaf  Leaf
		Links Links
		Lists Lists
		Any   datamodel.Node
	}
	Shared1 struct{ Xs []int64 } // shares List_Int with Lists
	Shared2 struct {
		Xs   []int64
		Leaf Leaf // shares Leaf with Nested
		Ls   []Leaf
	}
	Strs      []string // a named slice
	WithNamed struct {
		S Strs
		T []string // the unnamed slice of the same element type
	}
)

// Inferable lists the Go types handed to bindnode without a schema.
func Inferable() []reflect.Type {
	return []reflect.Type{
		reflect.TypeOf(Leaf{}), reflect.TypeOf(Links{}), reflect.TypeOf(Lists{}), reflect.TypeOf(Nested{}),
		reflect.TypeOf(Shared1{}), reflect.TypeOf(Shared2{}), reflect.TypeOf(WithNamed{}), reflect.TypeOf(Strs{}),
		reflect.TypeOf([]int64{}), reflect.TypeOf([]Leaf{}), reflect.TypeOf([][]int64{}),
	}
}

// RefInfer is the schema the documented inference rules give for Go type g:
// the named types are added to ts, the schema type of g is returned.
func RefInfer(ts *rs.TypeSystem, g reflect.Type) (*rs.Type, error) {
	if ts.T("String") == nil {
		for _, b := range []*rs.Type{
			{Name: "String", Kind: "string"}, {Name: "Int", Kind: "int"}, {Name: "Bool", Kind: "bool"},
			{Name: "Float", Kind: "float"}, {Name: "Bytes", Kind: "bytes"}, {Name: "Link", Kind: "link"}, {Name: "Any", Kind: "any"},
		} {
			ts.Add(b)
		}
	}
	switch g {
	case TCid, TCidLink, TLink:
		return ts.T("Link"), nil
	case TNode:
		return ts.T("Any"), nil
	}
	switch g.Kind() {
	case reflect.Bool:
		return ts.T("Bool"), nil
	case reflect.Int64:
		return ts.T("Int"), nil
	case reflect.Float64:
		return ts.T("Float"), nil
	case reflect.String:
		return ts.T("String"), nil
	case reflect.Slice:
		if g.Elem().Kind() == reflect.Uint8 {
			return ts.T("Bytes"), nil
		}
		et, err := RefInfer(ts, g.Elem())
		if err != nil {
			return nil, err
		}
		name := g.Name()
		if name == "" {
			name = "List_" + et.Name
		}
		if t := ts.T(name); t != nil {
			return t, nil
		}
		t := &rs.Type{Name: name, Kind: "list", ValueType: et.Name}
		ts.Add(t)
		return t, nil
	case reflect.Struct:
		if g.Name() == "" {
			return nil, fmt.Errorf("anonymous struct")
		}
		if t := ts.T(g.Name()); t != nil {
			return t, nil
		}
		t := &rs.Type{Name: g.Name(), Kind: "struct", StructRepr: "map"}
		for i := 0; i < g.NumField(); i++ {
			ft, err := RefInfer(ts, g.Field(i).Type)
			if err != nil {
				return nil, err
			}
			t.Fields = append(t.Fields, rs.Field{Name: g.Field(i).Name, Type: ft.Name})
		}
		ts.Add(t)
		return t, nil
	}
	return nil, fmt.Errorf("not inferable: %s", g)
}
