// Package gobind is the reference side of C19: an independent reflection
// walk between Go values and typed abstract values (the type view defined in
// lib/ref/schema), following the shape vocabulary bindnode documents:
//
//	struct            Go struct, fields in schema order
//	optional/nullable *T; for struct fields also T itself when T's Go kind has a nil (slice, map, interface)
//	optional nullable **T
//	list              slice (nullable elements: *T or nilable T)
//	map               struct{Keys []K; Values map[K]V} (nullable values: *V or nilable V)
//	union             struct with one pointer field per member, exactly one set
//	int               any Go signed or unsigned integer kind
//	float             float32 / float64
//	link              datamodel.Link, cidlink.Link, cid.Cid
//	any               datamodel.Node
//	enum              string holding the member name (int representation: also an integer holding the number)
//
// It shares no code with bindnode. ToGo reports values that do not fit the Go
// type (ErrNoFit); FromGo is strict about Go states no assembled value can
// have (a union with two members set, Keys and Values out of step).
package gobind

import (
	"errors"
	"fmt"
	"math"
	"reflect"

	cid "github.com/ipfs/go-cid"
	"github.com/ipld/go-ipld-prime/datamodel"
	cidlink "github.com/ipld/go-ipld-prime/linking/cid"
	"github.com/ipld/go-ipld-prime/node/basicnode"

	"verif/lib/fw"
	"verif/lib/model"
	"verif/lib/obs"
	rs "verif/lib/ref/schema"
)

var (
	TLink    = reflect.TypeOf((*datamodel.Link)(nil)).Elem()
	TNode    = reflect.TypeOf((*datamodel.Node)(nil)).Elem()
	TCidLink = reflect.TypeOf(cidlink.Link{})
	TCid     = reflect.TypeOf(cid.Cid{})
	TBytes   = reflect.TypeOf([]byte(nil))
)

// ErrNoFit: the value is a perfectly good inhabitant of the schema type but the Go type cannot hold it.
type ErrNoFit struct {
	GoKind string
	What   string
}

func (e ErrNoFit) Error() string { return "does not fit " + e.GoKind + ": " + e.What }

var intKinds = []reflect.Kind{reflect.Int, reflect.Int8, reflect.Int16, reflect.Int32, reflect.Int64,
	reflect.Uint, reflect.Uint8, reflect.Uint16, reflect.Uint32, reflect.Uint64}

func isInt(k reflect.Kind) bool  { return k >= reflect.Int && k <= reflect.Int64 }
func isUint(k reflect.Kind) bool { return k >= reflect.Uint && k <= reflect.Uint64 }

func nilable(t reflect.Type) bool {
	switch t.Kind() {
	case reflect.Slice, reflect.Map, reflect.Interface:
		return true
	}
	return false
}

// Shape draws Go types for schema types.
type Shape struct {
	TS   *rs.TypeSystem
	R    *fw.RNG
	memo map[string]reflect.Type
	// Plain restricts to the shapes bindnode itself would infer (used as a control group).
	Plain bool
	// WideScalars keeps integers in int/int64 and floats in float64, so that every value of the schema type
	// fits the Go type (C08/C09 use the shapes without a Go-side notion of conformance).
	WideScalars bool
}

func NewShape(ts *rs.TypeSystem, r *fw.RNG) *Shape {
	return &Shape{TS: ts, R: r, memo: map[string]reflect.Type{}}
}

// maybe wraps ft for a position that can be null or absent (one nil state).
func (s *Shape) maybe(ft reflect.Type) reflect.Type {
	if nilable(ft) && !s.Plain && s.R.Bool() {
		return ft
	}
	return reflect.PointerTo(ft)
}

// GoType returns the Go type drawn for schema type t (composites are drawn once per shape).
func (s *Shape) GoType(t *rs.Type) reflect.Type {
	switch t.Kind {
	case "bool":
		return reflect.TypeOf(false)
	case "int":
		if s.Plain {
			return reflect.TypeOf(int(0))
		}
		if s.WideScalars {
			return kindType([]reflect.Kind{reflect.Int, reflect.Int64}[s.R.Intn(2)])
		}
		return kindType(intKinds[s.R.Intn(len(intKinds))])
	case "float":
		if !s.Plain && !s.WideScalars && s.R.Chance(1, 3) {
			return reflect.TypeOf(float32(0))
		}
		return reflect.TypeOf(float64(0))
	case "string":
		return reflect.TypeOf("")
	case "bytes":
		return TBytes
	case "link":
		if s.Plain {
			return TLink
		}
		return []reflect.Type{TLink, TCidLink, TCid}[s.R.Intn(3)]
	case "any":
		return TNode
	}
	if g, ok := s.memo[t.Name]; ok {
		return g
	}
	var g reflect.Type
	switch t.Kind {
	case "enum":
		g = reflect.TypeOf("")
		if t.EnumRepr == "int" && !s.Plain && s.R.Bool() { // (also under WideScalars: the member values fit every kind drawn here)
			kinds := []reflect.Kind{reflect.Int, reflect.Int8, reflect.Int32, reflect.Int64, reflect.Uint8, reflect.Uint16, reflect.Uint64}
			for _, v := range t.EnumInt {
				if v < 0 {
					kinds = kinds[:4] // a negative member value: signed kinds only
				}
			}
			g = kindType(kinds[s.R.Intn(len(kinds))])
		}
	case "list":
		e := s.GoType(s.TS.T(t.ValueType))
		if t.ValueNullable {
			e = s.maybe(e)
		}
		g = reflect.SliceOf(e)
	case "map":
		k := s.keyType(s.TS.T(t.KeyType))
		v := s.GoType(s.TS.T(t.ValueType))
		if t.ValueNullable {
			v = s.maybe(v)
		}
		g = reflect.StructOf([]reflect.StructField{{Name: "Keys", Type: reflect.SliceOf(k)}, {Name: "Values", Type: reflect.MapOf(k, v)}})
	case "struct":
		fs := make([]reflect.StructField, len(t.Fields))
		for i, f := range t.Fields {
			ft := s.GoType(s.TS.T(f.Type))
			switch {
			case f.Optional && f.Nullable:
				ft = reflect.PointerTo(reflect.PointerTo(ft))
			case f.Optional || f.Nullable:
				ft = s.maybe(ft)
			}
			fs[i] = reflect.StructField{Name: fmt.Sprintf("F%d", i), Type: ft}
		}
		g = reflect.StructOf(fs)
	case "union":
		fs := make([]reflect.StructField, len(t.Members))
		for i, m := range t.Members {
			fs[i] = reflect.StructField{Name: fmt.Sprintf("M%d", i), Type: reflect.PointerTo(s.GoType(s.TS.T(m)))}
		}
		g = reflect.StructOf(fs)
	default:
		panic("gobind: kind " + t.Kind)
	}
	s.memo[t.Name] = g
	return g
}

// keyType: map keys must be comparable Go types (strings, or structs of strings for complex keys).
func (s *Shape) keyType(t *rs.Type) reflect.Type {
	switch t.Kind {
	case "string", "enum":
		return reflect.TypeOf("")
	case "struct":
		if g, ok := s.memo[t.Name]; ok {
			return g
		}
		fs := make([]reflect.StructField, len(t.Fields))
		for i, f := range t.Fields {
			fs[i] = reflect.StructField{Name: fmt.Sprintf("F%d", i), Type: s.keyType(s.TS.T(f.Type))}
		}
		g := reflect.StructOf(fs)
		s.memo[t.Name] = g
		return g
	}
	return s.GoType(t)
}

func kindType(k reflect.Kind) reflect.Type {
	switch k {
	case reflect.Int:
		return reflect.TypeOf(int(0))
	case reflect.Int8:
		return reflect.TypeOf(int8(0))
	case reflect.Int16:
		return reflect.TypeOf(int16(0))
	case reflect.Int32:
		return reflect.TypeOf(int32(0))
	case reflect.Int64:
		return reflect.TypeOf(int64(0))
	case reflect.Uint:
		return reflect.TypeOf(uint(0))
	case reflect.Uint8:
		return reflect.TypeOf(uint8(0))
	case reflect.Uint16:
		return reflect.TypeOf(uint16(0))
	case reflect.Uint32:
		return reflect.TypeOf(uint32(0))
	case reflect.Uint64:
		return reflect.TypeOf(uint64(0))
	}
	panic("gobind: kind")
}

// ---------------------------------------------------------------- typed value -> Go value

// Binder converts between typed values of one type system and Go values.
type Binder struct{ TS *rs.TypeSystem }

// ToGo builds a fresh Go value of type g holding tv (a typed value of t).
func (b Binder) ToGo(t *rs.Type, g reflect.Type, tv model.Val) (reflect.Value, error) {
	out := reflect.New(g).Elem()
	if err := b.set(t, out, tv); err != nil {
		return reflect.Value{}, err
	}
	return out, nil
}

// setMaybe stores v (possibly null) into a position holding `*T or nilable T`.
func (b Binder) setMaybe(t *rs.Type, dst reflect.Value, v model.Val, isNil bool) error {
	if isNil {
		dst.Set(reflect.Zero(dst.Type()))
		return nil
	}
	if dst.Kind() == reflect.Ptr {
		p := reflect.New(dst.Type().Elem())
		if err := b.set(t, p.Elem(), v); err != nil {
			return err
		}
		dst.Set(p)
		return nil
	}
	if err := b.set(t, dst, v); err != nil {
		return err
	}
	if dst.IsNil() {
		return fmt.Errorf("gobind: a present value came out nil in a nilable %s", dst.Type())
	}
	return nil
}

func (b Binder) set(t *rs.Type, dst reflect.Value, v model.Val) error {
	k := dst.Kind()
	switch t.Kind {
	case "bool":
		dst.SetBool(v.B)
	case "int":
		return setInt(dst, v)
	case "float":
		if k == reflect.Float32 && float64(float32(v.F)) != v.F && v.F == v.F {
			return ErrNoFit{"float32", "not representable"}
		}
		dst.SetFloat(v.F)
	case "string":
		dst.SetString(v.S)
	case "bytes":
		bs := make([]byte, len(v.S))
		copy(bs, v.S)
		dst.SetBytes(bs)
	case "link":
		c, err := cid.Cast([]byte(v.S))
		if err != nil {
			return err
		}
		switch dst.Type() {
		case TCid:
			dst.Set(reflect.ValueOf(c))
		case TCidLink:
			dst.Set(reflect.ValueOf(cidlink.Link{Cid: c}))
		default:
			dst.Set(reflect.ValueOf(cidlink.Link{Cid: c}))
		}
	case "any":
		n, err := ToBasic(v)
		if err != nil {
			return err
		}
		dst.Set(reflect.ValueOf(n))
	case "enum":
		if k == reflect.String {
			dst.SetString(v.S)
			return nil
		}
		n, ok := t.EnumInt[v.S]
		if !ok {
			return fmt.Errorf("gobind: %q is not a member of %s", v.S, t.Name)
		}
		return setInt(dst, model.Int(n))
	case "list":
		et := b.TS.T(t.ValueType)
		sl := reflect.MakeSlice(dst.Type(), len(v.L), len(v.L))
		for i, x := range v.L {
			var err error
			if t.ValueNullable {
				err = b.setMaybe(et, sl.Index(i), x, x.K == model.KNull)
			} else {
				err = b.set(et, sl.Index(i), x)
			}
			if err != nil {
				return err
			}
		}
		dst.Set(sl)
	case "map":
		kt, vt := b.TS.T(t.KeyType), b.TS.T(t.ValueType)
		keysF, valsF := dst.Field(0), dst.Field(1)
		keys := reflect.MakeSlice(keysF.Type(), 0, len(v.M))
		vals := reflect.MakeMapWithSize(valsF.Type(), len(v.M))
		for _, e := range v.M {
			ktv := model.String(e.K)
			if kt.Kind != "enum" && kt.Kind != "string" {
				var err error
				if ktv, err = b.TS.ParseRepr(kt, model.String(e.K)); err != nil {
					return fmt.Errorf("gobind: key %q of %s: %v", e.K, t.Name, err)
				}
			}
			kv := reflect.New(keysF.Type().Elem()).Elem()
			if err := b.set(kt, kv, ktv); err != nil {
				return err
			}
			ev := reflect.New(valsF.Type().Elem()).Elem()
			var err error
			if t.ValueNullable {
				err = b.setMaybe(vt, ev, e.V, e.V.K == model.KNull)
			} else {
				err = b.set(vt, ev, e.V)
			}
			if err != nil {
				return err
			}
			keys = reflect.Append(keys, kv)
			vals.SetMapIndex(kv, ev)
		}
		keysF.Set(keys)
		valsF.Set(vals)
	case "struct":
		for i, f := range t.Fields {
			ft, fv, dstF := b.TS.T(f.Type), v.M[i].V, dst.Field(i)
			switch {
			case f.Optional && f.Nullable:
				if fv.K == model.KAbsent {
					dstF.Set(reflect.Zero(dstF.Type()))
					continue
				}
				outer := reflect.New(dstF.Type().Elem())
				if fv.K != model.KNull {
					inner := reflect.New(dstF.Type().Elem().Elem())
					if err := b.set(ft, inner.Elem(), fv); err != nil {
						return err
					}
					outer.Elem().Set(inner)
				}
				dstF.Set(outer)
			case f.Optional:
				if err := b.setMaybe(ft, dstF, fv, fv.K == model.KAbsent); err != nil {
					return err
				}
			case f.Nullable:
				if err := b.setMaybe(ft, dstF, fv, fv.K == model.KNull); err != nil {
					return err
				}
			default:
				if err := b.set(ft, dstF, fv); err != nil {
					return err
				}
			}
		}
	case "union":
		member := v.M[0].K
		found := false
		for i, m := range t.Members {
			if m != member {
				continue
			}
			found = true
			if err := b.setMaybe(b.TS.T(m), dst.Field(i), v.M[0].V, false); err != nil {
				return err
			}
		}
		if !found {
			return fmt.Errorf("gobind: %q is not a member of %s", member, t.Name)
		}
	default:
		return fmt.Errorf("gobind: kind %s", t.Kind)
	}
	return nil
}

func setInt(dst reflect.Value, v model.Val) error {
	k := dst.Kind()
	switch {
	case isInt(k):
		if v.K == model.KUint {
			return ErrNoFit{k.String(), "above MaxInt64"}
		}
		if dst.OverflowInt(v.I) {
			return ErrNoFit{k.String(), "out of range"}
		}
		dst.SetInt(v.I)
	case isUint(k):
		u := v.U
		if v.K != model.KUint {
			if v.I < 0 {
				return ErrNoFit{k.String(), "negative"}
			}
			u = uint64(v.I)
		}
		if dst.OverflowUint(u) {
			return ErrNoFit{k.String(), "out of range"}
		}
		dst.SetUint(u)
	default:
		return fmt.Errorf("gobind: integer into %s", dst.Type())
	}
	return nil
}

// ToBasic builds a basicnode tree of a plain value.
func ToBasic(v model.Val) (datamodel.Node, error) {
	nb := basicnode.Prototype.Any.NewBuilder()
	if err := assemble(nb, v); err != nil {
		return nil, err
	}
	return nb.Build(), nil
}

func assemble(na datamodel.NodeAssembler, v model.Val) error {
	switch v.K {
	case model.KNull:
		return na.AssignNull()
	case model.KBool:
		return na.AssignBool(v.B)
	case model.KInt:
		return na.AssignInt(v.I)
	case model.KUint:
		return na.AssignNode(basicnode.NewUint(v.U))
	case model.KFloat:
		return na.AssignFloat(v.F)
	case model.KString:
		return na.AssignString(v.S)
	case model.KBytes:
		return na.AssignBytes([]byte(v.S))
	case model.KLink:
		c, err := cid.Cast([]byte(v.S))
		if err != nil {
			return err
		}
		return na.AssignLink(cidlink.Link{Cid: c})
	case model.KList:
		la, err := na.BeginList(int64(len(v.L)))
		if err != nil {
			return err
		}
		for _, x := range v.L {
			if err := assemble(la.AssembleValue(), x); err != nil {
				return err
			}
		}
		return la.Finish()
	case model.KMap:
		ma, err := na.BeginMap(int64(len(v.M)))
		if err != nil {
			return err
		}
		for _, e := range v.M {
			va, err := ma.AssembleEntry(e.K)
			if err != nil {
				return err
			}
			if err := assemble(va, e.V); err != nil {
				return err
			}
		}
		return ma.Finish()
	}
	return fmt.Errorf("gobind: cannot assemble %v", v.K)
}

// ---------------------------------------------------------------- Go value -> typed value

// ErrBadState: the Go value is in a state no assembled value can have.
type ErrBadState struct{ What string }

func (e ErrBadState) Error() string { return "impossible Go state: " + e.What }

// FromGo reads the typed value held in the Go value g of schema type t.
func (b Binder) FromGo(t *rs.Type, g reflect.Value) (model.Val, error) {
	return b.get(t, g)
}

func (b Binder) getMaybe(t *rs.Type, g reflect.Value, nilVal model.Val) (model.Val, error) {
	if g.IsNil() {
		return nilVal, nil
	}
	if g.Kind() == reflect.Ptr {
		return b.get(t, g.Elem())
	}
	return b.get(t, g)
}

func (b Binder) get(t *rs.Type, g reflect.Value) (model.Val, error) {
	k := g.Kind()
	switch t.Kind {
	case "bool":
		return model.Bool(g.Bool()), nil
	case "int":
		return getInt(g)
	case "float":
		return model.Float(g.Float()), nil
	case "string":
		return model.String(g.String()), nil
	case "bytes":
		return model.Bytes(g.Bytes()), nil
	case "link":
		switch x := g.Interface().(type) {
		case cid.Cid:
			return model.Link(x.Bytes()), nil
		case cidlink.Link:
			return model.Link(x.Cid.Bytes()), nil
		case datamodel.Link:
			if cl, ok := x.(cidlink.Link); ok {
				return model.Link(cl.Cid.Bytes()), nil
			}
			if cl, ok := x.(*cidlink.Link); ok && cl != nil {
				return model.Link(cl.Cid.Bytes()), nil
			}
			return model.Val{}, ErrBadState{fmt.Sprintf("link of type %T", x)}
		}
		return model.Val{}, ErrBadState{fmt.Sprintf("link field holds %s", g.Type())}
	case "any":
		n, ok := g.Interface().(datamodel.Node)
		if !ok || n == nil {
			return model.Val{}, ErrBadState{"nil datamodel.Node in a present Any position"}
		}
		return obs.ReadOut(n, obs.Options{Light: true}).Val, nil
	case "enum":
		if k == reflect.String {
			return model.String(g.String()), nil
		}
		iv, err := getInt(g)
		if err != nil {
			return iv, err
		}
		for m, n := range t.EnumInt {
			if iv.K == model.KInt && n == iv.I {
				return model.String(m), nil
			}
		}
		return model.Val{}, ErrBadState{fmt.Sprintf("enum %s holds %s, which no member has", t.Name, iv.Dump())}
	case "list":
		et := b.TS.T(t.ValueType)
		out := model.Val{K: model.KList, L: []model.Val{}}
		for i := 0; i < g.Len(); i++ {
			var x model.Val
			var err error
			if t.ValueNullable {
				x, err = b.getMaybe(et, g.Index(i), model.Null())
			} else {
				x, err = b.get(et, g.Index(i))
			}
			if err != nil {
				return out, err
			}
			out.L = append(out.L, x)
		}
		return out, nil
	case "map":
		kt, vt := b.TS.T(t.KeyType), b.TS.T(t.ValueType)
		keys, vals := g.Field(0), g.Field(1)
		out := model.Val{K: model.KMap, M: []model.Entry{}}
		if keys.Len() != vals.Len() {
			return out, ErrBadState{fmt.Sprintf("map %s has %d Keys and %d Values", t.Name, keys.Len(), vals.Len())}
		}
		seen := map[string]bool{}
		for i := 0; i < keys.Len(); i++ {
			kv := keys.Index(i)
			ktv, err := b.get(kt, kv)
			if err != nil {
				return out, err
			}
			ks := ktv
			if kt.Kind != "enum" && kt.Kind != "string" {
				if ks, err = b.TS.ReprOf(kt, ktv); err != nil {
					return out, err
				}
			}
			if seen[ks.S] {
				return out, ErrBadState{fmt.Sprintf("map %s lists key %q twice", t.Name, ks.S)}
			}
			seen[ks.S] = true
			ev := vals.MapIndex(kv)
			if !ev.IsValid() {
				return out, ErrBadState{fmt.Sprintf("map %s: key %q is in Keys but not in Values", t.Name, ks.S)}
			}
			var x model.Val
			if t.ValueNullable {
				x, err = b.getMaybe(vt, ev, model.Null())
			} else {
				x, err = b.get(vt, ev)
			}
			if err != nil {
				return out, err
			}
			out.M = append(out.M, model.Entry{K: ks.S, V: x})
		}
		return out, nil
	case "struct":
		out := model.Val{K: model.KMap, M: []model.Entry{}}
		for i, f := range t.Fields {
			ft, gf := b.TS.T(f.Type), g.Field(i)
			var x model.Val
			var err error
			switch {
			case f.Optional && f.Nullable:
				switch {
				case gf.IsNil():
					x = model.Val{K: model.KAbsent}
				case gf.Elem().IsNil():
					x = model.Null()
				default:
					x, err = b.get(ft, gf.Elem().Elem())
				}
			case f.Optional:
				x, err = b.getMaybe(ft, gf, model.Val{K: model.KAbsent})
			case f.Nullable:
				x, err = b.getMaybe(ft, gf, model.Null())
			default:
				x, err = b.get(ft, gf)
			}
			if err != nil {
				return out, err
			}
			out.M = append(out.M, model.Entry{K: f.Name, V: x})
		}
		return out, nil
	case "union":
		var out model.Val
		set := 0
		for i, m := range t.Members {
			gf := g.Field(i)
			if gf.IsNil() {
				continue
			}
			set++
			x, err := b.getMaybe(b.TS.T(m), gf, model.Null())
			if err != nil {
				return out, err
			}
			out = model.Map(model.E(m, x))
		}
		if set != 1 {
			return out, ErrBadState{fmt.Sprintf("union %s has %d members set", t.Name, set)}
		}
		return out, nil
	}
	return model.Val{}, fmt.Errorf("gobind: kind %s", t.Kind)
}

func getInt(g reflect.Value) (model.Val, error) {
	switch {
	case isInt(g.Kind()):
		return model.Int(g.Int()), nil
	case isUint(g.Kind()):
		return model.Uint(g.Uint()), nil
	}
	return model.Val{}, fmt.Errorf("gobind: integer from %s", g.Type())
}

// ---------------------------------------------------------------- value drawing

// Fit redraws the integers of tv so that most of them sit on the
// boundaries of the Go kind that will hold them (in range and, with outside, just outside),
// and rounds floats headed for a float32 to float32.
func (b Binder) Fit(r *fw.RNG, t *rs.Type, g reflect.Type, tv model.Val, outside bool) model.Val {
	for g.Kind() == reflect.Ptr {
		g = g.Elem()
	}
	if tv.K == model.KNull || tv.K == model.KAbsent {
		return tv
	}
	switch t.Kind {
	case "int":
		return drawInt(r, g.Kind(), tv, outside)
	case "float":
		if g.Kind() == reflect.Float32 {
			f := float64(float32(tv.F))
			if math.IsInf(f, 0) || math.IsNaN(f) {
				f = 1.5
			}
			return model.Float(f)
		}
		return tv
	case "list":
		out := model.Val{K: model.KList, L: []model.Val{}}
		for _, x := range tv.L {
			out.L = append(out.L, b.Fit(r, b.TS.T(t.ValueType), g.Elem(), x, outside))
		}
		return out
	case "map":
		out := model.Val{K: model.KMap, M: []model.Entry{}}
		for _, e := range tv.M {
			out.M = append(out.M, model.Entry{K: e.K, V: b.Fit(r, b.TS.T(t.ValueType), g.Field(1).Type.Elem(), e.V, outside)})
		}
		return out
	case "struct":
		out := model.Val{K: model.KMap, M: []model.Entry{}}
		for i, f := range t.Fields {
			out.M = append(out.M, model.Entry{K: f.Name, V: b.Fit(r, b.TS.T(f.Type), g.Field(i).Type, tv.M[i].V, outside)})
		}
		return out
	case "union":
		for i, m := range t.Members {
			if m == tv.M[0].K {
				return model.Map(model.E(m, b.Fit(r, b.TS.T(m), g.Field(i).Type, tv.M[0].V, outside)))
			}
		}
	}
	return tv
}

func drawInt(r *fw.RNG, k reflect.Kind, old model.Val, outside bool) model.Val {
	bits := map[reflect.Kind]uint{reflect.Int: 64, reflect.Int8: 8, reflect.Int16: 16, reflect.Int32: 32, reflect.Int64: 64,
		reflect.Uint: 64, reflect.Uint8: 8, reflect.Uint16: 16, reflect.Uint32: 32, reflect.Uint64: 64}[k]
	if bits == 0 {
		return old
	}
	signed := isInt(k)
	var lo int64
	var hi uint64
	if signed {
		lo, hi = -(1 << (bits - 1)), 1<<(bits-1)-1
	} else {
		lo, hi = 0, math.MaxUint64>>(64-bits)
	}
	inRange := func(v model.Val) bool {
		if v.K == model.KUint {
			return v.U <= hi
		}
		return v.I >= lo && (v.I < 0 || uint64(v.I) <= hi)
	}
	for tries := 0; ; tries++ {
		var v model.Val
		switch r.Intn(9) {
		case 7:
			// around 2^63, where unsigned Go values stop fitting the data model's int64 accessor: MaxInt64-1,
			// MaxInt64, 2^63, 2^63+1 (a surviving mechanical mutant turned `u > MaxInt64` into `>=` unnoticed)
			v = model.Uint(uint64(math.MaxInt64) - 1 + uint64(r.Intn(4)))
		case 0:
			v = model.Uint(hi)
		case 1:
			v = model.Int(lo)
		case 2:
			v = model.Uint(hi - uint64(r.Intn(3)))
		case 3:
			v = model.Int(lo + int64(r.Intn(3)))
		case 4:
			if hi == math.MaxUint64 {
				v = model.Int(-1 - int64(r.Intn(3)))
			} else {
				v = model.Uint(hi + 1 + uint64(r.Intn(3))) // just above
			}
		case 5:
			if lo == math.MinInt64 {
				v = model.Uint(1<<63 + uint64(r.Intn(3)))
			} else {
				v = model.Int(lo - 1 - int64(r.Intn(3))) // just below
			}
		case 6:
			v = model.Int(int64(r.Intn(200)) - 100)
		default:
			v = old
		}
		if outside || inRange(v) || tries > 20 {
			if !outside && !inRange(v) {
				return model.Int(0)
			}
			return v
		}
	}
}

// IsNoFit reports whether err says the value does not fit the Go type.
func IsNoFit(err error) (ErrNoFit, bool) {
	var nf ErrNoFit
	ok := errors.As(err, &nf)
	return nf, ok
}
