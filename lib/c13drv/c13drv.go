// Package c13drv is the body of the driver program that C13 generates and
// compiles per batch: it links the freshly generated packages (through the
// Protos hook set by the generated main.go), rebuilds the same type systems
// from the seed, binds them with bindnode as well, and runs the typed-node
// monitors on both engines in lock-step.
package c13drv

import (
	"bytes"
	"flag"
	"fmt"
	"os"
	"strings"

	"github.com/ipld/go-ipld-prime/codec/dagcbor"
	"github.com/ipld/go-ipld-prime/codec/dagjson"
	"github.com/ipld/go-ipld-prime/datamodel"
	"github.com/ipld/go-ipld-prime/node/bindnode"
	"github.com/ipld/go-ipld-prime/schema"

	"verif/lib/fw"
	"verif/lib/model"
	rs "verif/lib/ref/schema"
	"verif/lib/schemagen"
	"verif/lib/typedmon"
)

// Protos is set by the generated main: prototypes of generated type `name` of type system `ts`.
var Protos func(ts int, name string) (typed, repr datamodel.NodePrototype)

// TypeSystemsPerBatch is how many type systems one driver holds.
func TypeSystemsPerBatch(tier string) int {
	if tier == "thorough" {
		return 5
	}
	return 3
}

// TypeSystemFor regenerates type system i of a batch deterministically.
func TypeSystemFor(seed uint64, tier string, batch, i int) *rs.TypeSystem {
	r := fw.NewRNG(fw.Mix(seed, fw.HashString("C13-typesystem"), fw.HashString(tier), uint64(batch), uint64(i)))
	return schemagen.Gen(r, schemagen.Opts{Types: 5 + r.Intn(5), ForGen: true})
}

type genEngine struct{ idx int }

func (e genEngine) Name() string { return "gengo" }
func (e genEngine) Proto(name string) (datamodel.NodePrototype, datamodel.NodePrototype) {
	return Protos(e.idx, name)
}

type bindEngine struct {
	lib    *schema.TypeSystem
	protos map[string]schema.TypedPrototype
}

func (e *bindEngine) Name() string { return "bindnode" }
func (e *bindEngine) Proto(name string) (p datamodel.NodePrototype, r datamodel.NodePrototype) {
	defer func() {
		if recover() != nil {
			p, r = nil, nil
		}
	}()
	tp, ok := e.protos[name]
	if !ok {
		tp = bindnode.Prototype(nil, e.lib.TypeByName(name))
		e.protos[name] = tp
	}
	return tp, tp.Representation()
}

type prop struct{ seed uint64 }

func (prop) ID() string { return "C13" }
func (prop) Plan(tier string) fw.Plan {
	return fw.Plan{Cases: TypeSystemsPerBatch(tier), Batches: 1}
}

func (p prop) RunCase(c *fw.Ctx, rng *fw.RNG, batch, i int) {
	ts := TypeSystemFor(c.Seed, c.Tier, batch, i)
	lib, err := schemagen.ToLibrary(ts)
	if err != nil {
		c.Inconclusive("library rejects type system: " + err.Error())
		return
	}
	gen := genEngine{i}
	bind := &bindEngine{lib: lib, protos: map[string]schema.TypedPrototype{}}
	var cur string
	c.SetCase(func() any { return map[string]any{"type_system": schemagen.Describe(ts), "current": cur} })
	c.Count("type_systems_driven", 1)
	values := 30
	if c.Tier == "thorough" {
		values = 80
	}
	for _, t := range ts.Types {
		if t.Name[0] != 'T' {
			continue
		}
		if tp, _ := gen.Proto(t.Name); tp == nil {
			c.Deviate("C13:generated-type-missing", "no generated prototype for "+t.Name)
			continue
		}
		c.Count("types_driven", 1)
		for k := 0; k < values; k++ {
			tv := schemagen.GenValue(rng, ts, t, 0)
			cur = t.Name + " = " + tv.Dump()
			c.Seen(fw.Mix(fw.HashString(schemagen.Describe(ts)+t.Name), tv.Hash()), true)
			// each engine against the reference (C08 monitor on generated code), then lock-step
			typedmon.CheckViews(c, gen, ts, t, tv, rng)
			if k < 6 {
				typedmon.CheckOtherLevelNames(c, gen, ts, t, tv)
			}
			if k%3 == 0 {
				typedmon.CheckWrongKind(c, gen, ts, t, tv)
			} else if k%3 == 1 {
				typedmon.CheckTypedReadback(c, gen, ts, t, tv, rng)
			}
			if k == 0 {
				if _, rp := gen.Proto(t.Name); rp != nil {
					typedmon.MutatedDecodes(c, "gengo:"+t.Kind, ts, t, rp, rng, &cur)
				}
			}
			if t.Kind == "map" || t.Kind == "union" || (t.Kind == "struct" && k%2 == 0) {
				for _, lvl := range []bool{false, true} {
					typedmon.CheckRejectedKey(c, gen, ts, t, tv, lvl, rng)
					typedmon.CheckRejectedKey(c, bind, ts, t, tv, lvl, rng)
				}
			}
			rv, rerr := ts.ReprOf(t, tv)
			if rerr != nil {
				continue
			}
			LockStep(c, gen, bind, ts, t, ts.TypeInput(t, tv), false, "none")
			LockStep(c, gen, bind, ts, t, rv, true, "none")
			for m := 0; m < 4; m++ {
				for _, lvl := range []bool{false, true} {
					in := rv
					if !lvl {
						in = ts.TypeInput(t, tv)
						if typedmon.HasComplexKeys(ts, t) {
							continue
						}
					}
					mut := typedmon.Mutate(rng, in)
					cur = fmt.Sprintf("%s repr=%v %s ← %s", t.Name, lvl, mut.Val.Dump(), mut.Name)
					c.Count("mutations_driven", 1)
					typedmon.CheckConformance(c, gen, ts, t, mut.Val, lvl, mut.Name)
					LockStep(c, gen, bind, ts, t, mut.Val, lvl, mut.Name)
				}
			}
		}
	}
}

// LockStep feeds the same input to both engines and compares what can be observed.
func LockStep(rep typedmon.Reporter, a, b typedmon.Engine, ts *rs.TypeSystem, t *rs.Type, in model.Val, reprLevel bool, mutation string) {
	at, ar := a.Proto(t.Name)
	bt, br := b.Proto(t.Name)
	pa, pb := at, bt
	level := "type-level"
	if reprLevel {
		pa, pb, level = ar, br, "representation-level"
	}
	if pa == nil || pb == nil {
		return
	}
	feed := func(p datamodel.NodePrototype) typedmon.Outcome {
		if !reprLevel && typedmon.HasComplexKeys(ts, t) {
			return typedmon.FeedTyped(p, ts, t, in)
		}
		return typedmon.Feed(p, in)
	}
	oa, ob := feed(pa), feed(pb)
	rep.Count("lockstep_inputs", 1)
	ctx := func() string {
		return fmt.Sprintf("%s builder of %s, mutation %q, input %s", level, t.Name, mutation, clip(in.Dump(), 500))
	}
	kind := t.Kind
	if oa.Panic != "" || ob.Panic != "" {
		if (oa.Panic != "") != (ob.Panic != "") {
			rep.Deviate("C13:engines-disagree:panic:"+level+":"+kind, fmt.Sprintf("%s panics=%v, %s panics=%v\n%s\n%s%s", a.Name(), oa.Panic != "", b.Name(), ob.Panic != "", ctx(), clip(oa.Panic, 600), clip(ob.Panic, 600)))
		}
		return
	}
	if oa.Accepted != ob.Accepted {
		rep.Deviate("C13:engines-disagree:accept:"+level+":"+kind, fmt.Sprintf("%s accepted=%v (err %v), %s accepted=%v (err %v)\n%s", a.Name(), oa.Accepted, oa.Err, b.Name(), ob.Accepted, ob.Err, ctx()))
		return
	}
	if !oa.Accepted {
		return
	}
	rep.Count("lockstep_accepted_by_both", 1)
	va, vb := typedmon.ReadTyped(oa.Node), typedmon.ReadTyped(ob.Node)
	if !model.Equal(va, vb) {
		rep.Deviate("C13:engines-disagree:type-view:"+level+":"+kind, fmt.Sprintf("%s reads %s\n%s reads %s\n%s", a.Name(), clip(va.Dump(), 400), b.Name(), clip(vb.Dump(), 400), ctx()))
		return
	}
	ra, rb := typedmon.ReadTyped(typedmon.Repr(oa.Node)), typedmon.ReadTyped(typedmon.Repr(ob.Node))
	if !model.Equal(ra, rb) {
		if !reprLevel {
			// A type-level value the schema gives no representation to (the only such shape: a tuple struct with an
			// absent optional before a present one) is its own class: there is no reference content to side with.
			if tv, perr := ts.ParseType(t, in); perr == nil {
				if _, rerr := ts.ReprOf(t, tv); rerr != nil && strings.Contains(rerr.Error(), "absent field before a present one") {
					rep.Deviate("C13:engines-disagree:representation:unrepresentable-tuple", fmt.Sprintf("%s representation %s\n%s representation %s\n%s", a.Name(), clip(ra.Dump(), 400), b.Name(), clip(rb.Dump(), 400), ctx()))
					return
				}
			}
		}
		rep.Deviate("C13:engines-disagree:representation:"+level+":"+kind, fmt.Sprintf("%s representation %s\n%s representation %s\n%s", a.Name(), clip(ra.Dump(), 400), b.Name(), clip(rb.Dump(), 400), ctx()))
		return
	}
	for _, cd := range []string{"dag-cbor", "dag-json"} {
		var ba, bb bytes.Buffer
		var ea, eb error
		func() {
			defer func() {
				if r := recover(); r != nil {
					ea = fmt.Errorf("panic: %v", r)
				}
			}()
			if cd == "dag-cbor" {
				ea, eb = dagcbor.Encode(typedmon.Repr(oa.Node), &ba), dagcbor.Encode(typedmon.Repr(ob.Node), &bb)
			} else {
				ea, eb = dagjson.Encode(typedmon.Repr(oa.Node), &ba), dagjson.Encode(typedmon.Repr(ob.Node), &bb)
			}
		}()
		if (ea != nil) != (eb != nil) || !bytes.Equal(ba.Bytes(), bb.Bytes()) {
			rep.Deviate("C13:engines-disagree:bytes:"+cd+":"+kind, fmt.Sprintf("%s encodes (%v) %x\n%s encodes (%v) %x\n%s", a.Name(), ea, clipB(ba.Bytes()), b.Name(), eb, clipB(bb.Bytes()), ctx()))
			return
		}
		rep.Count("lockstep_bytes_compared", 1)
	}
}

func clip(s string, n int) string {
	if len(s) > n {
		return s[:n] + "…"
	}
	return s
}

func clipB(b []byte) []byte {
	if len(b) > 160 {
		return b[:160]
	}
	return b
}

// Main is the driver's entry point.
func Main(args []string) int {
	fs := flag.NewFlagSet("c13driver", flag.ContinueOnError)
	seed := fs.Uint64("seed", 1, "")
	tier := fs.String("tier", "quick", "")
	batch := fs.Int("batch", 0, "")
	out := fs.String("out", "", "")
	only := fs.Int("only", -1, "")
	if err := fs.Parse(args); err != nil {
		return 2
	}
	fw.Register(prop{})
	if Protos == nil {
		fmt.Fprintln(os.Stderr, "driver without generated prototypes")
		return 2
	}
	return fw.RunWorker(fw.WorkerArgs{Prop: "C13", Tier: *tier, Seed: *seed, Batch: *batch, Only: *only, OutDir: *out})
}
