package model

import (
	"math"
	"strings"

	"verif/lib/fw"
)

// GenOpts selects the value domain of a property.
type GenOpts struct {
	MaxDepth int
	MaxWidth int
	Uint     bool // integers above MaxInt64
	NonUTF8  bool // strings and keys that are not valid UTF-8
	Links    bool
	NaNInf   bool
	NoFloats bool
	NoBytes  bool
	NoNulls  bool
	Wide     bool // occasionally containers at the CBOR length-head boundaries
	// AvoidJSONReserved keeps out the shapes DAG-JSON reserves: {"/": string}
	// and {"/": {"bytes": string}}.
	AvoidJSONReserved bool
	// Int64Only restricts ints to the int64 range (Uint ignored)
	ScalarsOnly bool
}

var boundaryUints = []uint64{0, 1, 22, 23, 24, 25, 254, 255, 256, 257, 65534, 65535, 65536, 65537,
	1<<31 - 1, 1 << 31, 1<<32 - 1, 1 << 32, 1<<32 + 1, 1<<53 - 1, 1 << 53, 1<<53 + 1, 1<<63 - 2, 1<<63 - 1}

var bigUints = []uint64{1 << 63, 1<<63 + 1, 1<<64 - 2, 1<<64 - 1, 0xdeadbeefcafebabe}

func GenInt(r *fw.RNG, allowUint bool) Val {
	switch r.Intn(10) {
	case 0, 1, 2:
		u := boundaryUints[r.Intn(len(boundaryUints))]
		if r.Bool() {
			return Int(int64(u))
		}
		return Int(-1 - int64(u)) // CBOR negative head boundaries: -1-n
	case 3:
		return Int(int64(r.Intn(48)) - 24)
	case 4:
		if allowUint {
			if r.Bool() {
				return Uint(bigUints[r.Intn(len(bigUints))])
			}
			return Uint(1<<63 | r.U64())
		}
		return Int(math.MinInt64 + int64(r.Intn(3)))
	case 5:
		return Int(int64(r.U64()))
	case 6:
		return Int(int64(r.U64() >> uint(r.Intn(64))))
	case 7:
		return Int(-int64(r.U64() >> uint(1+r.Intn(63))))
	default:
		return Int(int64(r.Intn(100000)) - 50000)
	}
}

var interestingFloats = []float64{
	0, math.Copysign(0, -1), 1, -1, 1.5, -1.5, 0.1, 1e-6, 9.999999e-7, 1e-7, 1e21, 9.99999999999999e20, 1e20, 1e22,
	math.MaxFloat64, -math.MaxFloat64, math.SmallestNonzeroFloat64, 2.2250738585072014e-308, // smallest normal
	math.MaxFloat32, math.SmallestNonzeroFloat32, 65504, 6.103515625e-05, 5.960464477539063e-08, // f16 bounds
	float64(1 << 53), float64(1<<53 + 2), 9007199254740993, 1 << 63, -(1 << 63), 1 << 64, 4294967296, 2147483648,
	3.141592653589793, 2.718281828459045, 1.7976931348623157e308, 123456789012345680, 0.30000000000000004,
	100, 1e15, 1e16, 1e17, 123456.789, -0.000001234, 5e-324, 1.0000000000000002,
}

func GenFloat(r *fw.RNG, nanInf bool) Val {
	switch r.Intn(8) {
	case 0, 1, 2:
		return Float(interestingFloats[r.Intn(len(interestingFloats))])
	case 3:
		// integral float
		return Float(float64(int64(r.U64() >> uint(r.Intn(64)))))
	case 4:
		if nanInf {
			switch r.Intn(4) {
			case 0:
				return Float(math.NaN())
			case 1:
				return Float(math.Inf(1))
			case 2:
				return Float(math.Inf(-1))
			default:
				return Float(math.Float64frombits(0x7ff8000000000001 | r.U64()&0xfffff)) // NaN with payload
			}
		}
		return Float(float64(float32(r.U64()%1000000) / 7))
	case 5:
		// float32-representable
		f := math.Float32frombits(uint32(r.U64()))
		if f != f || math.IsInf(float64(f), 0) {
			f = 0.5
		}
		return Float(float64(f))
	default:
		for {
			f := math.Float64frombits(r.U64())
			if f == f && !math.IsInf(f, 0) {
				return Float(f)
			}
		}
	}
}

var stringPool = []string{
	"", "a", "b", "aa", "ab", "b\x00", "\x00", "/", "//", "a/b", "..", "../x", ".", "~", "bytes", "/bytes",
	"é", "è", "ü", "日本", "日本語", "𝄞", "😀", "\u2028", " ", "\ufeff", "\u0000x", "a\nb", "a\tb", "\"q\"", "\\", "\\u0041",
	"\x7f", "\u0080", "key", "Key", "KEY", "0", "1", "-1", "01", "1.0", "true", "null", "{}", "[]",
	"a b", " ", "  ", "\r\n", "<script>", "&amp;", "'", "`", "%00", "\x1f", "\x1e",
	"\ufffd", "caf\ufffd", "\ufffe", "\uffff", "\ue000", "\ud7ff", "ﾂ", "\U0010ffff", // valid UTF-8: U+FFFD itself, noncharacters, BMP edges
}

var badUTF8Pool = []string{"\xff", "\xc0\xaf", "\xed\xa0\x80", "a\xffb", "\xf8\x88\x80\x80\x80", "\xc3", "\xe2\x82", "\x80"}

func GenString(r *fw.RNG, nonUTF8 bool) string {
	switch r.Intn(10) {
	case 0, 1, 2, 3:
		return stringPool[r.Intn(len(stringPool))]
	case 4:
		if nonUTF8 {
			return badUTF8Pool[r.Intn(len(badUTF8Pool))]
		}
		return stringPool[r.Intn(len(stringPool))] + stringPool[r.Intn(len(stringPool))]
	case 5:
		// length at a head boundary
		n := []int{22, 23, 24, 25, 255, 256, 257}[r.Intn(7)]
		return strings.Repeat(string(rune('a'+r.Intn(26))), n)
	case 6:
		if nonUTF8 {
			return string(r.Bytes(r.Intn(12)))
		}
		fallthrough
	case 7:
		// random printable
		n := r.Intn(12)
		b := make([]byte, n)
		for i := range b {
			b[i] = byte(0x20 + r.Intn(0x5f))
		}
		return string(b)
	case 8:
		// random runes of equal byte length (2-byte)
		n := 1 + r.Intn(3)
		var sb strings.Builder
		for i := 0; i < n; i++ {
			sb.WriteRune(rune(0xc0 + r.Intn(0x40)))
		}
		return sb.String()
	default:
		return string(rune('a' + r.Intn(6)))
	}
}

func GenBytes(r *fw.RNG) []byte {
	switch r.Intn(6) {
	case 0:
		return []byte{}
	case 1:
		n := []int{1, 23, 24, 255, 256}[r.Intn(5)]
		return r.Bytes(n)
	case 2:
		return []byte(stringPool[r.Intn(len(stringPool))])
	default:
		return r.Bytes(r.Intn(40))
	}
}

func GenScalar(r *fw.RNG, o GenOpts) Val {
	for {
		switch r.Intn(9) {
		case 0:
			if o.NoNulls {
				continue
			}
			return Null()
		case 1:
			return Bool(r.Bool())
		case 2, 3:
			return GenInt(r, o.Uint)
		case 4:
			if o.NoFloats {
				continue
			}
			return GenFloat(r, o.NaNInf)
		case 5, 6:
			return String(GenString(r, o.NonUTF8))
		case 7:
			if o.NoBytes {
				continue
			}
			return Bytes(GenBytes(r))
		case 8:
			if !o.Links {
				continue
			}
			return Link(GenCID(r))
		}
	}
}

func genKeys(r *fw.RNG, n int, o GenOpts) []string {
	seen := map[string]bool{}
	keys := make([]string, 0, n)
	mode := r.Intn(4)
	for len(keys) < n {
		var k string
		switch mode {
		case 0: // keys that are prefixes of one another / same length different bytes
			k = strings.Repeat("a", r.Intn(4)) + string(rune('a'+r.Intn(3)))
		case 1: // equal-byte-length multibyte runes
			k = string(rune(0xe0+r.Intn(16))) + string(rune(0xe0+r.Intn(16)))
		default:
			k = GenString(r, o.NonUTF8)
		}
		for tries := 0; seen[k]; tries++ {
			k += string(rune('a' + r.Intn(26)))
		}
		seen[k] = true
		keys = append(keys, k)
	}
	return keys
}

func genWidth(r *fw.RNG, o GenOpts, depth int) int {
	if o.Wide && depth == 0 && r.Chance(1, 12) {
		return []int{23, 24, 25, 255, 256, 257}[r.Intn(6)]
	}
	w := o.MaxWidth
	if w <= 0 {
		w = 6
	}
	switch r.Intn(6) {
	case 0:
		return 0
	case 1:
		return 1
	default:
		return r.Intn(w + 1)
	}
}

// Gen draws a value from the domain described by o.
func Gen(r *fw.RNG, o GenOpts) Val { return gen(r, o, 0) }

func gen(r *fw.RNG, o GenOpts, depth int) Val {
	if o.ScalarsOnly || depth >= o.MaxDepth || r.Chance(2, 5) && depth > 0 || depth == 0 && r.Chance(1, 6) {
		return GenScalar(r, o)
	}
	if r.Bool() {
		n := genWidth(r, o, depth)
		xs := make([]Val, n)
		for i := range xs {
			xs[i] = gen(r, o, depth+1)
		}
		return Val{K: KList, L: xs}
	}
	for {
		n := genWidth(r, o, depth)
		keys := genKeys(r, n, o)
		es := make([]Entry, n)
		for i := range es {
			es[i] = Entry{keys[i], gen(r, o, depth+1)}
		}
		v := Val{K: KMap, M: es}
		if o.AvoidJSONReserved && IsJSONReserved(v) {
			continue
		}
		return v
	}
}

// IsJSONReserved reports the map shapes DAG-JSON reserves for links and bytes.
func IsJSONReserved(v Val) bool {
	if v.K != KMap || len(v.M) != 1 || v.M[0].K != "/" {
		return false
	}
	x := v.M[0].V
	if x.K == KString {
		return true
	}
	if x.K == KMap && len(x.M) == 1 && x.M[0].K == "bytes" && x.M[0].V.K == KString {
		return true
	}
	return false
}
