// Package model holds the abstract IPLD data-model value used by every oracle
// (independent of any node implementation) and the case generators.
package model

import (
	"bytes"
	"encoding/hex"
	"fmt"
	"math"
	"sort"
	"strings"
	"unicode/utf8"
)

type Kind uint8

const (
	KNull Kind = iota
	KBool
	KInt  // int64 range
	KUint // only values above MaxInt64
	KFloat
	KString
	KBytes
	KLink // S holds the binary CID
	KList
	KMap
	KAbsent // only produced by read-outs of typed nodes
)

func (k Kind) String() string {
	return [...]string{"null", "bool", "int", "uint", "float", "string", "bytes", "link", "list", "map", "absent"}[k]
}

type Entry struct {
	K string
	V Val
}

// Val is an IPLD data-model value. Maps are ordered.
type Val struct {
	K Kind
	B bool
	I int64
	U uint64
	F float64
	S string // string / bytes / link content
	L []Val
	M []Entry
}

func Null() Val               { return Val{K: KNull} }
func Bool(b bool) Val         { return Val{K: KBool, B: b} }
func Int(i int64) Val         { return Val{K: KInt, I: i} }
func Float(f float64) Val     { return Val{K: KFloat, F: f} }
func String(s string) Val     { return Val{K: KString, S: s} }
func Bytes(b []byte) Val      { return Val{K: KBytes, S: string(b)} }
func Link(cid []byte) Val     { return Val{K: KLink, S: string(cid)} }
func List(xs ...Val) Val      { return Val{K: KList, L: xs} }
func Map(es ...Entry) Val     { return Val{K: KMap, M: es} }
func E(k string, v Val) Entry { return Entry{k, v} }

// Uint builds an integer from a uint64: KInt when it fits int64, else KUint.
func Uint(u uint64) Val {
	if u <= math.MaxInt64 {
		return Val{K: KInt, I: int64(u)}
	}
	return Val{K: KUint, U: u}
}

// Equal is equality of abstract values: kinds, scalars (floats by bit
// pattern except that +0 == -0 is NOT assumed), list order, map entry order.
func Equal(a, b Val) bool {
	if a.K != b.K {
		return false
	}
	switch a.K {
	case KNull, KAbsent:
		return true
	case KBool:
		return a.B == b.B
	case KInt:
		return a.I == b.I
	case KUint:
		return a.U == b.U
	case KFloat:
		return math.Float64bits(a.F) == math.Float64bits(b.F)
	case KString, KBytes, KLink:
		return a.S == b.S
	case KList:
		if len(a.L) != len(b.L) {
			return false
		}
		for i := range a.L {
			if !Equal(a.L[i], b.L[i]) {
				return false
			}
		}
		return true
	case KMap:
		if len(a.M) != len(b.M) {
			return false
		}
		for i := range a.M {
			if a.M[i].K != b.M[i].K || !Equal(a.M[i].V, b.M[i].V) {
				return false
			}
		}
		return true
	}
	return false
}

// EqualGo is equality as Go's == on scalars would see it (datamodel.DeepEqual
// is documented to compare scalars with ==): +0 == -0.
func EqualGo(a, b Val) bool {
	if a.K == KFloat && b.K == KFloat {
		return a.F == b.F
	}
	if a.K != b.K {
		return false
	}
	switch a.K {
	case KList:
		if len(a.L) != len(b.L) {
			return false
		}
		for i := range a.L {
			if !EqualGo(a.L[i], b.L[i]) {
				return false
			}
		}
		return true
	case KMap:
		if len(a.M) != len(b.M) {
			return false
		}
		for i := range a.M {
			if a.M[i].K != b.M[i].K || !EqualGo(a.M[i].V, b.M[i].V) {
				return false
			}
		}
		return true
	}
	return Equal(a, b)
}

func (v Val) Hash() uint64 {
	h := uint64(1469598103934665603)
	var rec func(v Val)
	mixb := func(b byte) { h ^= uint64(b); h *= 1099511628211 }
	mix8 := func(x uint64) {
		for i := 0; i < 8; i++ {
			mixb(byte(x >> (8 * i)))
		}
	}
	mixs := func(s string) {
		mix8(uint64(len(s)))
		for i := 0; i < len(s); i++ {
			mixb(s[i])
		}
	}
	rec = func(v Val) {
		mixb(byte(v.K) + 0x40)
		switch v.K {
		case KBool:
			if v.B {
				mixb(1)
			} else {
				mixb(0)
			}
		case KInt:
			mix8(uint64(v.I))
		case KUint:
			mix8(v.U)
		case KFloat:
			mix8(math.Float64bits(v.F))
		case KString, KBytes, KLink:
			mixs(v.S)
		case KList:
			mix8(uint64(len(v.L)))
			for _, x := range v.L {
				rec(x)
			}
		case KMap:
			mix8(uint64(len(v.M)))
			for _, e := range v.M {
				mixs(e.K)
				rec(e.V)
			}
		}
	}
	rec(v)
	return h
}

// Dump renders the value for humans and replay files (lossless: non-UTF-8
// and control characters are hex-escaped).
func (v Val) Dump() string {
	var sb strings.Builder
	v.dump(&sb, 0)
	return sb.String()
}

func quote(s string) string {
	if utf8.ValidString(s) {
		clean := true
		for _, r := range s {
			if r < 0x20 || r == '"' || r == '\\' || r == 0x7f || r == 0x2028 || r == 0x2029 {
				clean = false
				break
			}
		}
		if clean && len(s) <= 80 {
			return `"` + s + `"`
		}
	}
	if len(s) > 64 {
		return fmt.Sprintf("x'%s…'(len=%d)", hex.EncodeToString([]byte(s[:48])), len(s))
	}
	return "x'" + hex.EncodeToString([]byte(s)) + "'"
}

func (v Val) dump(sb *strings.Builder, depth int) {
	if sb.Len() > 4000 {
		sb.WriteString("…")
		return
	}
	switch v.K {
	case KNull:
		sb.WriteString("null")
	case KAbsent:
		sb.WriteString("absent")
	case KBool:
		fmt.Fprintf(sb, "%v", v.B)
	case KInt:
		fmt.Fprintf(sb, "%d", v.I)
	case KUint:
		fmt.Fprintf(sb, "%du", v.U)
	case KFloat:
		fmt.Fprintf(sb, "f(%v|%016x)", v.F, math.Float64bits(v.F))
	case KString:
		sb.WriteString("s" + quote(v.S))
	case KBytes:
		sb.WriteString("b" + quote(v.S))
	case KLink:
		sb.WriteString("link(" + hex.EncodeToString([]byte(v.S)) + ")")
	case KList:
		sb.WriteString("[")
		for i, x := range v.L {
			if i > 0 {
				sb.WriteString(", ")
			}
			if i >= 40 {
				fmt.Fprintf(sb, "…(%d more)", len(v.L)-i)
				break
			}
			x.dump(sb, depth+1)
		}
		sb.WriteString("]")
	case KMap:
		sb.WriteString("{")
		for i, e := range v.M {
			if i > 0 {
				sb.WriteString(", ")
			}
			if i >= 40 {
				fmt.Fprintf(sb, "…(%d more)", len(v.M)-i)
				break
			}
			sb.WriteString(quote(e.K) + ": ")
			e.V.dump(sb, depth+1)
		}
		sb.WriteString("}")
	}
}

// CBORKeyLess is the DAG-CBOR (RFC 7049 canonical) key order: shorter first, then bytewise.
func CBORKeyLess(a, b string) bool {
	if len(a) != len(b) {
		return len(a) < len(b)
	}
	return a < b
}

// SortKeys returns a deep copy with every map's entries sorted by less.
func SortKeys(v Val, less func(a, b string) bool) Val {
	switch v.K {
	case KList:
		out := make([]Val, len(v.L))
		for i, x := range v.L {
			out[i] = SortKeys(x, less)
		}
		return Val{K: KList, L: out}
	case KMap:
		out := make([]Entry, len(v.M))
		for i, e := range v.M {
			out[i] = Entry{e.K, SortKeys(e.V, less)}
		}
		sort.SliceStable(out, func(i, j int) bool { return less(out[i].K, out[j].K) })
		return Val{K: KMap, M: out}
	}
	return v
}

func BytewiseLess(a, b string) bool { return bytes.Compare([]byte(a), []byte(b)) < 0 }

// Permute returns a deep copy with each map's entries permuted by rnd.
func Permute(v Val, perm func(n int) []int) Val {
	switch v.K {
	case KList:
		out := make([]Val, len(v.L))
		for i, x := range v.L {
			out[i] = Permute(x, perm)
		}
		return Val{K: KList, L: out}
	case KMap:
		p := perm(len(v.M))
		out := make([]Entry, len(v.M))
		for i, j := range p {
			out[i] = Entry{v.M[j].K, Permute(v.M[j].V, perm)}
		}
		return Val{K: KMap, M: out}
	}
	return v
}

// Stats over a value, used by the non-triviality rules.
type Stats struct {
	Nodes, MaxDepth, Maps, MultiKeyMaps, Lists, Links, Floats, Uints, NonUTF8, BigHeads int
}

func (v Val) Stats() Stats {
	var s Stats
	var rec func(v Val, d int)
	head := func(n uint64) {
		if n >= 24 {
			s.BigHeads++
		}
	}
	rec = func(v Val, d int) {
		s.Nodes++
		if d > s.MaxDepth {
			s.MaxDepth = d
		}
		switch v.K {
		case KInt:
			if v.I >= 0 {
				head(uint64(v.I))
			} else {
				head(uint64(-1 - v.I))
			}
		case KUint:
			s.Uints++
			s.BigHeads++
		case KFloat:
			s.Floats++
		case KString:
			head(uint64(len(v.S)))
			if !utf8.ValidString(v.S) {
				s.NonUTF8++
			}
		case KBytes:
			head(uint64(len(v.S)))
		case KLink:
			s.Links++
		case KList:
			s.Lists++
			head(uint64(len(v.L)))
			for _, x := range v.L {
				rec(x, d+1)
			}
		case KMap:
			s.Maps++
			if len(v.M) >= 2 {
				s.MultiKeyMaps++
			}
			head(uint64(len(v.M)))
			for _, e := range v.M {
				if !utf8.ValidString(e.K) {
					s.NonUTF8++
				}
				rec(e.V, d+1)
			}
		}
	}
	rec(v, 0)
	return s
}

// Walk calls f on every value in the tree (pre-order).
func (v Val) Walk(f func(Val)) {
	f(v)
	switch v.K {
	case KList:
		for _, x := range v.L {
			x.Walk(f)
		}
	case KMap:
		for _, e := range v.M {
			e.V.Walk(f)
		}
	}
}

// Lookup returns the entry value for key k in a map value.
func (v Val) Lookup(k string) (Val, bool) {
	for _, e := range v.M {
		if e.K == k {
			return e.V, true
		}
	}
	return Val{}, false
}

// FirstDiff names the first position where a and b differ (for messages).
func FirstDiff(a, b Val) string { return firstDiff(a, b, "") }

func firstDiff(a, b Val, path string) string {
	if Equal(a, b) {
		return ""
	}
	if a.K == b.K {
		switch a.K {
		case KList:
			for i := 0; i < len(a.L) && i < len(b.L); i++ {
				if d := firstDiff(a.L[i], b.L[i], fmt.Sprintf("%s/%d", path, i)); d != "" {
					return d
				}
			}
			return fmt.Sprintf("at %q: list lengths %d vs %d", path, len(a.L), len(b.L))
		case KMap:
			for i := 0; i < len(a.M) && i < len(b.M); i++ {
				if a.M[i].K != b.M[i].K {
					return fmt.Sprintf("at %q: entry %d has key %q vs %q", path, i, a.M[i].K, b.M[i].K)
				}
				if d := firstDiff(a.M[i].V, b.M[i].V, path+"/"+a.M[i].K); d != "" {
					return d
				}
			}
			return fmt.Sprintf("at %q: map lengths %d vs %d", path, len(a.M), len(b.M))
		}
	}
	da, db := a.Dump(), b.Dump()
	if len(da) > 200 {
		da = da[:200] + "…"
	}
	if len(db) > 200 {
		db = db[:200] + "…"
	}
	return fmt.Sprintf("at %q: %s vs %s", path, da, db)
}
