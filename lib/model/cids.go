package model

import (
	"crypto/sha256"

	"verif/lib/fw"
)

// CIDs are constructed by hand here (not through go-cid), from the CID and
// multihash specifications: v0 = multihash(sha2-256, 32); v1 = varint(1) ‖
// varint(codec) ‖ varint(mhcode) ‖ varint(len) ‖ digest.

func Varint(x uint64) []byte {
	var b []byte
	for x >= 0x80 {
		b = append(b, byte(x)|0x80)
		x >>= 7
	}
	return append(b, byte(x))
}

// MakeCID builds the binary CID.
func MakeCID(version int, codec, mhCode uint64, digest []byte) []byte {
	mh := append(Varint(mhCode), Varint(uint64(len(digest)))...)
	mh = append(mh, digest...)
	if version == 0 {
		return mh
	}
	out := append(Varint(1), Varint(codec)...)
	return append(out, mh...)
}

var cidCodecs = []uint64{0x55, 0x70, 0x71, 0x0129, 0x51, 0x0200, 0x72, 0x300000}

type mhShape struct {
	code uint64
	size int
}

var mhShapes = []mhShape{
	{0x12, 32}, {0x12, 32}, {0x13, 64}, {0x11, 20}, {0xd5, 16}, {0x12, 20}, // truncated sha2-256
	{0x16, 32}, {0xb220, 32}, {0x1e, 32}, {0x56, 32}, {0x12, 1}, {0x1013, 48},
}

// GenCID draws a syntactically valid CID of any version/codec/multihash shape.
func GenCID(r *fw.RNG) []byte {
	switch r.Intn(8) {
	case 0: // CIDv0
		d := sha256.Sum256(r.Bytes(4))
		return MakeCID(0, 0x70, 0x12, d[:])
	case 1: // identity multihash, various lengths incl. empty
		n := []int{0, 1, 2, 10, 32, 40}[r.Intn(6)]
		return MakeCID(1, cidCodecs[r.Intn(len(cidCodecs))], 0x00, r.Bytes(n))
	default:
		s := mhShapes[r.Intn(len(mhShapes))]
		return MakeCID(1, cidCodecs[r.Intn(len(cidCodecs))], s.code, r.Bytes(s.size))
	}
}
