#!/bin/bash
# Offline setup after a fresh restore: build the runner from files on disk only.
set -e
cd "$(dirname "$0")"
. tools/env.sh
mkdir -p bin evidence replays
go build -tags verif -o bin/verifrun ./cmd/verifrun
echo "setup ok: $(go version)"
