// verifrun is both the parent of a check run and (with -worker) the child that
// executes one batch of cases against the real code of /repo.
package main

import (
	"flag"
	"fmt"
	"os"
	"runtime"
	"strconv"

	"verif/lib/fw"
	_ "verif/lib/props"
)

func main() {
	// helper processes: verifrun -aux <name> args...
	if len(os.Args) > 2 && os.Args[1] == "-aux" {
		os.Exit(fw.RunAux(os.Args[2], os.Args[3:]))
	}
	var (
		worker = flag.Bool("worker", false, "run as batch child")
		prop   = flag.String("prop", "", "property id")
		tier   = flag.String("tier", "quick", "quick|thorough")
		seed   = flag.Uint64("seed", 0, "seed (default $VERIF_SEED or 1)")
		batch  = flag.Int("batch", 0, "batch index (worker)")
		only   = flag.Int("only", -1, "run only this case index (worker)")
		out    = flag.String("out", "", "output dir (worker)")
		replay = flag.String("replay", "", "replay file")
		root   = flag.String("root", "", "verif root (default $VERIF_ROOT or /verif)")
		jobs   = flag.Int("jobs", 0, "parallel children")
		list   = flag.Bool("list", false, "list properties")
	)
	flag.Parse()
	if *list {
		for _, id := range fw.IDs() {
			fmt.Println(id)
		}
		return
	}
	if *seed == 0 {
		*seed = 1
		if s := os.Getenv("VERIF_SEED"); s != "" {
			if v, err := strconv.ParseUint(s, 10, 64); err == nil {
				*seed = v
			}
		}
	}
	if *root == "" {
		*root = os.Getenv("VERIF_ROOT")
		if *root == "" {
			*root = "/verif"
		}
	}
	if *replay != "" {
		os.Exit(fw.RunReplay(*replay))
	}
	if *worker {
		os.Exit(fw.RunWorker(fw.WorkerArgs{Prop: *prop, Tier: *tier, Seed: *seed, Batch: *batch, Only: *only, OutDir: *out}))
	}
	if *jobs == 0 {
		*jobs = runtime.NumCPU()
		if s := os.Getenv("VERIF_JOBS"); s != "" {
			if v, err := strconv.Atoi(s); err == nil && v > 0 {
				*jobs = v
			}
		}
	}
	self, _ := os.Executable()
	os.Exit(fw.RunParent(fw.ParentArgs{Prop: *prop, Tier: *tier, Seed: *seed, Root: *root, Self: self, Jobs: *jobs}))
}
